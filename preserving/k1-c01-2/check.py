#!/usr/bin/env python
"""check.py -- property C01 (compiled router == plain DFS over the template tree).

Change 2 (PERFORMANCE): CompiledRouterNode.conflicts_with only parses the
other segment when the node itself is a field node.  Focus: the node-level
conflicts_with truth table (section C) and more add_route histories with
accepted/rejected templates (sections A and D).

Run as:  PYTHONPATH=<tree> /venv/bin/python check.py

The program builds many route sets / add_route histories (accepted and
rejected templates, with and without ``compile=True``, WSGI and ASGI flavour,
interleaved with look-ups), and compares ``CompiledRouter.find`` with an
independent reference model (a plain depth-first walk over a template tree:
literal < multi-field < single-field, back-tracking, converters may veto,
a trailing path converter swallows the rest).  Accept/reject verdicts are
predicted by the model as well, a router with a history of rejected templates
is compared (generated source and results) with a fresh router that only saw
the accepted ones, and the generated finder source for a few fixed route
tables is compared with SHA-256 digests recorded from the UNMODIFIED tree.

Prints PASS and exits 0 when everything agrees.
"""

import datetime
import hashlib
import itertools
import math
import random
import re
import sys
import threading
import uuid

import falcon
import falcon.asgi
import falcon.testing
from falcon.routing import CompiledRouter
from falcon.routing.compiled import CompiledRouterNode
from falcon.routing.compiled import UnacceptableRouteError

FOCUS = 'conflicts'

FAILS = []
COUNT = {'lookups': 0, 'adds': 0, 'rejects': 0, 'routesets': 0, 'other': 0}


def fail(msg):
    FAILS.append(msg)
    if len(FAILS) <= 15:
        print('FAIL:', msg)


# ---------------------------------------------------------------------------
# Reference model
# ---------------------------------------------------------------------------

M_FIELD = re.compile(r'\{([^}:]*)(:([^}(]*)(?:\(([^}]*)\))?)?\}')
M_IDENT = re.compile(r'[A-Za-z_][A-Za-z0-9_]*\Z')
KEYWORDS = {
    'False', 'None', 'True', 'and', 'as', 'assert', 'async', 'await', 'break',
    'class', 'continue', 'def', 'del', 'elif', 'else', 'except', 'finally',
    'for', 'from', 'global', 'if', 'import', 'in', 'is', 'lambda', 'nonlocal',
    'not', 'or', 'pass', 'raise', 'return', 'try', 'while', 'with', 'yield',
}  # fmt: skip


def m_minmax(v, mn, mx):
    if mn is not None and v < mn:
        return None
    if mx is not None and v > mx:
        return None
    return v


def m_int(num_digits=None, mn=None, mx=None):
    def conv(s):
        if num_digits is not None and len(s) != num_digits:
            return None
        if s.strip() != s:
            return None
        try:
            v = int(s)
        except ValueError:
            return None
        return m_minmax(v, mn, mx)

    return conv


def m_float(mn=None, mx=None, finite=True):
    def conv(s):
        if s.strip() != s:
            return None
        try:
            v = float(s)
        except ValueError:
            return None
        if finite and not math.isfinite(v):
            return None
        return m_minmax(v, mn, mx)

    return conv


def m_uuid(s):
    try:
        return uuid.UUID(s)
    except ValueError:
        return None


def m_dt(fmt):
    def conv(s):
        try:
            return datetime.datetime.strptime(s, fmt)
        except ValueError:
            return None

    return conv


PATH = 'PATH'  # marker: consumes the remaining segments
BAD = 'BAD'  # marker: converter can not be instantiated

# (cname, argstr) -> model converter
M_CONVERTERS = {
    ('int', None): m_int(),
    ('int', '2'): m_int(2),
    ('int', '1'): m_int(1),
    ('int', 'min=0'): m_int(mn=0),
    ('int', 'num_digits=3, max=500'): m_int(3, mx=500),
    ('int', 'min=-5, max=5'): m_int(mn=-5, mx=5),
    ('float', None): m_float(),
    ('float', 'min=-1.5'): m_float(mn=-1.5),
    ('float', 'finite=False'): m_float(finite=False),
    ('uuid', None): m_uuid,
    ('dt', '"%Y-%m-%d"'): m_dt('%Y-%m-%d'),
    ('path', None): PATH,
    ('int', '0'): BAD,
    ('int', 'x=1'): BAD,
    ('float', '1, 2, 3, 4'): BAD,
    ('uuid', '7'): BAD,
}
KNOWN_CNAMES = {'int', 'float', 'uuid', 'dt', 'path'}


class MNode:
    LIT, COMPLEX, SIMPLE = 0, 1, 2

    def __init__(self, raw):
        self.raw = raw
        self.children = []
        self.route = None  # (resource, template)
        fields = list(M_FIELD.finditer(raw))
        self.fields = [(m.group(1), self._conv(m)) for m in fields]
        if not fields:
            self.kind = self.LIT
        elif len(fields) == 1 and fields[0].span() == (0, len(raw)):
            self.kind = self.SIMPLE
        else:
            self.kind = self.COMPLEX
            pos = 0
            rx = ''
            for m in fields:
                rx += re.escape(raw[pos : m.start()])
                rx += '(?P<%s>.+)' % m.group(1)
                pos = m.end()
            rx += re.escape(raw[pos:])
            self.regex = re.compile(rx)
        self.shape = M_FIELD.sub('v', raw)

    @staticmethod
    def _conv(m):
        if not m.group(3):
            return None
        return M_CONVERTERS[(m.group(3), m.group(4))]

    @property
    def has_path_conv(self):
        return any(c is PATH for _, c in self.fields)

    def conflicts(self, other):
        if self.kind == self.SIMPLE:
            return other.kind == self.SIMPLE
        if self.kind == self.COMPLEX:
            return other.kind == self.COMPLEX and self.shape == other.shape
        return False


def m_statically_valid(template):
    """The checks that do not depend on what was added before."""
    if re.search(r'\s', M_FIELD.sub('{FIELD}', template)):
        return False
    used = set()
    for seg in template.lstrip('/').split('/'):
        if re.search(r'\s', M_FIELD.sub('{FIELD}', seg)):
            return False
        for m in M_FIELD.finditer(seg):
            name = m.group(1)
            if not M_IDENT.match(name) or name in KEYWORDS:
                return False
            if name in used:
                return False
            used.add(name)
            if m.group(2) == ':':
                return False
            cname = m.group(3)
            if cname:
                if cname not in KNOWN_CNAMES:
                    return False
                if M_CONVERTERS[(cname, m.group(4))] is BAD:
                    return False
    return True


class Model:
    def __init__(self):
        self.roots = []
        self.accepted = []  # (template, resource) in order

    def would_accept(self, template):
        if not m_statically_valid(template):
            return False
        segs = template.lstrip('/').split('/')
        nodes = self.roots
        for i, seg in enumerate(segs):
            last = i == len(segs) - 1
            new = MNode(seg)
            match = None
            for n in nodes:
                if n.raw == seg:
                    match = n
                    break
            if match is None:
                for n in nodes:
                    if n.conflicts(new):
                        return False
                if new.kind == MNode.COMPLEX and new.has_path_conv:
                    return False
                if new.has_path_conv and not last:
                    return False
                nodes = []
            else:
                if match.has_path_conv and not last:
                    return False
                nodes = match.children
        return True

    def add(self, template, resource):
        segs = template.lstrip('/').split('/')
        nodes = self.roots
        node = None
        for seg in segs:
            for n in nodes:
                if n.raw == seg:
                    node = n
                    break
            else:
                node = MNode(seg)
                nodes.append(node)
            nodes = node.children
        node.route = (resource, template)
        self.accepted.append((template, resource))

    def find(self, uri):
        path = uri.lstrip('/').split('/')
        return self._walk(self.roots, path, 0, {})

    def _walk(self, nodes, path, level, params):
        if level >= len(path):
            return None
        seg = path[level]
        for n in sorted(nodes, key=lambda n: n.kind):  # stable
            if n.kind == MNode.LIT:
                if seg != n.raw:
                    continue
                p = params
            elif n.kind == MNode.COMPLEX:
                m = n.regex.fullmatch(seg)
                if m is None:
                    continue
                groups = m.groupdict()
                p = dict(params)
                vetoed = False
                for name, conv in n.fields:
                    if conv is not None:
                        v = conv(groups[name])
                        if v is None:
                            vetoed = True
                            break
                        p[name] = v
                if vetoed:
                    continue
                for name, conv in n.fields:
                    if conv is None:
                        p[name] = groups[name]
            else:
                name, conv = n.fields[0]
                p = dict(params)
                if conv is PATH:
                    p[name] = '/'.join(path[level:])
                    assert n.route is not None and not n.children
                    return n.route + (p,)
                if conv is None:
                    p[name] = seg
                else:
                    v = conv(seg)
                    if v is None:
                        continue
                    p[name] = v
            found = self._walk(n.children, path, level + 1, p)
            if found is not None:
                return found
            if n.route is not None and len(path) == level + 1:
                return n.route + (p,)
        return None


# ---------------------------------------------------------------------------
# Resources
# ---------------------------------------------------------------------------


class SyncRes:
    def __init__(self, tag):
        self.tag = tag

    def on_get(self, req, resp, **kw):
        resp.media = {
            't': req.uri_template,
            'tag': self.tag,
            'p': {k: repr(v) for k, v in kw.items()},
        }


class AsyncRes:
    def __init__(self, tag):
        self.tag = tag

    async def on_get(self, req, resp, **kw):
        resp.media = {
            't': req.uri_template,
            'tag': self.tag,
            'p': {k: repr(v) for k, v in kw.items()},
        }


# ---------------------------------------------------------------------------
# Generators
# ---------------------------------------------------------------------------

UUIDSTR = '0f2a6f3e-9c1d-4b7a-8e55-1234567890ab'

LITERALS = ['a', 'b', 'items', 'v1', 'x.y', 'a-b', '', '(z)', 'A', '0', '12', 'c+d']
SIMPLES = [
    '{id}', '{name}', '{id:int}', '{id:int(2)}', '{n:int(min=0)}', '{f:float}',
    '{f:float(min=-1.5)}', '{g:float(finite=False)}', '{u:uuid}',
    '{d:dt("%Y-%m-%d")}', '{p:path}', '{rest:path}', '{k:int(num_digits=3, max=500)}',
    '{w:int(min=-5, max=5)}', '{t}',
]  # fmt: skip
COMPLEXES = [
    '{a}-{b}', '{a}.{ext}', '{a:int}-{b}', '{a}-{b:int}', 'v{ver:int}', '{x}.json',
    '{a}_{b}_{c:int(1)}', 'pre{a}', '{c}-{d}', '{a}{b}', '{q:int}{r}', '({a})',
    '{a:int}.{b:int(2)}', '{x}+{y:float}', '{m}-{n}-{o}', '{a}v',
]  # fmt: skip
ALWAYS_BAD = [
    '{a}x{p:path}', '{p:path}.txt', '{a b}', 'a b', '{1a}', '{class}', '{a:}',
    '{a:nope}', '{a:int(0)}', '{a:int(x=1)}', '{}', '{a-b}', '{a}-{a}', '\tz',
    '{a:float(1, 2, 3, 4)}', '{u:uuid(7)}', '{a} ', 'x {a}', '{import}x', '{a:Int}',
]  # fmt: skip

BASE_REPS = [
    '', 'a', 'zz', '7', '42', '-3', '007', '1.5', 'nan', 'inf', ' 1', '1 ', '1_0',
    'x-y', 'x-7', '3-x', '3-4', 'x-y-z', 'p.json', '.json', 'a.b', '5.07', 'v2', 'vx',
    'v', 'prez', 'pre', 'a_b_3', 'a_b_33', UUIDSTR, UUIDSTR.replace('-', ''),
    '2020-01-02', '2020-13-02', 'A', 'B', '12', '123', '999', '+5', '(k)', '()',
    '1+2.5', 'x+y', '12x', 'xv', 'items', '{id}', '٣', '-1.5', '-2', 'a-b',
]  # fmt: skip


def gen_segment(rng, bad_bias):
    r = rng.random()
    if r < bad_bias:
        return rng.choice(ALWAYS_BAD)
    if r < bad_bias + 0.40:
        return rng.choice(LITERALS)
    if r < bad_bias + 0.70:
        return rng.choice(SIMPLES)
    return rng.choice(COMPLEXES)


def gen_template(rng, pool=None, bad_bias=0.06):
    depth = rng.choice([1, 1, 2, 2, 2, 3, 3, 4])
    segs = []
    # reuse a prefix of an earlier template quite often, so that trees get
    # shared interior nodes, overrides, and deep conflicts
    if pool and rng.random() < 0.6:
        prev = rng.choice(pool).lstrip('/').split('/')
        segs = prev[: rng.randint(1, len(prev))]
    while len(segs) < depth:
        segs.append(gen_segment(rng, bad_bias))
    return '/' + '/'.join(segs)


def reps_for(templates, rng, extra=8):
    reps = set()
    for t in templates:
        for seg in t.lstrip('/').split('/'):
            if not M_FIELD.search(seg):
                reps.add(seg)
    reps.update(rng.sample(BASE_REPS, extra))
    reps.update(['', 'a', '7', 'x-y'])
    return sorted(reps)


def gen_paths(reps, rng, exhaustive_depth=2, n_random=250):
    paths = []
    for d in range(1, exhaustive_depth + 1):
        for combo in itertools.product(reps, repeat=d):
            paths.append('/' + '/'.join(combo))
    for _ in range(n_random):
        d = rng.randint(3, 5)
        paths.append('/' + '/'.join(rng.choice(reps) for _ in range(d)))
    paths.append('')
    paths.append('//')
    paths.append('///a')
    return paths


# ---------------------------------------------------------------------------
# Comparison helpers
# ---------------------------------------------------------------------------


def same_params(a, b):
    if a.keys() != b.keys():
        return False
    for k in a:
        va, vb = a[k], b[k]
        if type(va) is not type(vb):
            return False
        if isinstance(va, float) and math.isnan(va) and math.isnan(vb):
            continue
        if va != vb:
            return False
    return True


def compare_lookup(router, model, uri, ctx):
    COUNT['lookups'] += 1
    try:
        got = router.find(uri)
    except Exception as ex:  # the property: never an internal error
        fail('%s: find(%r) raised %r' % (ctx, uri, ex))
        return
    exp = model.find(uri)
    if exp is None:
        if got is not None:
            fail('%s: find(%r) -> %r, expected None' % (ctx, uri, got[3]))
        return
    if got is None:
        fail('%s: find(%r) -> None, expected %r %r' % (ctx, uri, exp[1], exp[2]))
        return
    resource, method_map, params, template = got
    if resource is not exp[0] or template != exp[1]:
        fail('%s: find(%r) -> %r, expected %r' % (ctx, uri, template, exp[1]))
    elif not same_params(params, exp[2]):
        fail('%s: find(%r) params %r, expected %r' % (ctx, uri, params, exp[2]))
    elif 'GET' not in method_map:
        fail('%s: find(%r) lost the method map' % (ctx, uri))


def try_add(router, model, template, resource, ctx, **kwargs):
    """add to router; check the verdict against the model; mirror in model."""
    COUNT['adds'] += 1
    expected = model.would_accept(template)
    try:
        router.add_route(template, resource, **kwargs)
        accepted = True
    except UnacceptableRouteError as ex:
        accepted = False
        COUNT['rejects'] += 1
        if not isinstance(ex, ValueError) or not str(ex):
            fail('%s: odd rejection error %r' % (ctx, ex))
    except Exception as ex:
        fail('%s: add_route(%r) raised %r' % (ctx, template, ex))
        return False
    if accepted != expected:
        fail(
            '%s: add_route(%r) accepted=%r, model says %r'
            % (ctx, template, accepted, expected)
        )
    if accepted:
        model.add(template, resource)
    return accepted


def make_resource(asgi, tag):
    return AsyncRes(tag) if asgi else SyncRes(tag)


def replay_fresh(model, asgi):
    fresh = CompiledRouter()
    for template, resource in model.accepted:
        if asgi:
            fresh.add_route(template, resource, _asgi=True)
        else:
            fresh.add_route(template, resource)
    return fresh


# ---------------------------------------------------------------------------
# Section A: random histories
# ---------------------------------------------------------------------------


def section_histories(n_trials, seed):
    rng = random.Random(seed)
    for trial in range(n_trials):
        asgi = trial % 2 == 1
        kw = {'_asgi': True} if asgi else {}
        router = CompiledRouter()
        model = Model()
        pool = []
        ctx = 'hist#%d' % trial
        n_ops = rng.randint(5, 14)
        for op in range(n_ops):
            template = gen_template(rng, pool, bad_bias=0.08)
            pool.append(template)
            kwargs = dict(kw)
            mode = rng.random()
            if mode < 0.25:
                kwargs['compile'] = True
            elif mode < 0.35:
                kwargs['compile'] = False
            res = make_resource(asgi, '%d.%d' % (trial, op))
            try_add(router, model, template, res, ctx, **kwargs)
            # interleaved look-ups (these also force compilation sometimes)
            if rng.random() < 0.6:
                reps = reps_for(pool, rng, extra=4)
                for _ in range(6):
                    d = rng.randint(1, 4)
                    uri = '/' + '/'.join(rng.choice(reps) for _ in range(d))
                    compare_lookup(router, model, uri, ctx)
        COUNT['routesets'] += 1
        reps = reps_for([t for t, _ in model.accepted], rng, extra=7)
        paths = gen_paths(reps, rng, exhaustive_depth=2, n_random=200)
        for uri in paths:
            compare_lookup(router, model, uri, ctx)
        # a router that never saw the rejected templates must be the same
        fresh = replay_fresh(model, asgi)
        if fresh.finder_src != router.finder_src:
            fail('%s: generated source differs from fresh router' % ctx)
        for uri in rng.sample(paths, 40):
            a, b = router.find(uri), fresh.find(uri)
            if (a is None) != (b is None) or (
                a is not None
                and (a[0] is not b[0] or a[3] != b[3] or not same_params(a[2], b[2]))
            ):
                fail('%s: %r differs between history and fresh router' % (ctx, uri))


# ---------------------------------------------------------------------------
# Section B: systematic sibling shapes (precedence / back-tracking / leaks /
#            fast_return pruning)
# ---------------------------------------------------------------------------

SIB_POOL = ['a', 'b', '{x}-{y}', '{x}.{y}', 'v{n:int}', '{s}', '{s:int}', '{s:path}']
CHILD_POOL = ['c', 'a', '{t}', '{t:int}', '{k}-{l}', '{t:path}']
SIB_REPS = ['a', 'b', 'c', 'q', '1', '22', 'x-y', 'x.y', 'x-y.z', '', 'v3', 'vv', '1-2']


def section_shapes(n_sets, seed):
    rng = random.Random(seed)
    paths = []
    for d in (1, 2, 3):
        for combo in itertools.product(SIB_REPS, repeat=d):
            paths.append('/' + '/'.join(combo))
    paths += ['/a/c/c/c', '/q/q/q/q', '/x-y/c/', '/a//c']
    for i in range(n_sets):
        asgi = i % 3 == 2
        kw = {'_asgi': True} if asgi else {}
        router = CompiledRouter()
        model = Model()
        ctx = 'shape#%d' % i
        sibs = rng.sample(SIB_POOL, rng.randint(1, 5))
        templates = []
        for s in sibs:
            mode = rng.choice(['leaf', 'inner', 'both', 'deep'])
            if mode in ('leaf', 'both'):
                templates.append('/' + s)
            if mode in ('inner', 'both', 'deep'):
                for c in rng.sample(CHILD_POOL, rng.randint(1, 3)):
                    templates.append('/' + s + '/' + c)
                    if mode == 'deep':
                        g = rng.choice(CHILD_POOL)
                        templates.append('/' + s + '/' + c + '/' + g.replace('t', 'u'))
        rng.shuffle(templates)
        for j, t in enumerate(templates):
            kwargs = dict(kw)
            if rng.random() < 0.2:
                kwargs['compile'] = True
            try_add(router, model, t, make_resource(asgi, j), ctx, **kwargs)
            if rng.random() < 0.3:
                compare_lookup(router, model, rng.choice(paths), ctx)
        COUNT['routesets'] += 1
        for uri in paths if i % 4 == 0 else rng.sample(paths, 500):
            compare_lookup(router, model, uri, ctx)
        fresh = replay_fresh(model, asgi)
        if fresh.finder_src != router.finder_src:
            fail('%s: generated source differs from fresh router' % ctx)


# ---------------------------------------------------------------------------
# Section C: conflicts_with / matches truth table on node level
# ---------------------------------------------------------------------------


def section_conflict_table():
    segs = LITERALS + SIMPLES + COMPLEXES
    for s1 in segs:
        try:
            node = CompiledRouterNode(s1)
        except Exception as ex:
            fail('CompiledRouterNode(%r) raised %r' % (s1, ex))
            continue
        m1 = MNode(s1)
        kinds = (node.is_var, node.is_complex)
        exp_kinds = (m1.kind != MNode.LIT, m1.kind == MNode.COMPLEX)
        COUNT['other'] += 1
        if kinds != exp_kinds:
            fail('node kind of %r: %r' % (s1, kinds))
        for s2 in segs:
            COUNT['other'] += 1
            if node.matches(s2) != (s1 == s2):
                fail('matches(%r, %r)' % (s1, s2))
            if s1 == s2:
                continue
            try:
                got = node.conflicts_with(s2)
            except Exception as ex:
                fail('conflicts_with(%r, %r) raised %r' % (s1, s2, ex))
                continue
            if got is not m1.conflicts(MNode(s2)):
                fail('conflicts_with(%r, %r) -> %r' % (s1, s2, got))


# ---------------------------------------------------------------------------
# Section D: rejected templates leave no trace (hand-written histories)
# ---------------------------------------------------------------------------

REJECT_HISTORIES = [
    # (accepted-before, rejected, accepted-after)
    (['/a/{id}'], ['/a/{other}', '/a/{other}/x', '/a/{id:int}'], ['/a/{id}/x']),
    (['/a/{x}-{y}'], ['/a/{p}-{q}', '/a/{p}-{q}/z'], ['/a/{x}.{y}', '/a/{x}-{y}/z']),
    ([], ['/n1/n2/{p:path}/tail', '/n1/{a}x{p:path}'], ['/n1/n2', '/n1/{a}']),
    (['/f/{p:path}'], ['/f/{p:path}/x', '/f/{q:path}', '/f/{q}'], ['/f/lit', '/f/{a}-{b}']),
    (['/r/{a}'], ['/r/new/{a}/{a}', '/r/new/{b:nope}', '/r/new/ x'], ['/r/new2/{b}']),
    (
        ['/deep/a/b'],
        ['/deep/z/y/{p:path}/w', '/deep/z/{k}/{p:path}/w', '/deep/a/q/{p:path}x'],
        ['/deep/z', '/deep/{k}/y'],
    ),
    (['/{a}/x/{b}'], ['/{a}/y/{b}/{p:path}/{c}', '/{z}/y'], ['/{a}/y/{b}']),
    (['/m/{a:int}-{b}'], ['/m/fresh/{c}-{c}', '/m/{c:int}-{d}/k'], ['/m/{a:int}-{b}/k']),
]  # fmt: skip


def section_reject_histories(seed):
    rng = random.Random(seed)
    for idx, (before, rejected, after) in enumerate(REJECT_HISTORIES):
        for variant in range(6):
            asgi = variant % 2 == 1
            kw = {'_asgi': True} if asgi else {}
            compile_flag = variant >= 2
            lookup_between = variant >= 4
            router = CompiledRouter()
            model = Model()
            ctx = 'rej#%d.%d' % (idx, variant)
            everything = before + rejected + after
            reps = reps_for(everything, rng, extra=6)
            paths = gen_paths(reps, rng, exhaustive_depth=2, n_random=150)
            n = 0
            for group, must_accept in ((before, True), (rejected, False), (after, True)):
                for t in group:
                    n += 1
                    kwargs = dict(kw)
                    if compile_flag:
                        kwargs['compile'] = True
                    ok = try_add(router, model, t, make_resource(asgi, n), ctx, **kwargs)
                    if ok != must_accept:
                        fail('%s: %r accepted=%r' % (ctx, t, ok))
                    if lookup_between:
                        for uri in rng.sample(paths, 25):
                            compare_lookup(router, model, uri, ctx)
            COUNT['routesets'] += 1
            for uri in paths:
                compare_lookup(router, model, uri, ctx)
            fresh = replay_fresh(model, asgi)
            if fresh.finder_src != router.finder_src:
                fail('%s: generated source differs from fresh router' % ctx)


# ---------------------------------------------------------------------------
# Section E: fixed tables, digests of the generated source taken from the
#            unmodified tree, and hard-coded expectations
# ---------------------------------------------------------------------------

FIXED_TABLES = {
    'T1': [
        '/', '/a', '/a/{id}', '/a/{id}/b', '/a/{x}-{y}', '/a/{x}-{y}/b', '/a/lit/b',
        '/{top}', '/{top}/{p:path}', '/v{n:int}/z', '/f/{f:float(min=-1.5)}',
        '/u/{u:uuid}/{d:dt("%Y-%m-%d")}', '/s/{p:path}', '/s/x', '/s/x/y',
    ],
    'T2': [
        '/it\'s/"q"/{a}', '/w/{a:int}.{b:int(2)}/{c}', '/w/{a:int}.{b:int(2)}',
        '/w/{k}', '/w/{k}/end', '/w/({a})', '/w/{a}{b}/t', '/c+d/{q:int}{r}',
        '/w/{x}.json', '/w/{a}_{b}_{c:int(1)}',
    ],
    'T3': ['/{a}', '/{a}/{b}', '/{a}/{b}/{c}', '/{a}/{b}/{c}/{d:path}', '/{a}/x/{c}/y'],
}  # fmt: skip

EXPECTED_SHA = {
    # recorded with --print-hashes on the unmodified tree
    'T1': 'd315de44a3ac80fef57c05413631a9ff6feab7027ca8df370faee7694384e5af',
    'T2': 'f842fb9322563ef090bcca469a5e9a6075f528f298a69ed1f917661384a0b097',
    'T3': 'cb30b631da0dedcb4b67c6ef906476c659740110a2ab69ec74e5b237ac65ef63',
}

# hard-coded expectations (template, params) observed on the unmodified tree
FIXED_EXPECT = {
    'T1': {
        '/': ('/', {}),
        '/a': ('/a', {}),
        '/a/7': ('/a/{id}', {'id': '7'}),
        '/a/7/b': ('/a/{id}/b', {'id': '7'}),
        '/a/x-y': ('/a/{x}-{y}', {'x': 'x', 'y': 'y'}),
        '/a/x-y/b': ('/a/{x}-{y}/b', {'x': 'x', 'y': 'y'}),
        '/a/x-y-z/b': ('/a/{x}-{y}/b', {'x': 'x-y', 'y': 'z'}),
        '/a/lit/b': ('/a/lit/b', {}),
        '/a/lit': ('/a/{id}', {'id': 'lit'}),
        '/a/lit/c': ('/{top}/{p:path}', {'top': 'a', 'p': 'lit/c'}),
        '/zz': ('/{top}', {'top': 'zz'}),
        '/zz/': ('/{top}/{p:path}', {'top': 'zz', 'p': ''}),
        '/zz/q/r/s': ('/{top}/{p:path}', {'top': 'zz', 'p': 'q/r/s'}),
        '/a/b/c/d': ('/{top}/{p:path}', {'top': 'a', 'p': 'b/c/d'}),
        '/v12/z': ('/v{n:int}/z', {'n': 12}),
        '/vx/z': ('/{top}/{p:path}', {'top': 'vx', 'p': 'z'}),
        '/v12': ('/{top}', {'top': 'v12'}),
        '/f/-1.5': ('/f/{f:float(min=-1.5)}', {'f': -1.5}),
        '/f/-2': ('/{top}/{p:path}', {'top': 'f', 'p': '-2'}),
        '/s/x': ('/s/x', {}),
        '/s/x/y': ('/s/x/y', {}),
        '/s/x/y/z': ('/s/{p:path}', {'p': 'x/y/z'}),
        '/s/q': ('/s/{p:path}', {'p': 'q'}),
        '/s': ('/{top}', {'top': 's'}),
        '/u/%s/2020-01-02' % UUIDSTR: (
            '/u/{u:uuid}/{d:dt("%Y-%m-%d")}',
            {'u': uuid.UUID(UUIDSTR), 'd': datetime.datetime(2020, 1, 2)},
        ),
        '/u/nope/2020-01-02': ('/{top}/{p:path}', {'top': 'u', 'p': 'nope/2020-01-02'}),
    },
    'T2': {
        '/w': None,
        '/nothing': None,
        '/w/5.07': ('/w/{a:int}.{b:int(2)}', {'a': 5, 'b': 7}),
        '/w/5.7': ('/w/{k}', {'k': '5.7'}),
        '/w/5.7/t': ('/w/{a}{b}/t', {'a': '5.', 'b': '7'}),
        '/w/5.07/t': ('/w/{a:int}.{b:int(2)}/{c}', {'a': 5, 'b': 7, 'c': 't'}),
        '/w/5.7/end': ('/w/{k}/end', {'k': '5.7'}),
        '/w/5.07/end': ('/w/{a:int}.{b:int(2)}/{c}', {'a': 5, 'b': 7, 'c': 'end'}),
        '/w/(q)': ('/w/({a})', {'a': 'q'}),
        '/w/()': ('/w/{k}', {'k': '()'}),
        '/w/p.json': ('/w/{x}.json', {'x': 'p'}),
        '/w/a_b_3': ('/w/{a}_{b}_{c:int(1)}', {'a': 'a', 'b': 'b', 'c': 3}),
        '/w/a_b_33': ('/w/{k}', {'k': 'a_b_33'}),
        '/w/a_b_3/x': None,
        '/c+d/12x': ('/c+d/{q:int}{r}', {'q': 12, 'r': 'x'}),
        '/c+d/x12': None,
        '/it\'s/"q"/z': ('/it\'s/"q"/{a}', {'a': 'z'}),
        '/w/': ('/w/{k}', {'k': ''}),
        '/w//end': ('/w/{k}/end', {'k': ''}),
    },
    'T3': {
        '/1': ('/{a}', {'a': '1'}),
        '/1/2': ('/{a}/{b}', {'a': '1', 'b': '2'}),
        '/1/2/3': ('/{a}/{b}/{c}', {'a': '1', 'b': '2', 'c': '3'}),
        '/1/2/3/4/5': (
            '/{a}/{b}/{c}/{d:path}',
            {'a': '1', 'b': '2', 'c': '3', 'd': '4/5'},
        ),
        '/1/x/3/y': ('/{a}/x/{c}/y', {'a': '1', 'c': '3'}),
        '/1/x/3/z': ('/{a}/{b}/{c}/{d:path}', {'a': '1', 'b': 'x', 'c': '3', 'd': 'z'}),
        '/1/x/3': ('/{a}/{b}/{c}', {'a': '1', 'b': 'x', 'c': '3'}),
        '': ('/{a}', {'a': ''}),
    },
}


def build_fixed(name, asgi=False, compile_last=False):
    router = CompiledRouter()
    model = Model()
    kw = {'_asgi': True} if asgi else {}
    table = FIXED_TABLES[name]
    for i, t in enumerate(table):
        kwargs = dict(kw)
        if compile_last and i == len(table) - 1:
            kwargs['compile'] = True
        ok = try_add(router, model, t, make_resource(asgi, i), 'fixed ' + name, **kwargs)
        if not ok:
            fail('fixed %s: %r was rejected' % (name, t))
    return router, model


def section_fixed(seed, print_hashes=False):
    rng = random.Random(seed)
    for name in sorted(FIXED_TABLES):
        for asgi in (False, True):
            for compile_last in (False, True):
                router, model = build_fixed(name, asgi, compile_last)
                COUNT['routesets'] += 1
                digest = hashlib.sha256(router.finder_src.encode()).hexdigest()
                if print_hashes:
                    if not asgi and not compile_last:
                        print('    %r: %r,' % (name, digest))
                    continue
                if digest != EXPECTED_SHA.get(name):
                    fail('fixed %s: generated finder source changed' % name)
                try:
                    compile(router.finder_src, '<finder>', 'exec')
                except SyntaxError as ex:
                    fail('fixed %s: finder source does not compile: %r' % (name, ex))
                for uri, exp in FIXED_EXPECT.get(name, {}).items():
                    COUNT['lookups'] += 1
                    got = router.find(uri)
                    if exp is None:
                        if got is not None:
                            fail('fixed %s: %r -> %r' % (name, uri, got[3]))
                    elif got is None or got[3] != exp[0] or not same_params(got[2], exp[1]):
                        fail('fixed %s: %r -> %r' % (name, uri, got and got[2:]))
                reps = reps_for(FIXED_TABLES[name], rng, extra=10)
                for uri in gen_paths(reps, rng, exhaustive_depth=2, n_random=400):
                    compare_lookup(router, model, uri, 'fixed ' + name)


# ---------------------------------------------------------------------------
# Section F: first look-ups racing on an uncompiled router
# ---------------------------------------------------------------------------


def section_threads():
    for round_ in range(6):
        router, model = build_fixed('T1')
        uris = list(FIXED_EXPECT['T1'])
        errors = []
        barrier = threading.Barrier(8)

        def worker(k):
            barrier.wait()
            for uri in uris[k % 3 :] + uris[: k % 3]:
                try:
                    got = router.find(uri)
                except Exception as ex:
                    errors.append('%r raised %r' % (uri, ex))
                    continue
                exp = FIXED_EXPECT['T1'][uri]
                if exp is None:
                    if got is not None:
                        errors.append(uri)
                elif got is None or got[3] != exp[0] or not same_params(got[2], exp[1]):
                    errors.append(uri)

        threads = [threading.Thread(target=worker, args=(k,)) for k in range(8)]
        for t in threads:
            t.start()
        for t in threads:
            t.join()
        COUNT['lookups'] += 8 * len(uris)
        for e in errors:
            fail('threads: %s' % e)


# ---------------------------------------------------------------------------
# Section G: through falcon.App and falcon.asgi.App
# ---------------------------------------------------------------------------

E2E_TEMPLATES = [
    ('/a', True), ('/a/{id:int}', True), ('/a/{name}', False), ('/a/{id:int}/b', True),
    ('/a/{x}-{y:int}', True), ('/a/{p}-{q}', False), ('/new/{p:path}/x', False),
    ('/new2/{k}x{p:path}', False), ('/files/{p:path}', True), ('/files/idx', True),
    ('/{top}/z', True), ('/{other}/w', False), ('/a/{x}-{y:int}/c', True),
    ('/new/{dup}/{dup}', False), ('/new', True),
]  # fmt: skip
E2E_PATHS = [
    '/a', '/a/5', '/a/x', '/a/5/b', '/a/x/b', '/a/q-7', '/a/q-r', '/a/q-7/c', '/a/q-r/c',
    '/files/', '/files/a/b/c', '/files/idx', '/files/idx/x', '/files', '/zz/z', '/a/z',
    '/new', '/new/x', '/new/q/x', '/new2/kxp', '/', '/a/5/b/c', '/q/w', '/a/-3', '/a/1_0',
    '/a/a-b-3', '/a/a-b-3/c', '/files//', '/a/', '/new/',
]  # fmt: skip


def section_e2e():
    for asgi in (False, True):
        app = falcon.asgi.App() if asgi else falcon.App()
        model = Model()
        for i, (t, must_accept) in enumerate(E2E_TEMPLATES):
            res = make_resource(asgi, i)
            COUNT['adds'] += 1
            try:
                app.add_route(t, res)
                ok = True
            except UnacceptableRouteError:
                ok = False
            except Exception as ex:
                fail('e2e asgi=%r: add_route(%r) raised %r' % (asgi, t, ex))
                continue
            if ok != must_accept or ok != model.would_accept(t):
                fail('e2e asgi=%r: add_route(%r) accepted=%r' % (asgi, t, ok))
            if ok:
                model.add(t, res)
        client = falcon.testing.TestClient(app)
        for uri in E2E_PATHS:
            COUNT['lookups'] += 1
            result = client.simulate_get(uri)
            exp = model.find(uri)
            if exp is None:
                if result.status_code != 404:
                    fail('e2e asgi=%r: GET %r -> %s' % (asgi, uri, result.status))
                continue
            if result.status_code != 200:
                fail('e2e asgi=%r: GET %r -> %s' % (asgi, uri, result.status))
                continue
            body = result.json
            want = {
                't': exp[1],
                'tag': exp[0].tag,
                'p': {k: repr(v) for k, v in exp[2].items()},
            }
            if body != want:
                fail('e2e asgi=%r: GET %r -> %r, expected %r' % (asgi, uri, body, want))


# ---------------------------------------------------------------------------
# Section H: diagnostics of rejections (class, status of the router afterwards)
# ---------------------------------------------------------------------------


CONFLICT_TEXT = (
    'The URI template for this route is inconsistent or conflicts '
    "with another route's template."
)


def section_rejection_diagnostics():
    cases = [
        (['/p/{id}'], '/p/{pid}/children'),
        (['/p/{id}'], '/p/{pid}'),
        (['/p/{a}.{b}'], '/p/{c}.{d}'),
        (['/p/{a}.{b}'], '/p/{c}.{d}/{e}/{f}'),
        (['/p/{id:int}'], '/p/{id:int(2)}'),
        (['/{x}'], '/{y}/{z}'),
        (['/p/q/{id}'], '/p/q/{it\'s}'),
        (['/p/{a}{b}'], '/p/{{0}}{1}{c}'),
        ([], '/p/{a}/{p:path}/x'),
        ([], '/p/x{p:path}'),
    ]
    for before, bad in cases:
        for asgi in (False, True):
            kw = {'_asgi': True} if asgi else {}
            router = CompiledRouter()
            for i, t in enumerate(before):
                router.add_route(t, make_resource(asgi, i), **kw)
            src_before = router.finder_src
            COUNT['other'] += 1
            try:
                router.add_route(bad, make_resource(asgi, 99), **kw)
            except UnacceptableRouteError as ex:
                if type(ex) is not UnacceptableRouteError:
                    fail('diag: %r -> %r' % (bad, type(ex)))
                if not isinstance(ex, ValueError):
                    fail('diag: not a ValueError')
                text = str(ex)
                if not text or not isinstance(ex.args[0], str) or len(ex.args) != 1:
                    fail('diag: empty message for %r' % bad)
                is_conflict = bool(before) and m_statically_valid(bad)
                if is_conflict != text.startswith(CONFLICT_TEXT):
                    fail('diag: unexpected message for %r: %r' % (bad, text))
            except Exception as ex:
                fail('diag: %r raised %r' % (bad, ex))
            else:
                fail('diag: %r was accepted' % bad)
            if router.finder_src != src_before:
                fail('diag: %r left a trace' % bad)


# ---------------------------------------------------------------------------
# Section I: a segment that can not even be parsed into a node (bad regex
#            escape).  Observed on the unmodified tree: add_route lets the
#            re.error escape, and when nothing had to be created above the bad
#            segment the router is left exactly as it was.
# ---------------------------------------------------------------------------


def section_unparsable_segment(seed):
    rng = random.Random(seed)
    cases = [
        (['/s1', '/s2'], '/{a}\\q'),
        (['/s1', '/s2', '/{v}'], '/{a}\\q'),
        (['/s1', '/s2', '/{v}-{w}'], '/{a}\\q'),
        (['/s1/x', '/s1/y/z'], '/s1/{a}\\q'),
        (['/s1/x', '/s1/{k}.{l}', '/s1/y'], '/s1/{a}\\q/more'),
        (['/{v}/x', '/{v}/y'], '/{v}/pre{a}\\q'),
    ]
    for before, bad in cases:
        for asgi in (False, True):
            kw = {'_asgi': True} if asgi else {}
            router = CompiledRouter()
            model = Model()
            for i, t in enumerate(before):
                if not try_add(router, model, t, make_resource(asgi, i), 'unparsable', **kw):
                    fail('unparsable: %r rejected' % t)
            src_before = router.finder_src
            COUNT['other'] += 1
            try:
                router.add_route(bad, make_resource(asgi, 99), **kw)
            except re.error:
                pass
            except Exception as ex:
                fail('unparsable: %r raised %r' % (bad, ex))
            else:
                fail('unparsable: %r was accepted' % bad)
            if router.finder_src != src_before:
                fail('unparsable: %r left a trace' % bad)
            reps = reps_for(before, rng, extra=6)
            for uri in gen_paths(reps, rng, exhaustive_depth=2, n_random=60):
                compare_lookup(router, model, uri, 'unparsable')


# ---------------------------------------------------------------------------


def main(argv):
    print_hashes = '--print-hashes' in argv
    if print_hashes:
        section_fixed(5, print_hashes=True)
        return 0
    scale = {'histories': 260, 'shapes': 120}
    if FOCUS in ('conflicts', 'diagnostics'):
        scale['histories'] = 340
    if FOCUS in ('fast_return', 'codegen'):
        scale['shapes'] = 170
    section_conflict_table()
    section_fixed(5)
    section_reject_histories(7)
    section_rejection_diagnostics()
    section_unparsable_segment(11)
    section_histories(scale['histories'], 20240101)
    section_shapes(scale['shapes'], 99)
    section_threads()
    section_e2e()
    print(
        'route sets: %(routesets)d  add_route calls: %(adds)d (rejected: %(rejects)d)  '
        'look-ups compared: %(lookups)d  other checks: %(other)d' % COUNT
    )
    if FAILS:
        print('FAILED (%d mismatches)' % len(FAILS))
        return 1
    print('PASS')
    return 0


if __name__ == '__main__':
    sys.exit(main(sys.argv[1:]))
