"""Property C02 check: dispatch picks route, then sink/static by recency;
404/405/OPTIONS are exact.

Run as:  PYTHONPATH=<falcon tree> /venv/bin/python check.py

The program builds several hundred random app configurations (WSGI and
ASGI, both values of sink_before_static_route, arbitrary interleavings of
add_route / add_sink / add_static_route, resources implementing random
subsets of the HTTP/WebDAV methods, with and without suffix), fires every
method at a set of paths and compares what came back against an independent
reference model written below (it does not call any falcon routing code).

It also unit-checks map_http_methods / set_default_responders / the
combined sink+static tuple directly against the same model.

Prints PASS and exits 0 when everything agrees.
"""

import json
import os
import random
import re
import shutil
import sys
import tempfile
import warnings
import wsgiref.validate

import falcon
import falcon.asgi
from falcon import constants
from falcon import testing
from falcon.routing import util as routing_util

# falcon.testing turns wsgiref's "Unknown REQUEST_METHOD" warning into an
# error for the WebDAV verbs; we do want to send those verbs.
warnings.filterwarnings('ignore', category=wsgiref.validate.WSGIWarning)

SEED = 20261001
HTTP = list(constants.HTTP_METHODS)
WEBDAV = list(constants.WEBDAV_METHODS)
ALL_METHODS = HTTP + WEBDAV  # what a client may legitimately send
assert 'WEBSOCKET' not in ALL_METHODS
assert list(constants.COMBINED_METHODS)[-1] == 'WEBSOCKET'

failures = []
counters = {'apps': 0, 'requests': 0, 'unit': 0}
outcome_kinds = {}


def fail(msg):
    if len(msg) > 600:
        msg = msg[:600] + ' ...'
    failures.append(msg)
    if len(failures) > 25:
        finish()


def finish():
    if failures:
        print('FAIL (%d problems)' % len(failures))
        for f in failures[:25]:
            print('  -', f)
        sys.exit(1)
    # the generated space must actually reach every branch of the promise
    for k in ('route', 'sink', 'static', 'auto_options', '405', '404', '400'):
        if outcome_kinds.get(k, 0) < 50:
            print('FAIL: outcome kind %r under-sampled: %r' % (k, outcome_kinds))
            sys.exit(1)
    print(
        'PASS  apps=%(apps)d requests=%(requests)d unit_cases=%(unit)d' % counters,
        'outcomes=%r' % sorted(outcome_kinds.items()),
    )
    sys.exit(0)


# ---------------------------------------------------------------------------
# Resource / sink factories
# ---------------------------------------------------------------------------


def _record(resp, who, method, suffix, kwargs):
    resp.set_header(
        'X-Result',
        json.dumps(
            {'who': who, 'method': method, 'suffix': suffix, 'kw': kwargs},
            sort_keys=True,
        ),
    )


def make_resource(tag, plain_methods, suffixed, asgi, junk=()):
    """Build a resource instance.

    plain_methods: iterable of HTTP methods implemented without suffix.
    suffixed: dict suffix -> iterable of methods implemented as on_x_<suffix>.
    junk: method names for which a NON-callable on_x attribute is defined
          (must be ignored by the framework).
    """

    ns = {}

    def add(method, suffix):
        name = 'on_' + method.lower() + (('_' + suffix) if suffix else '')
        if asgi:
            if method == 'WEBSOCKET':

                async def responder(self, req, ws, **kwargs):  # pragma: no cover
                    await ws.close()

            else:

                async def responder(self, req, resp, **kwargs):
                    _record(resp, tag, method, suffix, kwargs)

        else:

            def responder(self, req, resp, **kwargs):
                _record(resp, tag, method, suffix, kwargs)

        responder.__name__ = name
        ns[name] = responder

    for m in plain_methods:
        add(m, None)
    for sfx, methods in suffixed.items():
        for m in methods:
            add(m, sfx)
    for m in junk:
        ns['on_' + m.lower()] = 42  # not callable -> not a responder

    cls = type('Res_' + tag, (object,), ns)
    return cls()


def make_sink(tag, asgi):
    if asgi:

        async def sink(req, resp, **kwargs):
            _record(resp, tag, req.method, None, kwargs)

    else:

        def sink(req, resp, **kwargs):
            _record(resp, tag, req.method, None, kwargs)

    return sink


# ---------------------------------------------------------------------------
# Reference model
# ---------------------------------------------------------------------------

TEMPLATES = [
    '/a',
    '/a/b',
    '/items',
    '/items/{item_id}',
    '/items/{item_id}/parts',
    '/items/{item_id}/parts/{part_id}',
    '/static',  # collides with a static prefix / sinks on purpose
    '/static/f.txt',
    '/sunk/deep',
    '/',
]

SINK_PREFIXES = [
    r'/',
    r'/a',
    r'/items',
    r'/items/(?P<item_id>\d+)',
    r'/sunk',
    r'/sunk/(?P<first>[^/]+)(/(?P<rest>.*))?',
    r'/static',
    r'/static/(?P<fname>.+)',
    r'/nomatch-prefix',
    r'/(?P<a>[a-z]+)/(?P<b>[a-z]+)$',
]

STATIC_PREFIXES = ['/static', '/static/', '/static/sub', '/a', '/files']

PATHS = [
    '/',
    '/a',
    '/a/b',
    '/a/f.txt',
    '/a/b/c',
    '/items',
    '/items/7',
    '/items/abc',
    '/items/7/parts',
    '/items/7/parts/9',
    '/items/7/other',
    '/static',
    '/static/',
    '/static/f.txt',
    '/static/missing.txt',
    '/static/sub/f.txt',
    '/static/sub',
    '/sunk',
    '/sunk/deep',
    '/sunk/deep/er/still',
    '/files/f.txt',
    '/filesx/f.txt',
    '/zzz',
    '/A',
]


def model_route_match(routes, path):
    """routes: dict template -> (tag, suffix, resource-spec). Returns
    (template, params) or None. Literal segments win over fields."""

    segs = path.split('/')[1:] if path != '/' else ['']
    best = None
    for template in routes:
        tsegs = template.split('/')[1:] if template != '/' else ['']
        if len(tsegs) != len(segs):
            continue
        params = {}
        score = []
        ok = True
        for t, s in zip(tsegs, segs):
            if t.startswith('{') and t.endswith('}'):
                if s == '':
                    ok = False
                    break
                params[t[1:-1]] = s
                score.append(0)
            elif t == s:
                score.append(1)
            else:
                ok = False
                break
        if ok:
            if best is None or score > best[0]:
                best = (score, template, params)
    if best is None:
        return None
    return best[1], best[2]


def model_allowed(implemented):
    """Allow list for the 405 responder and the default OPTIONS responder.

    Returns (allow_for_405, allow_for_default_options_or_None)."""
    impl = sorted(m for m in implemented if m != 'WEBSOCKET')
    if 'OPTIONS' in implemented:
        return impl, None
    return impl + ['OPTIONS'], impl


class ModelApp:
    def __init__(self, asgi, sink_first):
        self.asgi = asgi
        self.sink_first = sink_first
        self.routes = {}  # template -> (tag, suffix, implemented-set)
        self.sinks = []  # most recent first: (regex, tag)
        self.statics = []  # most recent first: (prefix, sid, has_fallback)

    def add_route(self, template, tag, suffix, implemented):
        self.routes[template] = (tag, suffix, set(implemented))

    def add_sink(self, pattern, tag):
        self.sinks.insert(0, (re.compile(pattern), tag))

    def add_static(self, prefix, sid, has_fallback):
        if not prefix.endswith('/'):
            prefix += '/'
        self.statics.insert(0, (prefix, sid, has_fallback))

    def ordered(self):
        s = [('sink',) + x for x in self.sinks]
        t = [('static',) + x for x in self.statics]
        return s + t if self.sink_first else t + s

    def expect(self, method, path):
        """Returns a dict describing the expected outcome."""
        if method == 'WEBSOCKET':
            # meta method is rejected for HTTP before routing
            return {'status': 400}
        m = model_route_match(self.routes, path)
        if m is not None:
            template, params = m
            tag, suffix, implemented = self.routes[template]
            if method in implemented:
                return {
                    'status': 200,
                    'result': {
                        'who': tag,
                        'method': method,
                        'suffix': suffix,
                        'kw': params,
                    },
                }
            allow405, allow_opt = model_allowed(implemented)
            if method == 'OPTIONS':
                return {'status': 200, 'allow': ', '.join(allow_opt), 'no_result': True}
            if method in ALL_METHODS:
                return {'status': 405, 'allow': ', '.join(allow405), 'no_result': True}
            # unknown verb on a matched route
            return {'status': 400, 'no_result': True}
        for entry in self.ordered():
            if entry[0] == 'sink':
                _, rx, tag = entry
                mo = rx.match(path)
                if mo:
                    return {
                        'status': 200,
                        'result': {
                            'who': tag,
                            'method': method,
                            'suffix': None,
                            'kw': mo.groupdict(),
                        },
                    }
            else:
                _, prefix, sid, has_fallback = entry
                if path.startswith(prefix) or (has_fallback and path == prefix[:-1]):
                    return {'static': sid, 'prefix': prefix, 'fallback': has_fallback}
        return {'status': 404, 'no_result': True}


# ---------------------------------------------------------------------------
# Static directories
# ---------------------------------------------------------------------------

TMP = tempfile.mkdtemp(prefix='c02check_')
N_STATIC_DIRS = 4
STATIC_DIRS = []
for i in range(N_STATIC_DIRS):
    d = os.path.join(TMP, 'dir%d' % i)
    os.makedirs(os.path.join(d, 'sub'))
    os.makedirs(os.path.join(d, 'b'))
    # every file has a length that identifies (directory, file)
    files = {
        'f.txt': b'x' * (100 + i),
        os.path.join('sub', 'f.txt'): b'y' * (200 + i),
        'fallback.txt': b'z' * (300 + i),
    }
    for name, content in files.items():
        with open(os.path.join(d, name), 'wb') as fh:
            fh.write(content)
    STATIC_DIRS.append(d)


def static_expect(sid, prefix, has_fallback, path, method):
    """What StaticRoute number `sid` mounted at `prefix` answers."""
    if method == 'OPTIONS':
        return {'status': 200, 'allow': 'GET', 'length': 0}
    rel = path[len(prefix):]
    d = STATIC_DIRS[sid]
    target = os.path.join(d, rel) if rel else None
    if rel and not rel.endswith('/') and os.path.isfile(target):
        return {'status': 200, 'length': os.path.getsize(target)}
    if has_fallback:
        return {'status': 200, 'length': 300 + sid}
    return {'status': 404}


# ---------------------------------------------------------------------------
# Random configurations
# ---------------------------------------------------------------------------


def random_subset(rng, pool, p=None):
    if p is None:
        p = rng.choice([0.0, 0.1, 0.3, 0.5, 0.8, 1.0])
    return [m for m in pool if rng.random() < p]


def build_random(rng, asgi, sink_first, n_ops):
    cls = falcon.asgi.App if asgi else falcon.App
    app = cls(sink_before_static_route=sink_first)
    model = ModelApp(asgi, sink_first)
    ops_log = []
    uid = [0]

    def tag(prefix):
        uid[0] += 1
        return '%s%d' % (prefix, uid[0])

    # NOTE: templates sharing a position must use the same field name; the
    # TEMPLATES list above is consistent in that respect.
    for _ in range(n_ops):
        kind = rng.choice(['route', 'route', 'sink', 'sink', 'static'])
        if kind == 'route':
            template = rng.choice(TEMPLATES)
            t = tag('R')
            pool = ALL_METHODS + (['WEBSOCKET'] if asgi else [])
            plain = random_subset(rng, pool)
            sfx_name = rng.choice(['col', 'x', 'get'])
            sfx_methods = random_subset(rng, ALL_METHODS)
            # some non-callable on_* attributes for methods that are not
            # implemented
            junk = [
                m
                for m in ALL_METHODS
                if m not in plain and rng.random() < 0.05
            ]
            use_suffix = rng.random() < 0.4
            res = make_resource(t, plain, {sfx_name: sfx_methods}, asgi, junk=junk)
            if use_suffix:
                if not sfx_methods:
                    try:
                        app.add_route(template, res, suffix=sfx_name)
                    except routing_util.SuffixedMethodNotFoundError as ex:
                        if not isinstance(ex.message, str) or not ex.message:
                            fail('SuffixedMethodNotFoundError.message not a str')
                        if str(ex) != ex.message:
                            fail('SuffixedMethodNotFoundError str != message')
                    else:
                        fail('empty suffix set accepted for %s' % template)
                    ops_log.append(('route-rejected', template, sfx_name))
                    continue
                app.add_route(template, res, suffix=sfx_name)
                model.add_route(template, t, sfx_name, sfx_methods)
            else:
                # suffix='' and suffix=None both mean "no suffix"
                kw = rng.choice([{}, {'suffix': None}, {'suffix': ''}])
                app.add_route(template, res, **kw)
                model.add_route(template, t, None, plain)
            ops_log.append(('route', template, t, use_suffix))
        elif kind == 'sink':
            pattern = rng.choice(SINK_PREFIXES)
            t = tag('S')
            prefix = re.compile(pattern) if rng.random() < 0.5 else pattern
            if rng.random() < 0.2:
                app.add_sink(make_sink(t, asgi))  # default prefix '/'
                pattern = r'/'
            else:
                app.add_sink(make_sink(t, asgi), prefix)
            model.add_sink(pattern, t)
            ops_log.append(('sink', pattern, t))
        else:
            prefix = rng.choice(STATIC_PREFIXES)
            sid = rng.randrange(N_STATIC_DIRS)
            fb = rng.random() < 0.3
            kw = {'fallback_filename': 'fallback.txt'} if fb else {}
            app.add_static_route(prefix, STATIC_DIRS[sid], **kw)
            model.add_static(prefix, sid, fb)
            ops_log.append(('static', prefix, sid, fb))
    return app, model, ops_log


def check_internal_order(app, model, ctx):
    """White-box: the combined tuple is exactly the model order."""
    got = []
    for matcher, obj, is_sink in app._sink_and_static_routes:
        if is_sink:
            got.append(('sink', matcher.pattern))
        else:
            got.append(('static', obj._prefix))
    want = []
    for e in model.ordered():
        if e[0] == 'sink':
            want.append(('sink', e[1].pattern))
        else:
            want.append(('static', e[1]))
    if got != want:
        fail('%s: combined order %r != %r' % (ctx, got, want))
    if type(app._sink_and_static_routes) is not tuple:
        fail('%s: combined container is not a tuple' % ctx)
    if len(app._sinks) != len(model.sinks) or len(app._static_routes) != len(
        model.statics
    ):
        fail('%s: per-kind lists have wrong length' % ctx)


def _kind(exp, method):
    if 'static' in exp:
        return 'static'
    if 'result' in exp:
        return 'sink' if exp['result']['who'].startswith('S') else 'route'
    if exp['status'] == 200:
        return 'auto_options'
    return str(exp['status'])


def compare(ctx, result, exp, method, path, model):
    counters['requests'] += 1
    k = _kind(exp, method)
    outcome_kinds[k] = outcome_kinds.get(k, 0) + 1
    if 'static' in exp:
        sx = static_expect(exp['static'], exp['prefix'], exp['fallback'], path, method)
        if result.status_code != sx['status']:
            fail(
                '%s: static status %s != %s' % (ctx, result.status_code, sx['status'])
            )
            return
        if 'X-Result' in result.headers:
            fail('%s: a responder/sink ran instead of static route' % ctx)
        if sx['status'] == 200:
            if 'allow' in sx and result.headers.get('Allow') != sx['allow']:
                fail('%s: static OPTIONS Allow %r' % (ctx, result.headers.get('Allow')))
            cl = result.headers.get('Content-Length')
            if cl is None or int(cl) != sx['length']:
                fail('%s: static content-length %r != %r' % (ctx, cl, sx['length']))
            if method not in ('HEAD', 'OPTIONS') and len(result.content) != sx['length']:
                fail(
                    '%s: static body length %d != %d'
                    % (ctx, len(result.content), sx['length'])
                )
        return
    if result.status_code != exp['status']:
        fail('%s: status %s != %s' % (ctx, result.status_code, exp['status']))
        return
    if 'result' in exp:
        raw = result.headers.get('X-Result')
        if raw is None:
            fail('%s: expected responder %r but none ran' % (ctx, exp['result']))
            return
        got = json.loads(raw)
        if got != exp['result']:
            fail('%s: responder %r != %r' % (ctx, got, exp['result']))
    if exp.get('no_result') and 'X-Result' in result.headers:
        fail('%s: unexpected responder ran: %s' % (ctx, result.headers['X-Result']))
    if 'allow' in exp:
        got = result.headers.get('Allow')
        if got != exp['allow']:
            fail('%s: Allow %r != %r' % (ctx, got, exp['allow']))
    if exp['status'] == 405:
        if 'X-Result' in result.headers:
            fail('%s: responder ran on 405' % ctx)


def run_generated(n_apps, methods_per_path, seed=SEED):
    rng = random.Random(seed)
    for i in range(n_apps):
        asgi = bool(i % 2)
        sink_first = bool((i // 2) % 2)
        n_ops = rng.choice([0, 1, 2, 3, 5, 8, 12, 16])
        app, model, ops = build_random(rng, asgi, sink_first, n_ops)
        counters['apps'] += 1
        ctx0 = 'app#%d(asgi=%s,sink_first=%s)' % (i, asgi, sink_first)
        check_internal_order(app, model, ctx0)
        client = testing.TestClient(app)
        for path in PATHS:
            if methods_per_path >= len(ALL_METHODS):
                methods = list(ALL_METHODS)
            else:
                methods = rng.sample(ALL_METHODS, methods_per_path)
                # always probe the interesting ones
                for m in ('OPTIONS', 'GET'):
                    if m not in methods:
                        methods.append(m)
            if rng.random() < 0.15:
                methods.append('WEBSOCKET')
            if rng.random() < 0.15:
                methods.append('FOOBAR')
            for method in methods:
                ctx = '%s %s %s ops=%r' % (ctx0, method, path, ops)
                exp = model.expect(method, path)
                try:
                    result = client.simulate_request(method, path)
                except Exception as ex:  # noqa
                    fail('%s: raised %r' % (ctx, ex))
                    continue
                compare(ctx, result, exp, method, path, model)


# ---------------------------------------------------------------------------
# Exhaustive-ish unit checks of the helpers
# ---------------------------------------------------------------------------


def run_unit_method_maps(n_cases, seed=SEED + 1):
    rng = random.Random(seed)
    combined = list(constants.COMBINED_METHODS)
    corner_subsets = [
        [],
        ['GET'],
        ['OPTIONS'],
        ['WEBSOCKET'],
        ['WEBSOCKET', 'OPTIONS'],
        ['WEBSOCKET', 'GET'],
        list(ALL_METHODS),
        list(combined),
        [m for m in ALL_METHODS if m != 'OPTIONS'],
        list(WEBDAV),
    ]
    for k in range(n_cases):
        asgi = bool(k % 2)
        if k < 2 * len(corner_subsets):
            plain = list(corner_subsets[k // 2])
        else:
            plain = random_subset(rng, combined)
        sfx_methods = random_subset(rng, combined)
        sfx = rng.choice(['col', 'x', 'get', 'a_b'])
        junk = [m for m in ALL_METHODS if m not in plain and rng.random() < 0.1]
        res = make_resource('U%d' % k, plain, {sfx: sfx_methods}, asgi, junk=junk)
        counters['unit'] += 1

        for suffix_arg, want in (
            (None, plain),
            ('', plain),
            (sfx, sfx_methods),
            ('nosuch', []),
        ):
            ctx = 'unit#%d suffix=%r plain=%r sfx=%r' % (k, suffix_arg, plain, sfx_methods)
            try:
                if suffix_arg is None and rng.random() < 0.5:
                    mm = routing_util.map_http_methods(res)
                else:
                    mm = routing_util.map_http_methods(res, suffix=suffix_arg)
            except routing_util.SuffixedMethodNotFoundError as ex:
                if suffix_arg and not want:
                    if not isinstance(ex, Exception) or not isinstance(ex.message, str):
                        fail(ctx + ': bad exception payload')
                    if ex.args != (ex.message,):
                        fail(ctx + ': args != (message,)')
                else:
                    fail(ctx + ': unexpected SuffixedMethodNotFoundError')
                continue
            if suffix_arg and not want:
                fail(ctx + ': SuffixedMethodNotFoundError not raised')
                continue
            if type(mm) is not dict:
                fail(ctx + ': method map is not a dict')
            # exactly the implemented methods, in COMBINED_METHODS order
            want_order = [m for m in combined if m in want]
            if list(mm) != want_order:
                fail(ctx + ': keys %r != %r' % (list(mm), want_order))
                continue
            for m, responder in mm.items():
                name = 'on_' + m.lower() + (('_' + suffix_arg) if suffix_arg else '')
                if getattr(responder, '__name__', None) != name:
                    fail(ctx + ': %s mapped to %r' % (m, responder))
                if getattr(responder, '__self__', None) is not res:
                    fail(ctx + ': %s responder not bound to the resource' % m)

            explicit = dict(mm)
            routing_util.set_default_responders(mm, asgi=asgi)
            if set(mm) != set(combined):
                fail(ctx + ': defaults do not cover COMBINED_METHODS')
            for m, r in explicit.items():
                if mm[m] != r:
                    fail(ctx + ': explicit responder for %s replaced' % m)
            allow405, allow_opt = model_allowed(want)
            missing = [m for m in combined if m not in explicit and m != 'OPTIONS']
            na = {id(mm[m]) for m in missing}
            if len(na) > 1:
                fail(ctx + ': more than one 405 responder instance')
            # run the default responders
            for m in missing[:3] + missing[-2:]:
                got = run_default(mm[m], asgi)
                if got != ('405', allow405):
                    fail(ctx + ': 405 for %s gave %r, want %r' % (m, got, allow405))
            if 'OPTIONS' not in explicit:
                got = run_default(mm['OPTIONS'], asgi)
                if got != ('200', ', '.join(allow_opt)):
                    fail(ctx + ': OPTIONS gave %r want %r' % (got, allow_opt))


def run_default(responder, asgi):
    """Invoke a default responder; return ('405', allowed list) or
    ('200', Allow header)."""
    if asgi:
        req = falcon.asgi.Request(testing.create_scope(), _never_receive)
        resp = falcon.asgi.Response()
    else:
        req = falcon.Request(testing.create_environ())
        resp = falcon.Response()
    try:
        if asgi:
            falcon.async_to_sync(responder, req, resp)
        else:
            responder(req, resp)
    except falcon.HTTPMethodNotAllowed as ex:
        return ('405', ex.headers['Allow'].split(', ') if ex.headers['Allow'] else [])
    if resp.status not in (falcon.HTTP_200, 200) or resp.get_header('Content-Length') != '0':
        return ('bad', resp.status, resp.get_header('Content-Length'))
    return ('200', resp.get_header('Allow'))


async def _never_receive():  # pragma: no cover
    raise AssertionError('receive() must not be called')


def run_unit_order(n_cases, seed=SEED + 2):
    """Histories of add_sink/add_static_route only, checked white-box and
    black-box, including toggling nothing else."""
    rng = random.Random(seed)
    for k in range(n_cases):
        asgi = bool(k % 2)
        # also exercise truthy/falsy non-bool values for the flag
        flag = rng.choice([True, False, True, False, 1, 0])
        cls = falcon.asgi.App if asgi else falcon.App
        app = cls(sink_before_static_route=flag)
        model = ModelApp(asgi, bool(flag))
        counters['unit'] += 1
        for j in range(rng.randrange(0, 10)):
            if rng.random() < 0.5:
                pattern = rng.choice(SINK_PREFIXES)
                t = 'S%d' % j
                app.add_sink(make_sink(t, asgi), pattern)
                model.add_sink(pattern, t)
            else:
                prefix = rng.choice(STATIC_PREFIXES)
                sid = rng.randrange(N_STATIC_DIRS)
                app.add_static_route(prefix, STATIC_DIRS[sid])
                model.add_static(prefix, sid, False)
            # after EVERY step the combined tuple must be up to date
            check_internal_order(app, model, 'order#%d step %d' % (k, j))
        # the per-kind lists must stay LIFO
        if [s[0].pattern for s in app._sinks] != [s[0].pattern for s in model.sinks]:
            fail('order#%d: sinks not LIFO' % k)
        if [s[0]._prefix for s in app._static_routes] != [s[0] for s in model.statics]:
            fail('order#%d: static routes not LIFO' % k)


def main(extra=None):
    try:
        run_unit_method_maps(300)
        run_unit_order(300)
        # 120 apps * 24 paths * (6..8 methods)  +  a few with all methods
        run_generated(120, 6)
        run_generated(16, len(ALL_METHODS), seed=SEED + 7)
        if extra is not None:
            extra()
    finally:
        shutil.rmtree(TMP, ignore_errors=True)
    finish()



# ---------------------------------------------------------------------------
# Focus of this check: the suffix-without-responders diagnostic in
# routing.util.map_http_methods (exception class / when it is raised)
# ---------------------------------------------------------------------------


def extra():
    rng = random.Random(SEED + 14)
    combined = list(constants.COMBINED_METHODS)
    for k in range(400):
        asgi = bool(k % 2)
        plain = random_subset(rng, ALL_METHODS)
        sfx = rng.choice(['col', 'x', 'get', 'a_b', '0', 'X'])
        sfx_methods = random_subset(rng, ALL_METHODS, rng.choice([0.0, 0.0, 0.05, 0.5]))
        junk_sfx = random_subset(rng, ALL_METHODS, 0.1)
        res = make_resource('E%d' % k, plain, {sfx: sfx_methods}, asgi)
        # non-callable suffixed attributes do not count as responders
        for m in junk_sfx:
            if m not in sfx_methods:
                setattr(type(res), 'on_%s_%s' % (m.lower(), sfx), 7)
        counters['unit'] += 1
        ctx = 'extra4#%d sfx=%r methods=%r' % (k, sfx, sfx_methods)
        cls = falcon.asgi.App if asgi else falcon.App
        app = cls()
        # a sink is there to prove a rejected route leaves nothing behind
        app.add_sink(make_sink('S0', asgi), '/')
        try:
            app.add_route('/thing/{tid}', res, suffix=sfx)
        except routing_util.SuffixedMethodNotFoundError as ex:
            if sfx_methods:
                fail(ctx + ': raised although responders exist')
            if type(ex) is not routing_util.SuffixedMethodNotFoundError:
                fail(ctx + ': wrong exception class')
            if not isinstance(ex.message, str) or str(ex) != ex.message:
                fail(ctx + ': message payload')
            if not ex.message.startswith('No responders found for the specified suffix'):
                fail(ctx + ': message lost its stable prefix: %r' % ex.message)
            if ex.args != (ex.message,):
                fail(ctx + ': args')
            registered = False
        except Exception as ex:  # noqa
            fail(ctx + ': unexpected %r' % ex)
            continue
        else:
            if not sfx_methods:
                fail(ctx + ': no exception for a suffix without responders')
            registered = True
        client = testing.TestClient(app)
        for method in rng.sample(ALL_METHODS, 4) + ['OPTIONS']:
            result = client.simulate_request(method, '/thing/5')
            counters['requests'] += 1
            if registered:
                if method in sfx_methods:
                    exp = {'who': 'E%d' % k, 'method': method, 'suffix': sfx,
                           'kw': {'tid': '5'}}
                    if result.status_code != 200 or json.loads(
                        result.headers.get('X-Result', 'null')
                    ) != exp:
                        fail(ctx + ': %s did not reach suffixed responder' % method)
                else:
                    allow405, allow_opt = model_allowed(sfx_methods)
                    if method == 'OPTIONS':
                        if result.status_code != 200 or result.headers.get(
                            'Allow'
                        ) != ', '.join(allow_opt):
                            fail(ctx + ': default OPTIONS wrong')
                    elif result.status_code != 405 or result.headers.get(
                        'Allow'
                    ) != ', '.join(allow405):
                        fail(ctx + ': 405 wrong for %s' % method)
                    if 'X-Result' in result.headers:
                        fail(ctx + ': un-suffixed responder reached via suffixed route')
            else:
                exp = {'who': 'S0', 'method': method, 'suffix': None, 'kw': {}}
                if result.status_code != 200 or json.loads(
                    result.headers.get('X-Result', 'null')
                ) != exp:
                    fail(ctx + ': rejected route masked the sink for %s' % method)
        # never for a falsy suffix, whatever the resource looks like
        empty = make_resource('N%d' % k, [], {}, asgi)
        for falsy in (None, ''):
            try:
                if routing_util.map_http_methods(empty, suffix=falsy) != {}:
                    fail(ctx + ': empty resource produced responders')
            except routing_util.SuffixedMethodNotFoundError:
                fail(ctx + ': raised for falsy suffix %r' % (falsy,))


if __name__ == '__main__':
    main(extra)
