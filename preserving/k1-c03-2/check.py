"""Property C03 check: middleware / hooks / responder stack discipline.

Run as:  PYTHONPATH=<falcon tree> /venv/bin/python check.py

The program builds randomly generated (seeded, hence reproducible) stacks of
middleware components, hooks, responders and error handlers, assigns an action
(return / mark complete / raise HTTPError / raise HTTPStatus / raise app error
with a custom handler / raise app error handled by the default handler) to
every call site, runs the request through a real falcon.App (WSGI) and a real
falcon.asgi.App (ASGI) in both independent_middleware settings, and compares
the recorded call trace with an independent reference model of the documented
stack discipline.  It also checks

  * prepare_middleware() directly against a model (stack contents, order,
    *_async preference, error classes and messages),
  * the before/after hook wrappers when called directly with positional args,
  * ASGI lifespan startup/shutdown sequencing and failure events.

It prints PASS and exits 0 iff every case agrees.
"""

import asyncio
import io
import itertools
import logging
import os
import random
import sys

os.environ.pop('FALCON_ASGI_WRAP_NON_COROUTINES', None)
os.environ.pop('FALCON_TESTING_SESSION', None)

import falcon  # noqa: E402
import falcon.asgi  # noqa: E402
from falcon import app_helpers  # noqa: E402
from falcon import testing  # noqa: E402
from falcon.errors import CompatibilityError  # noqa: E402

logging.getLogger('falcon').disabled = True
falcon._logger.disabled = True
logging.getLogger('asyncio').disabled = True

FOCUS = 2  # this copy accompanies change 2; only scales the number of generated cases

FAILURES = []
COUNTS = {}


def count(section, n=1):
    COUNTS[section] = COUNTS.get(section, 0) + n


def fail(section, msg):
    FAILURES.append('[%s] %s' % (section, msg))


# ---------------------------------------------------------------------------
# Shared per-case context
# ---------------------------------------------------------------------------


class Ctx:
    trace = []
    actions = {}
    handler_action = 'ok'


class CustomError(Exception):
    pass


class HandlerBoom(Exception):
    pass


RAISING = ('http', 'status', 'app_h', 'app_u')
ACTIONS = ('ok', 'complete') + RAISING


def act(key, resp):
    a = Ctx.actions.get(key, 'ok')
    if a == 'ok':
        return
    if a == 'complete':
        resp.complete = True
        return
    if a == 'http':
        raise falcon.HTTPForbidden()
    if a == 'status':
        raise falcon.HTTPStatus(falcon.HTTP_202)
    if a == 'app_h':
        raise CustomError()
    if a == 'app_u':
        raise ValueError('boom')
    raise AssertionError(a)


def handler_body(resp):
    Ctx.trace.append(('handler',))
    if Ctx.handler_action == 'ok':
        resp.status = falcon.HTTP_409
    elif Ctx.handler_action == 'http':
        raise falcon.HTTPConflict()
    elif Ctx.handler_action == 'status':
        raise falcon.HTTPStatus(falcon.HTTP_203)
    elif Ctx.handler_action == 'boom':
        raise HandlerBoom()


def sync_handler(req, resp, ex, params):
    handler_body(resp)


async def async_handler(req, resp, ex, params):
    handler_body(resp)


# ---------------------------------------------------------------------------
# Component factories
# ---------------------------------------------------------------------------

KINDS = ('req', 'rsrc', 'resp')
NAMES = {
    'req': 'process_request',
    'rsrc': 'process_resource',
    'resp': 'process_response',
}


def _sync_method(kind, i, wrong=False):
    tag = 'WRONG-' + kind if wrong else kind

    if kind == 'req':

        def m(self, req, resp):
            Ctx.trace.append((tag, i))
            act((kind, i), resp)

    elif kind == 'rsrc':

        def m(self, req, resp, resource, params):
            Ctx.trace.append((tag, i))
            act((kind, i), resp)

    else:

        def m(self, req, resp, resource, req_succeeded):
            Ctx.trace.append((tag, i, req_succeeded, resource is not None))
            act((kind, i), resp)

    return m


def _async_method(kind, i, wrong=False):
    tag = 'WRONG-' + kind if wrong else kind

    if kind == 'req':

        async def m(self, req, resp):
            Ctx.trace.append((tag, i))
            act((kind, i), resp)

    elif kind == 'rsrc':

        async def m(self, req, resp, resource, params):
            Ctx.trace.append((tag, i))
            act((kind, i), resp)

    else:

        async def m(self, req, resp, resource, req_succeeded):
            Ctx.trace.append((tag, i, req_succeeded, resource is not None))
            act((kind, i), resp)

    return m


ASGI_STYLES = ('plain', 'suffix', 'both', 'none_suffix')
WSGI_STYLES = ('plain', 'both')


def make_wsgi_component(i, shape, styles):
    """shape: dict kind->bool ; styles: dict kind->style."""
    ns = {}
    for kind in KINDS:
        if not shape[kind]:
            continue
        name = NAMES[kind]
        ns[name] = _sync_method(kind, i)
        if styles[kind] == 'both':
            # must be ignored by a WSGI app
            ns[name + '_async'] = _async_method(kind, i, wrong=True)
    ns['__repr__'] = lambda self: '<wsgi-mw %d>' % i
    return type('WsgiMW%d' % i, (object,), ns)()


def make_asgi_component(i, shape, styles, lifespan=None):
    ns = {}
    for kind in KINDS:
        if not shape[kind]:
            continue
        name = NAMES[kind]
        style = styles[kind]
        if style == 'plain':
            ns[name] = _async_method(kind, i)
        elif style == 'suffix':
            ns[name + '_async'] = _async_method(kind, i)
        elif style == 'both':
            # the *_async twin must win
            ns[name] = _sync_method(kind, i, wrong=True)
            ns[name + '_async'] = _async_method(kind, i)
        elif style == 'none_suffix':
            # falsy *_async attribute -> falls back to the plain name
            ns[name + '_async'] = None
            ns[name] = _async_method(kind, i)
        else:
            raise AssertionError(style)
    if lifespan:
        if lifespan.get('startup'):

            async def process_startup(self, scope, event):
                Ctx.trace.append(('startup', i))
                if Ctx.actions.get(('startup', i)) == 'raise':
                    raise RuntimeError('startup %d' % i)

            ns['process_startup'] = process_startup
        if lifespan.get('shutdown'):

            async def process_shutdown(self, scope, event):
                Ctx.trace.append(('shutdown', i))
                if Ctx.actions.get(('shutdown', i)) == 'raise':
                    raise RuntimeError('shutdown %d' % i)

            ns['process_shutdown'] = process_shutdown
    ns['__repr__'] = lambda self: '<asgi-mw %d>' % i
    return type('AsgiMW%d' % i, (object,), ns)()


# ---------------------------------------------------------------------------
# Resource factories (hooks)
# ---------------------------------------------------------------------------


def _hook_action(j, kind, is_async):
    if kind == 'before':
        if is_async:

            async def action(req, resp, resource, params):
                Ctx.trace.append(('hook', j))
                act(('hook', j), resp)

        else:

            def action(req, resp, resource, params):
                Ctx.trace.append(('hook', j))
                act(('hook', j), resp)

    else:
        if is_async:

            async def action(req, resp, resource):
                Ctx.trace.append(('hook', j))
                act(('hook', j), resp)

        else:

            def action(req, resp, resource):
                Ctx.trace.append(('hook', j))
                act(('hook', j), resp)

    return action


def make_resource(class_hooks, method_hooks, is_async):
    """Hooks are listed top-down, exactly as decorators would be written."""

    if is_async:

        async def on_get(self, req, resp, item_id):
            Ctx.trace.append(('responder', item_id))
            act(('responder',), resp)

    else:

        def on_get(self, req, resp, item_id):
            Ctx.trace.append(('responder', item_id))
            act(('responder',), resp)

    base = len(class_hooks)
    for off in reversed(range(len(method_hooks))):
        kind = method_hooks[off]
        deco = falcon.before if kind == 'before' else falcon.after
        on_get = deco(_hook_action(base + off, kind, is_async))(on_get)

    cls = type('Res', (object,), {'on_get': on_get})
    for j in reversed(range(len(class_hooks))):
        kind = class_hooks[j]
        deco = falcon.before if kind == 'before' else falcon.after
        cls = deco(_hook_action(j, kind, is_async))(cls)
    return cls()


def sync_sink(req, resp, **kw):
    Ctx.trace.append(('sink',))
    act(('sink',), resp)


async def async_sink(req, resp, **kw):
    Ctx.trace.append(('sink',))
    act(('sink',), resp)


# ---------------------------------------------------------------------------
# Reference model of the documented discipline
# ---------------------------------------------------------------------------


class Propagates(Exception):
    """The request aborts with an exception propagating to the server."""


def model(shapes, independent, route, hooks, actions, handler_action):
    trace = []
    state = {'complete': False}

    def do(key, entry):
        """Perform a call; returns True if it raised (and was handled)."""
        trace.append(entry)
        a = actions.get(key, 'ok')
        if a == 'ok':
            return False
        if a == 'complete':
            state['complete'] = True
            return False
        if a == 'app_h':
            trace.append(('handler',))
            if handler_action == 'boom':
                raise Propagates()
        return True

    n = len(shapes)
    raised = False
    resp_stack = []

    # request methods: top-down until one completes or raises
    if independent:
        for i in range(n):
            if shapes[i]['req']:
                if do(('req', i), ('req', i)):
                    raised = True
                    break
                if state['complete']:
                    break
        resp_stack = [i for i in reversed(range(n)) if shapes[i]['resp']]
    else:
        for i in range(n):
            if shapes[i]['req'] and not state['complete']:
                if do(('req', i), ('req', i)):
                    raised = True
                    break
            if shapes[i]['resp']:
                resp_stack.insert(0, i)

    have_resource = False
    succeeded = False
    if not raised:
        if not state['complete']:
            have_resource = route == 'resource'

        if have_resource:
            for i in range(n):
                if shapes[i]['rsrc']:
                    if do(('rsrc', i), ('rsrc', i)):
                        raised = True
                        break
                    if state['complete']:
                        break

        if not raised and not state['complete']:
            if route == 'resource':

                def run(j):
                    if j == len(hooks):
                        return do(('responder',), ('responder', 'abc'))
                    if hooks[j] == 'before':
                        if do(('hook', j), ('hook', j)):
                            return True
                        return run(j + 1)
                    if run(j + 1):
                        return True
                    return do(('hook', j), ('hook', j))

                raised = run(0)
            elif route == 'sink':
                raised = do(('sink',), ('sink',))
            else:
                # default responder raises HTTPNotFound
                raised = True

        succeeded = not raised

    # response methods: bottom-up, exactly once each
    for i in resp_stack:
        if do(('resp', i), ('resp', i, succeeded, have_resource)):
            succeeded = False

    return trace


# ---------------------------------------------------------------------------
# Running a case against real falcon
# ---------------------------------------------------------------------------

PATHS = {'resource': '/items/abc', 'sink': '/sink/x', 'none': '/nowhere'}


def _start_response(status, headers, exc_info=None):
    pass


def run_wsgi(shapes, styles, independent, route, class_hooks, method_hooks):
    comps = [
        make_wsgi_component(
            i,
            shapes[i],
            {k: ('both' if styles[i][k] == 'both' else 'plain') for k in KINDS},
        )
        for i in range(len(shapes))
    ]
    app = falcon.App(middleware=comps, independent_middleware=independent)
    app.add_route('/items/{item_id}', make_resource(class_hooks, method_hooks, False))
    app.add_sink(sync_sink, '/sink')
    app.add_error_handler(CustomError, sync_handler)
    env = testing.create_environ(path=PATHS[route], wsgierrors=io.StringIO())
    Ctx.trace = []
    try:
        body = app(env, _start_response)
        for _ in body:
            pass
    except HandlerBoom:
        Ctx.trace.append('PROPAGATED')
    return Ctx.trace


def run_asgi(shapes, styles, independent, route, class_hooks, method_hooks):
    comps = [
        make_asgi_component(i, shapes[i], styles[i]) for i in range(len(shapes))
    ]
    app = falcon.asgi.App(middleware=comps, independent_middleware=independent)
    app.add_route('/items/{item_id}', make_resource(class_hooks, method_hooks, True))
    app.add_sink(async_sink, '/sink')
    app.add_error_handler(CustomError, async_handler)
    Ctx.trace = []
    try:
        testing.simulate_get(app, PATHS[route])
    except HandlerBoom:
        Ctx.trace.append('PROPAGATED')
    return Ctx.trace


def expected_trace(shapes, independent, route, hooks, actions, handler_action):
    try:
        return model(shapes, independent, route, hooks, actions, handler_action)
    except Propagates:
        return _partial_model(shapes, independent, route, hooks, actions)


def _partial_model(shapes, independent, route, hooks, actions):
    """Model run for the 'error handler itself raises' case.

    The trace is the prefix of the normal trace up to the first invocation
    of the custom handler, after which the exception propagates.
    """
    full = model(shapes, independent, route, hooks, actions, 'ok')
    idx = full.index(('handler',))
    return full[: idx + 1] + ['PROPAGATED']


def all_call_sites(shapes, route, hooks):
    sites = []
    for i, s in enumerate(shapes):
        for k in KINDS:
            if s[k]:
                sites.append((k, i))
    if route == 'resource':
        sites.append(('responder',))
        sites.extend(('hook', j) for j in range(len(hooks)))
    elif route == 'sink':
        sites.append(('sink',))
    return sites


def random_shape(rng):
    while True:
        s = {k: rng.random() < 0.6 for k in KINDS}
        if any(s.values()):
            return s


def check_case(section, shapes, styles, independent, route, chooks, mhooks,
               actions, handler_action, sides=('wsgi', 'asgi')):
    hooks = list(chooks) + list(mhooks)
    Ctx.actions = actions
    Ctx.handler_action = handler_action
    want = expected_trace(shapes, independent, route, hooks, actions, handler_action)
    for side in sides:
        runner = run_wsgi if side == 'wsgi' else run_asgi
        try:
            got = runner(shapes, styles, independent, route, chooks, mhooks)
        except Exception as ex:  # pragma: no cover
            got = ['UNEXPECTED %r' % (ex,)]
        count(section)
        if got != want:
            fail(
                section,
                '%s independent=%s route=%s shapes=%s hooks=%s actions=%s '
                'handler=%s\n   want=%s\n   got =%s'
                % (side, independent, route,
                   [''.join(k[0:2] if s[k] else '--' for k in KINDS) for s in shapes],
                   hooks, actions, handler_action, want, got),
            )


def section_request_stack(n_random):
    section = 'request-stack'
    rng = random.Random(20240303)

    # (a) exhaustive single-fault placement on a fixed rich stack
    shapes = [
        {'req': True, 'rsrc': True, 'resp': True},
        {'req': True, 'rsrc': False, 'resp': True},
        {'req': False, 'rsrc': True, 'resp': True},
        {'req': True, 'rsrc': True, 'resp': False},
    ]
    styles = [
        {k: ASGI_STYLES[(i + j) % len(ASGI_STYLES)] for j, k in enumerate(KINDS)}
        for i in range(len(shapes))
    ]
    chooks, mhooks = ['before', 'after'], ['after', 'before']
    for route in ('resource', 'sink', 'none'):
        sites = all_call_sites(shapes, route, chooks + mhooks)
        for independent in (True, False):
            check_case(section, shapes, styles, independent, route, chooks,
                       mhooks, {}, 'ok')
            for site in sites:
                for a in ('complete', 'http', 'app_h', 'app_u', 'status'):
                    check_case(section, shapes, styles, independent, route,
                               chooks, mhooks, {site: a}, 'ok')

    # (b) random stacks, random multi-fault assignments
    for _ in range(n_random):
        n = rng.randint(0, 6)
        shapes = [random_shape(rng) for _ in range(n)]
        styles = [{k: rng.choice(ASGI_STYLES) for k in KINDS} for _ in range(n)]
        independent = rng.random() < 0.5
        route = rng.choice(('resource', 'resource', 'sink', 'none'))
        chooks = [rng.choice(('before', 'after')) for _ in range(rng.randint(0, 2))]
        mhooks = [rng.choice(('before', 'after')) for _ in range(rng.randint(0, 3))]
        sites = all_call_sites(shapes, route, chooks + mhooks)
        actions = {}
        for site in sites:
            r = rng.random()
            if r < 0.22:
                actions[site] = rng.choice(ACTIONS[1:])
        handler_action = rng.choice(('ok', 'ok', 'http', 'status', 'boom'))
        check_case(section, shapes, styles, independent, route, chooks, mhooks,
                   actions, handler_action)

    # (c) deep dependent/independent stacks with a fault in every position of
    #     process_request and process_response
    for n in (7, 10):
        shapes = [{'req': i % 3 != 1, 'rsrc': i % 4 == 0 or i == 7, 'resp': i % 5 != 2}
                  for i in range(n)]
        styles = [{k: 'plain' for k in KINDS} for _ in range(n)]
        for independent in (True, False):
            for i in range(n):
                for kind in ('req', 'resp'):
                    if not shapes[i][kind]:
                        continue
                    for a in ('complete', 'http', 'app_u'):
                        check_case(section, shapes, styles, independent,
                                   'resource', [], [], {(kind, i): a}, 'ok')


# ---------------------------------------------------------------------------
# prepare_middleware() against a model
# ---------------------------------------------------------------------------

MSG_ASGI = (
    '{} must be implemented as an awaitable coroutine. If '
    'you would like to retain compatibility '
    'with WSGI apps, the coroutine versions of the '
    'middleware methods may be implemented side-by-side '
    'by applying an *_async postfix to the method names. '
)
MSG_WSGI = (
    '{} may not implement coroutine methods and '
    'remain compatible with WSGI apps without '
    'using the *_async postfix to explicitly identify '
    'the coroutine version of a given middleware '
    'method.'
)
MSG_NONE_PREFIX = '{0} must implement at least one middleware method'

EXTRA_ASGI_ATTRS = (
    'process_startup',
    'process_shutdown',
    'process_request_ws',
    'process_resource_ws',
)


def _pm_component(rng, i):
    """Return (component, description) with random attribute layout.

    Each of the six names process_{request,resource,response}[_async] is one
    of: absent, sync function, coroutine function, None.
    """
    ns = {}
    desc = {}
    for kind in KINDS:
        for suffix in ('', '_async'):
            name = NAMES[kind] + suffix
            c = rng.choice(('absent', 'absent', 'sync', 'async', 'async', 'none'))
            desc[name] = c
            if c == 'sync':
                ns[name] = _sync_method(kind, i)
            elif c == 'async':
                ns[name] = _async_method(kind, i)
            elif c == 'none':
                ns[name] = None
    extra = rng.choice((None, None) + EXTRA_ASGI_ATTRS)
    if extra:

        async def _x(self, *a):
            pass

        ns[extra] = _x
    desc['extra'] = extra
    ns['__repr__'] = lambda self: '<pm-mw %d>' % i
    return type('PM%d' % i, (object,), ns)(), desc


def pm_model(comps, independent, asgi):
    """Model for prepare_middleware; returns ('ok', result) or ('err', cls, msg)."""
    request_mw, resource_mw, response_mw = [], [], []
    for comp, desc in comps:
        picked = {}
        for kind in KINDS:
            name = NAMES[kind]
            if asgi:
                if desc[name + '_async'] in ('sync', 'async'):
                    picked[kind] = getattr(comp, name + '_async')
                elif desc[name] in ('sync', 'async'):
                    picked[kind] = getattr(comp, name)
                else:
                    picked[kind] = None
            else:
                if desc[name] in ('sync', 'async'):
                    picked[kind] = getattr(comp, name)
                else:
                    picked[kind] = None
        # interface validation, in request/resource/response order
        for kind in KINDS:
            m = picked[kind]
            if m is None:
                continue
            is_coro = asyncio.iscoroutinefunction(m)
            if asgi and not is_coro:
                return ('err', CompatibilityError, MSG_ASGI.format(m))
            if not asgi and is_coro:
                return ('err', CompatibilityError, MSG_WSGI.format(comp))
        if not any(picked.values()):
            if asgi and desc['extra']:
                continue
            return ('err', TypeError, MSG_NONE_PREFIX.format(comp))
        if independent:
            if picked['req']:
                request_mw.append(picked['req'])
            if picked['resp']:
                response_mw.append(picked['resp'])
        else:
            if picked['req'] or picked['resp']:
                request_mw.append((picked['req'], picked['resp']))
        if picked['rsrc']:
            resource_mw.append(picked['rsrc'])
    response_mw.reverse()
    return ('ok', (tuple(request_mw), tuple(resource_mw), tuple(response_mw)))


def section_prepare_middleware(n_random):
    section = 'prepare-middleware'
    rng = random.Random(7771)
    for case in range(n_random):
        n = rng.randint(0, 7)
        comps = [_pm_component(rng, i) for i in range(n)]
        for independent in (True, False):
            for asgi in (True, False):
                want = pm_model(comps, independent, asgi)
                try:
                    got = (
                        'ok',
                        app_helpers.prepare_middleware(
                            [c for c, _ in comps],
                            independent_middleware=independent,
                            asgi=asgi,
                        ),
                    )
                except (CompatibilityError, TypeError) as ex:
                    got = ('err', type(ex), str(ex))
                count(section)
                if want[0] == 'err' and want[1] is TypeError and got[0] == 'err':
                    # only the leading part of this diagnostic is pinned
                    ok = got[1] is TypeError and got[2].startswith(want[2])
                else:
                    ok = got == want
                if ok and got[0] == 'ok':
                    # exact container types matter to the request loops
                    r = got[1]
                    ok = (
                        type(r) is tuple
                        and len(r) == 3
                        and all(type(x) is tuple for x in r)
                    )
                    if not independent:
                        ok = ok and r[2] == () and all(
                            type(p) is tuple and len(p) == 2 for p in r[0]
                        )
                if not ok:
                    fail(section, 'case %d independent=%s asgi=%s descs=%s\n  want=%r\n  got =%r'
                         % (case, independent, asgi, [d for _, d in comps], want, got))

    # a class instead of an instance: unbound methods are rejected
    class NotBound:
        def process_request(self, req, resp):
            pass

    for asgi in (True, False):
        count(section)
        try:
            app_helpers.prepare_middleware([NotBound], asgi=asgi)
        except AttributeError:
            pass
        else:
            fail(section, 'unbound method accepted (asgi=%s)' % asgi)

    # a generator is accepted and consumed exactly once, in order
    comps = [_pm_component(random.Random(5), i) for i in range(3)]
    marks = []

    def gen():
        for i in range(3):
            marks.append(i)
            yield make_wsgi_component(i, {'req': True, 'rsrc': True, 'resp': True},
                                      {k: 'plain' for k in KINDS})

    count(section)
    r = app_helpers.prepare_middleware(gen(), independent_middleware=True)
    if marks != [0, 1, 2] or [len(x) for x in r] != [3, 3, 3]:
        fail(section, 'generator handling: %r %r' % (marks, r))
    if [repr(m.__self__) for m in r[2]] != ['<wsgi-mw 2>', '<wsgi-mw 1>', '<wsgi-mw 0>']:
        fail(section, 'response stack not reversed: %r' % (r[2],))
    if [repr(m.__self__) for m in r[0]] != ['<wsgi-mw 0>', '<wsgi-mw 1>', '<wsgi-mw 2>']:
        fail(section, 'request stack order: %r' % (r[0],))


# ---------------------------------------------------------------------------
# add_middleware(): later additions behave as if appended
# ---------------------------------------------------------------------------


def section_add_middleware(n_random):
    section = 'add-middleware'
    rng = random.Random(99)
    for _ in range(n_random):
        n = rng.randint(1, 5)
        shapes = [random_shape(rng) for _ in range(n)]
        independent = rng.random() < 0.5
        split = rng.randint(0, n)
        actions = {}
        for site in all_call_sites(shapes, 'resource', []):
            if rng.random() < 0.15:
                actions[site] = rng.choice(ACTIONS[1:])
        Ctx.actions = actions
        Ctx.handler_action = 'ok'
        want = model(shapes, independent, 'resource', [], actions, 'ok')
        for side in ('wsgi', 'asgi'):
            if side == 'wsgi':
                comps = [make_wsgi_component(i, shapes[i], {k: 'plain' for k in KINDS})
                         for i in range(n)]
                app = falcon.App(middleware=comps[:split],
                                 independent_middleware=independent)
                app.add_error_handler(CustomError, sync_handler)
            else:
                comps = [make_asgi_component(i, shapes[i], {k: 'plain' for k in KINDS})
                         for i in range(n)]
                app = falcon.asgi.App(middleware=comps[:split],
                                      independent_middleware=independent)
                app.add_error_handler(CustomError, async_handler)
            rest = comps[split:]
            if len(rest) == 1 and rng.random() < 0.5:
                app.add_middleware(rest[0])
            elif rest:
                cut = rng.randint(0, len(rest))
                app.add_middleware(rest[:cut])
                app.add_middleware(rest[cut:])
            app.add_route('/items/{item_id}', make_resource([], [], side == 'asgi'))
            Ctx.trace = []
            testing.simulate_get(app, '/items/abc', wsgierrors=io.StringIO())
            count(section)
            if Ctx.trace != want:
                fail(section, '%s shapes=%s split=%d actions=%s\n  want=%s\n  got =%s'
                     % (side, shapes, split, actions, want, Ctx.trace))


# ---------------------------------------------------------------------------
# Hook wrappers called directly (positional args merged by name)
# ---------------------------------------------------------------------------


def section_hooks_direct():
    section = 'hooks-direct'
    for seq in itertools.chain.from_iterable(
        itertools.product(('before', 'after'), repeat=r) for r in range(0, 5)
    ):
        for is_async in (False, True):
            seen = []

            def mk(j, kind):
                if kind == 'before':
                    if is_async:
                        async def action(req, resp, resource, params, *a, **kw):
                            seen.append(('hook', j, dict(params), a, kw))
                            params['extra'] = params.get('extra', 0) + 1
                    else:
                        def action(req, resp, resource, params, *a, **kw):
                            seen.append(('hook', j, dict(params), a, kw))
                            params['extra'] = params.get('extra', 0) + 1
                else:
                    if is_async:
                        async def action(req, resp, resource, *a, **kw):
                            seen.append(('hook', j, None, a, kw))
                    else:
                        def action(req, resp, resource, *a, **kw):
                            seen.append(('hook', j, None, a, kw))
                return action

            if is_async:
                async def on_get(self, req, resp, one, two, **rest):
                    seen.append(('responder', one, two, rest.get('extra', 0)))
            else:
                def on_get(self, req, resp, one, two, **rest):
                    seen.append(('responder', one, two, rest.get('extra', 0)))

            f = on_get
            for j in reversed(range(len(seq))):
                deco = falcon.before if seq[j] == 'before' else falcon.after
                f = deco(mk(j, seq[j]), 'pos%d' % j, key=j)(f)

            cls = type('R', (object,), {'on_get': f})
            res = cls()

            # expected
            want = []
            params = {'one': 1, 'two': 2}

            def run(j):
                if j == len(seq):
                    want.append(('responder', params['one'], params['two'],
                                 params.get('extra', 0)))
                    return
                if seq[j] == 'before':
                    want.append(('hook', j, dict(params), ('pos%d' % j,), {'key': j}))
                    params['extra'] = params.get('extra', 0) + 1
                    run(j + 1)
                else:
                    run(j + 1)
                    want.append(('hook', j, None, ('pos%d' % j,), {'key': j}))

            run(0)

            for call in ('positional', 'mixed', 'keyword'):
                del seen[:]
                if call == 'positional':
                    r = res.on_get('REQ', 'RESP', 1, 2)
                elif call == 'mixed':
                    r = res.on_get('REQ', 'RESP', 1, two=2)
                else:
                    r = res.on_get('REQ', 'RESP', one=1, two=2)
                if is_async:
                    asyncio.run(r)
                count(section)
                if seen != want:
                    fail(section, 'seq=%s async=%s call=%s\n  want=%s\n  got =%s'
                         % (seq, is_async, call, want, seen))
            if f is not on_get and getattr(f, '__wrapped__', None) is None:
                fail(section, 'wrapper lost __wrapped__')
            if f.__name__ != 'on_get':
                fail(section, 'wrapper lost __name__')


# ---------------------------------------------------------------------------
# Lifespan sequencing
# ---------------------------------------------------------------------------


def lifespan_model(lshapes, actions, events_in):
    trace, sent = [], []
    n = len(lshapes)
    for ev in events_in:
        if ev == 'lifespan.startup':
            failed = False
            for i in range(n):
                if lshapes[i].get('startup'):
                    trace.append(('startup', i))
                    if actions.get(('startup', i)) == 'raise':
                        sent.append('lifespan.startup.failed')
                        failed = True
                        break
            if failed:
                return trace, sent
            sent.append('lifespan.startup.complete')
        else:
            failed = False
            for i in reversed(range(n)):
                if lshapes[i].get('shutdown'):
                    trace.append(('shutdown', i))
                    if actions.get(('shutdown', i)) == 'raise':
                        sent.append('lifespan.shutdown.failed')
                        failed = True
                        break
            if not failed:
                sent.append('lifespan.shutdown.complete')
            return trace, sent
    return trace, sent


def section_lifespan(n_random):
    section = 'lifespan'
    rng = random.Random(4242)
    for case in range(n_random):
        n = rng.randint(0, 6)
        lshapes = []
        shapes = []
        for i in range(n):
            ls = {'startup': rng.random() < 0.6, 'shutdown': rng.random() < 0.6}
            s = {k: rng.random() < 0.4 for k in KINDS}
            if not any(s.values()) and not any(ls.values()):
                ls['startup'] = True
            lshapes.append(ls)
            shapes.append(s)
        actions = {}
        for i in range(n):
            for k in ('startup', 'shutdown'):
                if lshapes[i][k] and rng.random() < 0.15:
                    actions[(k, i)] = 'raise'
        events_in = rng.choice((
            ['lifespan.startup', 'lifespan.shutdown'],
            ['lifespan.startup', 'lifespan.shutdown'],
            ['lifespan.shutdown'],
            ['lifespan.startup', 'lifespan.startup', 'lifespan.shutdown'],
        ))
        comps = [
            make_asgi_component(i, shapes[i], {k: 'plain' for k in KINDS}, lshapes[i])
            for i in range(n)
        ]
        app = falcon.asgi.App(middleware=comps,
                              independent_middleware=rng.random() < 0.5)
        Ctx.actions = actions
        Ctx.trace = []
        want_trace, want_sent = lifespan_model(lshapes, actions, events_in)
        queue = [{'type': t} for t in events_in]
        sent = []

        async def receive():
            return queue.pop(0)

        async def send(ev):
            sent.append(ev)

        scope = {'type': 'lifespan', 'asgi': {'version': '3.0', 'spec_version': '2.0'}}
        try:
            asyncio.run(app(scope, receive, send))
        except Exception as ex:  # pragma: no cover
            sent.append({'type': 'UNEXPECTED %r' % (ex,)})
        count(section)
        got_sent = [e['type'] for e in sent]
        ok = Ctx.trace == want_trace and got_sent == want_sent
        for e in sent:
            if e['type'].endswith('.failed'):
                ok = ok and 'RuntimeError' in e.get('message', '')
            else:
                ok = ok and set(e) == {'type'}
        if not ok:
            fail(section, 'case %d lshapes=%s actions=%s events=%s\n  want=%s %s\n  got =%s %s'
                 % (case, lshapes, actions, events_in, want_trace, want_sent,
                    Ctx.trace, sent))


# ---------------------------------------------------------------------------


def main():
    scale = 1
    section_request_stack(260 * scale + (200 if FOCUS else 0))
    section_prepare_middleware(150 + (250 if FOCUS else 0))
    section_add_middleware(60)
    section_hooks_direct()
    section_lifespan(200)

    total = sum(COUNTS.values())
    print('cases:', ', '.join('%s=%d' % kv for kv in sorted(COUNTS.items())),
          'total=%d' % total)
    if FAILURES:
        for f in FAILURES[:20]:
            print('FAIL', f)
        print('FAILED (%d mismatches)' % len(FAILURES))
        sys.exit(1)
    print('PASS')
    sys.exit(0)


if __name__ == '__main__':
    main()
