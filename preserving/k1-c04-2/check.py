#!/usr/bin/env python
"""Property check for C04: "every raised exception becomes the response its
most specific handler defines".

FOCUS: change 2 (performance): App._find_error_handler (shared by WSGI and ASGI)
binds self._error_handlers.get once before walking the MRO. Section A
compares the selected handler with the reference model over random multiple-
inheritance hierarchies and registration histories; section E checks the
lookups directly; section F races registrations against lookups in threads
and checks late registrations are honoured.

Run as:  PYTHONPATH=<falcon tree> /venv/bin/python check.py

The program imports falcon from the tree on PYTHONPATH and compares what the
WSGI and the ASGI app produce against a small, independent reference model
(handler selection = latest registration for the class with the smallest index
in the raised type's MRO; default renderings rebuilt from the exception's own
attributes with the stdlib json / ElementTree parsers) and against expectations
hard-coded from the unmodified tree (Accept negotiation table, description
texts of the header/param/media errors).  Prints PASS and exits 0 when every
case agrees.
"""

import json
import logging
import os
import random
import sys
import threading
import warnings
import xml.etree.ElementTree as ET

import falcon
import falcon.asgi
from falcon import testing
from falcon.media.base import BaseHandler

logging.disable(logging.CRITICAL)
warnings.simplefilter('ignore')

RNG = random.Random(0xC04)
FAILS = []
COUNTS = {}


def check(section, cond, msg):
    COUNTS[section] = COUNTS.get(section, 0) + 1
    if not cond:
        FAILS.append('[%s] %s' % (section, msg))
        if len(FAILS) > 40:
            finish()


def finish():
    total = sum(COUNTS.values())
    if FAILS:
        for line in FAILS[:40]:
            print('FAIL', line)
        print('FAILED (%d failures / %d assertions)' % (len(FAILS), total))
        sys.exit(1)
    print('assertions per section:', dict(sorted(COUNTS.items())))
    print('section A outcomes visited:', dict(sorted(COVERAGE.items())))
    print('PASS (%d assertions; falcon from %s)' % (total, os.path.dirname(falcon.__file__)))
    sys.exit(0)


def simulate(app, **kwargs):
    # NOTE: devnull keeps req.log_error() of the default 500 handler quiet.
    if not isinstance(app, falcon.asgi.App):
        kwargs.setdefault('wsgierrors', DEVNULL)
    return testing.simulate_request(app, **kwargs)


DEVNULL = open(os.devnull, 'w')


def hget(result, name):
    return result.headers.get(name)


# ---------------------------------------------------------------------------
# Reference model
# ---------------------------------------------------------------------------

DEFAULT_REGS = [(Exception, 'py'), (falcon.HTTPError, 'err'), (falcon.HTTPStatus, 'sta')]


def model_select(regs, exc_type):
    """Latest registration per class; nearest class in the MRO wins."""
    latest = {}
    for cls, hid in regs:
        latest[cls] = hid
    best = None
    mro = exc_type.__mro__
    for cls, hid in latest.items():
        if cls is object or cls not in mro:
            continue
        idx = mro.index(cls)
        if best is None or idx < best[0]:
            best = (idx, hid)
    return None if best is None else best[1]


def model_error_dict(title, description, code, link):
    d = {'title': title}
    if description is not None:
        d['description'] = description
    if code is not None:
        d['code'] = code
    if link is not None:
        d['link'] = link
    return d


def status_code_of(status):
    if isinstance(status, int):
        return int(status)
    if isinstance(status, bytes):
        status = status.decode()
    return int(str(status)[:3])


def xml_to_dict(body):
    root = ET.fromstring(body)
    assert root.tag == 'error', root.tag
    out = {}
    for child in root:
        if child.tag == 'link':
            out['link'] = {sub.tag: (sub.text or '') for sub in child}
        else:
            out[child.tag] = child.text or ''
    return out


def dict_as_xml_view(d):
    out = {}
    for k, v in d.items():
        if k == 'link':
            out[k] = dict(v)
        else:
            out[k] = str(v)
    return out


# ---------------------------------------------------------------------------
# Section A: handler selection over random hierarchies / registration
# histories / raise sites, WSGI and ASGI, default and custom handlers,
# handlers that raise HTTPError / HTTPStatus themselves.
# ---------------------------------------------------------------------------

ROOTS = [
    Exception,
    ValueError,
    LookupError,
    KeyError,
    OSError,
    falcon.HTTPError,
    falcon.HTTPNotFound,
    falcon.HTTPBadRequest,
    falcon.HTTPConflict,
    falcon.HTTPStatus,
    falcon.HTTPFound,
]


def _gen_init(self, *args):
    Exception.__init__(self, *args)
    name = type(self).__name__
    if isinstance(self, falcon.HTTPError):
        falcon.HTTPError.__init__(
            self,
            falcon.HTTP_418,
            title='T-' + name,
            description='D-' + name + ' <&> é',
            headers={'X-Err': name},
            code=len(name),
            href='http://example.com/ü?' + name,
        )
    if isinstance(self, falcon.HTTPStatus):
        falcon.HTTPStatus.__init__(
            self, falcon.HTTP_203, headers={'X-Sta': name}, text='status:' + name + ' 漢'
        )


def gen_hierarchy(rng, n, tag):
    pool = list(ROOTS)
    generated = []
    attempts = 0
    while len(generated) < n and attempts < 200:
        attempts += 1
        k = rng.choice((1, 1, 2, 2, 3))
        bases = tuple(rng.sample(pool, min(k, len(pool))))
        name = 'G%s_%d' % (tag, len(generated))
        try:
            cls = type(name, bases, {'__init__': _gen_init})
            cls()  # must be constructible
        except TypeError:
            continue
        pool.append(cls)
        generated.append(cls)
    return generated


STALE_TEXT = 'STALE-TEXT'


class Recorder:
    def __init__(self):
        self.calls = []


def make_handler(hid, behaviour, rec, is_async):
    def body(req, resp, ex, params):
        rec.calls.append((hid, ex, resp.text, resp.data, resp.media))
        if behaviour == 'set':
            resp.status = falcon.HTTP_299 if hasattr(falcon, 'HTTP_299') else '299 Custom'
            resp.text = 'H%d' % hid
            resp.set_header('X-Handled-By', str(hid))
        elif behaviour == 'raise_error':
            raise falcon.HTTPConflict(
                title='H%d' % hid, description='from handler é<&>', headers={'X-H': str(hid)}
            )
        elif behaviour == 'raise_status':
            raise falcon.HTTPStatus(falcon.HTTP_202, headers={'X-H': str(hid)}, text='HS%d' % hid)
        elif behaviour == 'raise_redirect':
            raise falcon.HTTPSeeOther('/elsewhere/%d' % hid)
        else:
            raise AssertionError(behaviour)

    if is_async:

        async def handler(req, resp, ex, params):
            body(req, resp, ex, params)

    else:

        def handler(req, resp, ex, params):
            body(req, resp, ex, params)

    handler.hid = hid
    return handler


BEHAVIOURS = ('set', 'set', 'raise_error', 'raise_status', 'raise_redirect')
SITES = ('mw_request', 'mw_resource', 'hook', 'responder', 'after_hook', 'mw_response')
STALE_KINDS = ('none', 'text', 'data', 'media', 'all')


def set_stale(resp, kind):
    if kind in ('text', 'all'):
        resp.text = STALE_TEXT
    if kind in ('data', 'all'):
        resp.data = b'STALE-DATA'
    if kind in ('media', 'all'):
        resp.media = {'stale': 'STALE-MEDIA'}


class Plan:
    """What the current request should do (shared by all components)."""

    site = None
    exc_cls = None
    stale = 'none'
    raised = None

    @classmethod
    def maybe_raise(cls, here, resp):
        if cls.site == here:
            set_stale(resp, cls.stale)
            cls.raised = cls.exc_cls()
            raise cls.raised


def build_app(is_async, regs, handlers):
    def hook(req, resp, resource, params):
        Plan.maybe_raise('hook', resp)

    def after(req, resp, resource):
        Plan.maybe_raise('after_hook', resp)

    if is_async:

        async def ahook(req, resp, resource, params):
            hook(req, resp, resource, params)

        async def aafter(req, resp, resource):
            after(req, resp, resource)

        class MW:
            async def process_request(self, req, resp):
                Plan.maybe_raise('mw_request', resp)

            async def process_resource(self, req, resp, resource, params):
                Plan.maybe_raise('mw_resource', resp)

            async def process_response(self, req, resp, resource, req_succeeded):
                Plan.maybe_raise('mw_response', resp)

        class Res:
            @falcon.before(ahook)
            @falcon.after(aafter)
            async def on_get(self, req, resp):
                resp.media = {'ok': True}
                Plan.maybe_raise('responder', resp)

        app = falcon.asgi.App(middleware=[MW()])
    else:

        class MW:
            def process_request(self, req, resp):
                Plan.maybe_raise('mw_request', resp)

            def process_resource(self, req, resp, resource, params):
                Plan.maybe_raise('mw_resource', resp)

            def process_response(self, req, resp, resource, req_succeeded):
                Plan.maybe_raise('mw_response', resp)

        class Res:
            @falcon.before(hook)
            @falcon.after(after)
            def on_get(self, req, resp):
                resp.media = {'ok': True}
                Plan.maybe_raise('responder', resp)

        app = falcon.App(middleware=[MW()])

    app.add_route('/x', Res())
    for cls, hid in regs:
        app.add_error_handler(cls, handlers[hid])
    return app


def expect_default_error(section, result, status, headers, expected_dict, ctx):
    check(section, result.status_code == status_code_of(status), '%s status %r != %r' % (ctx, result.status, status))
    for k, v in (headers or {}).items():
        check(section, hget(result, k) == v, '%s header %s=%r != %r' % (ctx, k, hget(result, k), v))
    check(section, hget(result, 'Vary') == 'Accept', '%s Vary=%r' % (ctx, hget(result, 'Vary')))
    check(
        section,
        (hget(result, 'Content-Type') or '').split(';')[0] == 'application/json',
        '%s content-type %r' % (ctx, hget(result, 'Content-Type')),
    )
    try:
        got = json.loads(result.content.decode('utf-8'))
    except Exception as e:  # pragma: no cover
        got = 'unparseable: %r (%r)' % (result.content, e)
    check(section, got == expected_dict, '%s body %r != %r' % (ctx, got, expected_dict))
    check(section, b'STALE' not in result.content, '%s stale content leaked' % ctx)


def verify_section_a_case(section, result, regs, behaviours, rec, ctx):
    ex = Plan.raised
    check(section, ex is not None, '%s nothing was raised' % ctx)
    if ex is None:
        return
    hid = model_select(DEFAULT_REGS + regs, type(ex))
    check(section, hid is not None, '%s model found no handler' % ctx)
    kind = hid if hid in ('py', 'err', 'sta') else behaviours[hid]
    COVERAGE[kind] = COVERAGE.get(kind, 0) + 1

    if hid in ('py', 'err', 'sta'):
        check(section, rec.calls == [], '%s custom handler called %r, expected default %s' % (ctx, rec.calls, hid))
    else:
        check(
            section,
            len(rec.calls) == 1 and rec.calls[0][0] == hid and rec.calls[0][1] is ex,
            '%s expected handler %r for %s (mro %s), calls=%r'
            % (ctx, hid, type(ex).__name__, [c.__name__ for c in type(ex).__mro__], [c[:2] for c in rec.calls]),
        )
        if rec.calls:
            check(
                section,
                rec.calls[0][2:] == (None, None, None),
                '%s text/data/media not reset on handler entry: %r' % (ctx, rec.calls[0][2:]),
            )

    if hid == 'py':
        expect_default_error(
            section, result, 500, None, {'title': '500 Internal Server Error'}, ctx + ' [py]'
        )
    elif hid == 'err':
        expect_default_error(
            section,
            result,
            ex.status,
            ex.headers,
            model_error_dict(ex.title, ex.description, ex.code, ex.link),
            ctx + ' [err]',
        )
    elif hid == 'sta':
        check(section, result.status_code == status_code_of(ex.status), '%s [sta] status %r' % (ctx, result.status))
        for k, v in (ex.headers or {}).items():
            check(section, hget(result, k) == v, '%s [sta] header %s' % (ctx, k))
        check(section, result.content == (ex.text or '').encode('utf-8'), '%s [sta] body %r' % (ctx, result.content))
    else:
        beh = behaviours[hid]
        if beh == 'set':
            check(section, result.status_code == 299, '%s [set] status %r' % (ctx, result.status))
            check(section, result.text == 'H%d' % hid, '%s [set] body %r' % (ctx, result.content))
            check(section, hget(result, 'X-Handled-By') == str(hid), '%s [set] header' % ctx)
        elif beh == 'raise_error':
            expect_default_error(
                section,
                result,
                409,
                {'X-H': str(hid)},
                {'title': 'H%d' % hid, 'description': 'from handler é<&>'},
                ctx + ' [raise_error]',
            )
        elif beh == 'raise_status':
            check(section, result.status_code == 202, '%s [raise_status] status %r' % (ctx, result.status))
            check(section, result.text == 'HS%d' % hid, '%s [raise_status] body %r' % (ctx, result.content))
            check(section, hget(result, 'X-H') == str(hid), '%s [raise_status] header' % ctx)
        elif beh == 'raise_redirect':
            check(section, result.status_code == 303, '%s [raise_redirect] status %r' % (ctx, result.status))
            check(
                section, hget(result, 'Location') == '/elsewhere/%d' % hid, '%s [raise_redirect] location' % ctx
            )
            check(section, result.content == b'', '%s [raise_redirect] body %r' % (ctx, result.content))


COVERAGE = {}


def section_a(n_hier=40, n_classes=12):
    section = 'A-selection'
    for h in range(n_hier):
        rng = random.Random(1000 + h)
        classes = gen_hierarchy(rng, n_classes, str(h))
        candidates = classes + ROOTS + [BaseException]
        n_regs = rng.choice((0, 1, 2, 4, 6, 9, 14))
        n_handlers = max(1, n_regs // 2 + 1)
        behaviours = {i: rng.choice(BEHAVIOURS) for i in range(n_handlers)}
        regs = []
        for _ in range(n_regs):
            # NOTE: repeated registrations for the same class are likely, on
            # purpose ("the latest registration per class wins").
            regs.append((rng.choice(candidates[: max(3, len(candidates) // 2)] + candidates), rng.randrange(n_handlers)))

        for is_async in (False, True):
            rec = Recorder()
            handlers = {i: make_handler(i, behaviours[i], rec, is_async) for i in range(n_handlers)}
            app = build_app(is_async, regs, handlers)
            site_rng = random.Random(5000 + h)
            for cls in classes:
                Plan.site = site_rng.choice(SITES)
                Plan.exc_cls = cls
                Plan.stale = site_rng.choice(STALE_KINDS)
                Plan.raised = None
                del rec.calls[:]
                ctx = 'hier=%d %s cls=%s site=%s stale=%s' % (
                    h,
                    'ASGI' if is_async else 'WSGI',
                    cls.__name__,
                    Plan.site,
                    Plan.stale,
                )
                try:
                    result = simulate(app, path='/x')
                except BaseException as e:
                    check(section, False, '%s escaped to the server: %r' % (ctx, e))
                    continue
                verify_section_a_case(section, result, regs, behaviours, rec, ctx)

            # no exception at all -> the normal response, no handler involved
            Plan.site = None
            del rec.calls[:]
            result = simulate(app, path='/x')
            check(section, result.status_code == 200 and result.json == {'ok': True} and rec.calls == [], 'plain 200')

    # the generated cases must have visited every kind of outcome many times
    for kind in ('py', 'err', 'sta') + tuple(set(BEHAVIOURS)):
        check(section, COVERAGE.get(kind, 0) >= 20, 'coverage of outcome %r too low: %r' % (kind, COVERAGE))


# ---------------------------------------------------------------------------
# Section B: raise sites that need special set-up: body rendering, routing
# (404/405 raised by the default responders), META method rejection, sinks,
# exceptions raised with only the defaults installed.
# ---------------------------------------------------------------------------


class Unserializable:
    pass


def section_b():
    section = 'B-sites'
    for is_async in (False, True):
        tag = 'ASGI' if is_async else 'WSGI'
        seen = []

        if is_async:

            class Res:
                async def on_get(self, req, resp):
                    resp.media = {'bad': Unserializable()}

                async def on_put(self, req, resp):
                    resp.text = STALE_TEXT
                    raise RuntimeError('boom')

                async def on_delete(self, req, resp):
                    resp.media = {'stale': 1}
                    raise falcon.HTTPGone(description='gone ☃')

            async def on_type_error(req, resp, ex, params):
                seen.append((type(ex), resp.text, resp.data, resp.media))
                raise falcon.HTTPUnprocessableEntity(title='unserializable')

            app = falcon.asgi.App()
        else:

            class Res:
                def on_get(self, req, resp):
                    resp.media = {'bad': Unserializable()}

                def on_put(self, req, resp):
                    resp.text = STALE_TEXT
                    raise RuntimeError('boom')

                def on_delete(self, req, resp):
                    resp.media = {'stale': 1}
                    raise falcon.HTTPGone(description='gone ☃')

            def on_type_error(req, resp, ex, params):
                seen.append((type(ex), resp.text, resp.data, resp.media))
                raise falcon.HTTPUnprocessableEntity(title='unserializable')

            app = falcon.App()

        app.add_route('/r', Res())

        # body rendering raises TypeError -> default python handler -> 500
        result = simulate(app, path='/r')
        check(section, result.status_code == 500, '%s render error -> %r' % (tag, result.status))
        check(section, hget(result, 'Vary') == 'Accept', '%s render error Vary' % tag)

        # responder raising a plain exception -> 500 JSON, nothing stale
        result = simulate(app, path='/r', method='PUT')
        expect_default_error(section, result, 500, None, {'title': '500 Internal Server Error'}, tag + ' PUT')

        # responder raising an HTTPError -> its own rendering
        result = simulate(app, path='/r', method='DELETE')
        expect_default_error(
            section, result, 410, None, {'title': '410 Gone', 'description': 'gone ☃'}, tag + ' DELETE'
        )

        # default responders raise HTTPRouteNotFound / HTTPMethodNotAllowed
        result = simulate(app, path='/nope')
        expect_default_error(section, result, 404, None, {'title': '404 Not Found'}, tag + ' 404')
        result = simulate(app, path='/r', method='POST')
        check(section, result.status_code == 405, '%s 405 -> %r' % (tag, result.status))
        check(
            section,
            sorted((hget(result, 'Allow') or '').replace(' ', '').split(',')) == ['DELETE', 'GET', 'OPTIONS', 'PUT'],
            '%s Allow=%r' % (tag, hget(result, 'Allow')),
        )

        # no handler at all (only reachable by emptying the private registry):
        # _handle_exception reports False and the exception is re-raised as is
        bare = falcon.asgi.App() if is_async else falcon.App()
        bare.add_route('/r', Res())
        bare._error_handlers.pop(Exception)
        boom = None
        try:
            simulate(bare, path='/r', method='PUT')
        except RuntimeError as e:
            boom = e
        check(section, boom is not None and boom.args == ('boom',), '%s unhandled exception is re-raised: %r' % (tag, boom))
        result = simulate(bare, path='/r', method='DELETE')
        check(section, result.status_code == 410, '%s bare app still renders HTTPError: %r' % (tag, result.status))
        for probe_ex, expected in ((RuntimeError('x'), False), (falcon.HTTPGone(), True)):
            req = testing.create_asgi_req() if is_async else testing.create_req()
            resp = bare._response_type(options=bare.resp_options)
            resp.text, resp.data, resp.media = 'a', b'b', {'c': 1}
            ret = bare._handle_exception(req, resp, probe_ex, {})
            if is_async:
                ret = falcon.async_to_sync(lambda c=ret: c)
            check(section, ret is expected, '%s _handle_exception(%r) returned %r' % (tag, probe_ex, ret))
            if not expected:
                check(
                    section,
                    (resp.text, resp.data, resp.media) == (None, None, None),
                    '%s reset happens even without a handler: %r' % (tag, (resp.text, resp.data, resp.media)),
                )

        # now a custom handler for TypeError that itself raises an HTTPError
        app.add_error_handler(TypeError, on_type_error)
        result = simulate(app, path='/r')
        check(section, result.status_code == 422, '%s render error w/ handler -> %r' % (tag, result.status))
        check(
            section,
            len(seen) == 1 and seen[0][0] is TypeError and seen[0][1:] == (None, None, None),
            '%s render handler calls %r' % (tag, seen),
        )

        # most specific wins for the route-not-found error, latest registration wins
        order = []

        def mk(name):
            if is_async:

                async def h(req, resp, ex, params):
                    order.append(name)
                    resp.status = falcon.HTTP_200
                    resp.text = name

            else:

                def h(req, resp, ex, params):
                    order.append(name)
                    resp.status = falcon.HTTP_200
                    resp.text = name

            return h

        app.add_error_handler(falcon.HTTPNotFound, mk('nf1'))
        app.add_error_handler(falcon.HTTPError, mk('he'))
        app.add_error_handler(Exception, mk('exc'))
        app.add_error_handler(falcon.HTTPNotFound, mk('nf2'))
        result = simulate(app, path='/nope')
        check(section, result.text == 'nf2' and order == ['nf2'], '%s doc example 404: %r %r' % (tag, result.text, order))
        del order[:]
        result = simulate(app, path='/r', method='DELETE')
        check(section, result.text == 'he' and order == ['he'], '%s doc example 410: %r %r' % (tag, result.text, order))
        del order[:]
        result = simulate(app, path='/r', method='PUT')
        check(section, result.text == 'exc' and order == ['exc'], '%s doc example exc: %r %r' % (tag, result.text, order))
        # HTTPRouteNotFound is more specific than HTTPNotFound
        app.add_error_handler(falcon.HTTPRouteNotFound, mk('rnf'))
        del order[:]
        result = simulate(app, path='/nope')
        check(section, result.text == 'rnf' and order == ['rnf'], '%s route-not-found: %r %r' % (tag, result.text, order))


# ---------------------------------------------------------------------------
# Section C: faithful default serialization of HTTPError for arbitrary unicode
# title / description / code / href / headers and a table of Accept headers.
# ---------------------------------------------------------------------------

ALPHABET = (
    list('abcXYZ019 _-+.,;:!?/\\\'"<>&%{}[]()=#@~|^`$*')
    + ['\n', '\t', 'é', 'ü', 'ß', 'Ж', '漢', '字', '\U0001f600', '‏', 'א']
    + [']]>', '<!--', '&amp;', '{0}', '{}', '%s', '</title>', ' ']
)


def rand_text(rng, allow_empty=True):
    n = rng.choice((0, 1, 2, 5, 12, 40)) if allow_empty else rng.choice((1, 2, 5, 12, 40))
    return ''.join(rng.choice(ALPHABET) for _ in range(n))


class CustomMediaHandler(BaseHandler):
    def serialize(self, media, content_type):
        return b'CUSTOM:' + json.dumps(media, sort_keys=True).encode('utf-8')

    def deserialize(self, stream, content_type, content_length):  # pragma: no cover
        raise NotImplementedError

    async def serialize_async(self, media, content_type):
        return self.serialize(media, content_type)


# accept header -> (kind with xml_error_serialization=True, kind with False)
# Hard-coded from the unmodified tree; 'custom' is application/x-custom for
# which a media handler is configured; 'none' means no body is produced.
ACCEPT_TABLE = [
    (None, ('json', 'json')),
    ('', ('json', 'json')),
    ('*/*', ('json', 'json')),
    ('application/json', ('json', 'json')),
    ('application/json; charset=utf-8', ('json', 'json')),
    ('application/xml', ('xml', 'none')),
    ('text/xml', ('textxml', 'none')),
    ('application/xml;q=0.9, application/json;q=0.8', ('xml', 'json')),
    ('application/json;q=0.1, application/xml;q=0.2', ('xml', 'json')),
    ('application/json, application/xml', ('json', 'json')),
    ('application/xml, application/json', ('json', 'json')),
    ('text/html', ('none', 'none')),
    ('text/html, */*;q=0.1', ('json', 'json')),
    ('application/vnd.acme+json', ('json', 'json')),
    ('application/vnd.acme+xml', ('xml+', 'none+')),
    ('Application/Vnd.Acme+JSON; charset=utf-8', ('json', 'json')),
    ('application/x-custom', ('custom', 'custom')),
    ('application/x-custom;q=0.5, application/json;q=0.4', ('custom', 'custom')),
    ('application/x-custom;q=0.5, application/json;q=0.6', ('json', 'json')),
    ('application/json;q=0', ('none', 'none')),
    ('garbage', ('none', 'none')),
    ('text/*', ('textxml', 'none')),
    ('application/*', ('json', 'json')),
]


def build_error(rng):
    title = rng.choice((None, '', rand_text(rng), rand_text(rng, False)))
    description = rng.choice((None, '', rand_text(rng), rand_text(rng, False)))
    code = rng.choice((None, 0, -1, 7, 2**40, -(2**33)))
    href = rng.choice((None, '', 'http://example.com/docs', 'http://exämple.com/漢?a=b c&d=<e>', rand_text(rng, False)))
    href_text = rng.choice((None, '', rand_text(rng, False)))
    hval = ''.join(rng.choice('abcXYZ019 -_;=,éü') for _ in range(rng.choice((1, 4, 12)))).strip() or 'v'
    headers = rng.choice((None, {'X-Custom': hval}, [('X-Custom', hval), ('X-Other', 'o')]))
    kwargs = dict(title=title, description=description, headers=headers, href=href, href_text=href_text, code=code)
    kind = rng.randrange(8)
    if kind == 0:
        status = rng.choice((falcon.HTTP_400, 400, 499, '503 Service Unavailable', falcon.HTTP_725))
        err = falcon.HTTPError(status, **kwargs)
    elif kind == 1:
        err = falcon.HTTPNotFound(**kwargs)
    elif kind == 2:
        err = falcon.HTTPForbidden(**kwargs)
    elif kind == 3:
        err = falcon.HTTPUnprocessableEntity(**kwargs)
    elif kind == 4:
        err = falcon.HTTPInternalServerError(**kwargs)
    elif kind == 5:
        err = falcon.HTTPTooManyRequests(**kwargs)
    elif kind == 6:
        err = falcon.HTTPServiceUnavailable(retry_after=30, **kwargs)
        headers = list(dict(headers or {}).items()) + [('Retry-After', '30')]
    else:
        err = falcon.HTTPMethodNotAllowed(['GET', 'PUT'], **kwargs)
        headers = list(dict(headers or {}).items()) + [('Allow', 'GET, PUT')]

    exp_title = title if title else falcon.code_to_http_status(err.status)
    if href:
        exp_link = {
            'text': href_text or 'Documentation related to this error',
            'href': falcon.uri.encode(href),
            'rel': 'help',
        }
    else:
        exp_link = None
    expected = model_error_dict(exp_title, description, code, exp_link)
    return err, expected, dict(headers or {})


class Holder:
    err = None


def make_raising_app(is_async, xml_enabled, with_custom):
    if is_async:

        class Res:
            async def on_get(self, req, resp):
                resp.text = STALE_TEXT
                raise Holder.err

        app = falcon.asgi.App()
    else:

        class Res:
            def on_get(self, req, resp):
                resp.text = STALE_TEXT
                raise Holder.err

        app = falcon.App()
    app.add_route('/e', Res())
    app.resp_options.xml_error_serialization = xml_enabled
    if with_custom:
        app.resp_options.media_handlers['application/x-custom'] = CustomMediaHandler()
    return app


def xml_safe(d):
    # NOTE: XML parsers normalise line ends and cannot carry U+2028 etc. any
    # differently, but '\r' is not in the alphabet; nothing to strip here.
    return d


def verify_serialized(section, result, kind, err, expected, exp_headers, ctx):
    check(section, result.status_code == status_code_of(err.status), '%s status %r' % (ctx, result.status))
    check(section, hget(result, 'Vary') == 'Accept', '%s Vary=%r' % (ctx, hget(result, 'Vary')))
    for k, v in exp_headers.items():
        check(section, hget(result, k) == v, '%s header %s=%r != %r' % (ctx, k, hget(result, k), v))
    check(section, b'STALE' not in result.content, '%s stale body leaked' % ctx)
    ctype = (hget(result, 'Content-Type') or '').split(';')[0]
    body = result.content
    if kind == 'json':
        check(section, ctype == 'application/json', '%s ctype %r' % (ctx, ctype))
        try:
            got = json.loads(body.decode('utf-8'))
        except Exception as e:
            got = 'unparseable %r: %r' % (body, e)
        check(section, got == expected, '%s json %r != %r' % (ctx, got, expected))
    elif kind in ('xml', 'textxml', 'xml+'):
        want = 'text/xml' if kind == 'textxml' else 'application/xml'
        check(section, ctype == want, '%s ctype %r != %r' % (ctx, ctype, want))
        check(section, body.startswith(b'<?xml version="1.0" encoding="UTF-8"?><error>'), '%s xml prolog %r' % (ctx, body[:60]))
        try:
            got = xml_to_dict(body)
        except Exception as e:
            got = 'unparseable %r: %r' % (body, e)
        check(section, got == dict_as_xml_view(expected), '%s xml %r != %r' % (ctx, got, dict_as_xml_view(expected)))
    elif kind == 'custom':
        check(section, ctype == 'application/x-custom', '%s ctype %r' % (ctx, ctype))
        check(section, body.startswith(b'CUSTOM:'), '%s custom body %r' % (ctx, body[:30]))
        try:
            got = json.loads(body[len(b'CUSTOM:'):].decode('utf-8'))
        except Exception as e:
            got = 'unparseable %r: %r' % (body, e)
        check(section, got == expected, '%s custom %r != %r' % (ctx, got, expected))
    elif kind == 'none':
        check(section, body == b'', '%s expected empty body, got %r' % (ctx, body[:60]))
    elif kind == 'none+':
        # +xml requested, XML serialization disabled, no XML media handler:
        # content type is announced but there is nothing to serialize with.
        check(section, body == b'', '%s expected empty body, got %r' % (ctx, body[:60]))
        check(section, ctype == 'application/xml', '%s ctype %r' % (ctx, ctype))
    else:
        raise AssertionError(kind)


def section_c(n_errors=14):
    section = 'C-serialization'
    for is_async in (False, True):
        for xml_enabled in (True, False):
            app = make_raising_app(is_async, xml_enabled, with_custom=True)
            rng = random.Random(77 + int(xml_enabled))
            for i in range(n_errors):
                err, expected, exp_headers = build_error(rng)
                for accept, kinds in ACCEPT_TABLE:
                    kind = kinds[0] if xml_enabled else kinds[1]
                    Holder.err = err
                    headers = {} if accept is None else {'Accept': accept}
                    ctx = '%s xml=%s err#%d(%s) accept=%r' % (
                        'ASGI' if is_async else 'WSGI',
                        xml_enabled,
                        i,
                        type(err).__name__,
                        accept,
                    )
                    try:
                        result = simulate(app, path='/e', headers=headers)
                    except BaseException as e:
                        check(section, False, '%s escaped: %r' % (ctx, e))
                        continue
                    verify_serialized(section, result, kind, err, expected, exp_headers, ctx)

    # direct unit view of to_dict / to_json / _to_xml (no app involved)
    rng = random.Random(4242)
    for i in range(300):
        err, expected, _ = build_error(rng)
        ctx = 'direct err#%d' % i
        check(section, err.to_dict() == expected, '%s to_dict %r != %r' % (ctx, err.to_dict(), expected))
        check(section, list(err.to_dict()) == list(expected), '%s to_dict key order' % ctx)
        check(section, json.loads(err.to_json().decode('utf-8')) == expected, '%s to_json' % ctx)
        got = xml_to_dict(err._to_xml())
        check(section, got == dict_as_xml_view(expected), '%s _to_xml %r != %r' % (ctx, got, dict_as_xml_view(expected)))
        if 'link' in expected:
            sub = [e.tag for e in ET.fromstring(err._to_xml()).find('link')]
            check(section, sub == ['text', 'href', 'rel'], '%s link child order %r' % (ctx, sub))


# ---------------------------------------------------------------------------
# Section D: the description/title texts of the header/param/media errors
# (hard-coded from the unmodified tree) and their rendering through the app.
# ---------------------------------------------------------------------------


class Weird:
    def __init__(self, s):
        self.s = s

    def __str__(self):
        return 'str:' + self.s

    def __repr__(self):
        return 'repr:' + self.s

    def __format__(self, spec):
        return 'fmt[' + spec + ']:' + self.s


def fmt(x):
    return format(x, '')


def rand_value(rng):
    k = rng.randrange(12)
    if k < 7:
        return rand_text(rng)
    return rng.choice(
        (None, 0, -3, 2.5, b'bytes\xff', ('a', 1), Weird('w{0}'), True, '{', '}', '{0}{1}', '{header_name}', '{msg!r}')
    )


def section_d(n=160):
    section = 'D-error-texts'
    rng = random.Random(99)
    app_w = make_raising_app(False, True, False)
    app_a = make_raising_app(True, True, False)
    for i in range(n):
        a = rand_value(rng)
        b = rand_value(rng)
        cases = [
            (
                falcon.HTTPInvalidHeader(a, b),
                'Invalid header value',
                'The value provided for the "' + fmt(b) + '" header is invalid. ' + fmt(a),
            ),
            (falcon.HTTPMissingHeader(a), 'Missing header value', 'The "' + fmt(a) + '" header is required.'),
            (
                falcon.HTTPInvalidParam(a, b),
                'Invalid parameter',
                'The "' + fmt(b) + '" parameter is invalid. ' + fmt(a),
            ),
            (falcon.HTTPMissingParam(a), 'Missing parameter', 'The "' + fmt(a) + '" parameter is required.'),
            (
                falcon.MediaNotFoundError(a),
                'Invalid ' + fmt(a),
                'Could not parse an empty ' + fmt(a) + ' body',
            ),
            (falcon.MediaMalformedError(a), 'Invalid ' + fmt(a), 'Could not parse ' + fmt(a) + ' body'),
        ]
        try:
            try:
                raise ValueError(b)
            except ValueError as cause:
                raise falcon.MediaMalformedError(a) from cause
        except falcon.MediaMalformedError as mm:
            cases.append((mm, 'Invalid ' + fmt(a), 'Could not parse ' + fmt(a) + ' body - ' + str(ValueError(b))))

        for err, title, desc in cases:
            ctx = '#%d %s(%r, %r)' % (i, type(err).__name__, a, b)
            check(section, isinstance(err, falcon.HTTPBadRequest), '%s class' % ctx)
            check(section, err.status_code == 400, '%s status %r' % (ctx, err.status))
            check(section, err.title == title, '%s title %r != %r' % (ctx, err.title, title))
            check(section, err.description == desc, '%s description %r != %r' % (ctx, err.description, desc))
            check(section, err.to_dict() == {'title': title, 'description': desc}, '%s to_dict %r' % (ctx, err.to_dict()))

        # through the apps (JSON and XML) for the string-only cases
        if isinstance(a, str) and isinstance(b, str) and i % 4 == 0:
            for err, title, desc in cases:
                for app in (app_w, app_a):
                    Holder.err = err
                    for accept, kind in (('application/json', 'json'), ('application/xml', 'xml')):
                        result = simulate(app, path='/e', headers={'Accept': accept})
                        verify_serialized(
                            section,
                            result,
                            kind,
                            err,
                            {'title': title, 'description': desc},
                            {},
                            '#%d %s via %s %s' % (i, type(err).__name__, type(app).__module__, accept),
                        )

    # keyword arguments still flow through
    e = falcon.HTTPInvalidHeader('m', 'h', headers={'X-A': 'b'}, code=5, href='http://x/y')
    check(section, e.headers == {'X-A': 'b'} and e.code == 5 and e.link['href'] == 'http://x/y', 'kwargs InvalidHeader')
    e = falcon.HTTPMissingParam('p', headers=[('X-A', 'b')], code=6)
    check(section, e.headers == [('X-A', 'b')] and e.code == 6, 'kwargs MissingParam')
    e = falcon.MediaMalformedError('JSON')
    e.description = 'ignored'
    check(section, e.description == 'Could not parse JSON body', 'MediaMalformedError description setter is a no-op')


# ---------------------------------------------------------------------------
# Section E: the registration API (what histories are accepted and rejected).
# ---------------------------------------------------------------------------


def section_e():
    section = 'E-registration'
    for is_async in (False, True):
        tag = 'ASGI' if is_async else 'WSGI'
        app = falcon.asgi.App() if is_async else falcon.App()
        defaults = dict(app._error_handlers)
        check(
            section,
            set(defaults) - {falcon.WebSocketDisconnected} == {Exception, falcon.HTTPError, falcon.HTTPStatus},
            '%s default handlers %r' % (tag, set(defaults)),
        )

        if is_async:

            async def h1(req, resp, ex, params):
                resp.text = 'h1'

            async def h2(req, resp, ex, params):
                resp.text = 'h2'

        else:

            def h1(req, resp, ex, params):
                resp.text = 'h1'

            def h2(req, resp, ex, params):
                resp.text = 'h2'

        class NotAnException:
            pass

        bad_types = [NotAnException, int, str, object, type, dict]
        for bad in bad_types:
            before = dict(app._error_handlers)
            try:
                app.add_error_handler(bad, h1)
            except TypeError as e:
                check(
                    section,
                    str(e).startswith('"exception" must be an exception type'),
                    '%s TypeError message for %r: %r' % (tag, bad, str(e)),
                )
            except Exception as e:
                check(section, False, '%s wrong exception for %r: %r' % (tag, bad, e))
            else:
                check(section, False, '%s no TypeError for %r' % (tag, bad))
            check(section, dict(app._error_handlers) == before, '%s registry changed by rejected %r' % (tag, bad))

        # an iterable: items before the offending one are registered, then TypeError
        before = dict(app._error_handlers)
        try:
            app.add_error_handler((KeyError, NotAnException, IndexError), h1)
        except TypeError as e:
            check(section, str(e).startswith('"exception" must be an exception type'), '%s iterable message %r' % (tag, str(e)))
        else:
            check(section, False, '%s no TypeError for a bad item in an iterable' % tag)
        after = dict(app._error_handlers)
        check(
            section,
            set(after) - set(before) == {KeyError} and IndexError not in after,
            '%s partial registration %r' % (tag, set(after) - set(before)),
        )

        # non-class objects are rejected with TypeError as well (by issubclass itself)
        for bad in (42, 'ValueError', None):
            try:
                if bad is None:
                    app.add_error_handler(bad, h1)
                else:
                    app.add_error_handler([bad], h1)
            except TypeError:
                check(section, True, '')
            except Exception as e:
                check(section, False, '%s wrong exception for %r: %r' % (tag, bad, e))
            else:
                check(section, False, '%s no error for %r' % (tag, bad))

        # missing handler and no "handle" attribute
        try:
            app.add_error_handler(ValueError)
        except AttributeError as e:
            check(section, 'handler must either be specified explicitly' in str(e), '%s AttributeError text' % tag)
        else:
            check(section, False, '%s no AttributeError' % tag)

        # iterable (tuple, list, generator, set) registration + latest wins + BaseException allowed
        app.add_error_handler([LookupError, ArithmeticError], h1)
        app.add_error_handler((c for c in (ArithmeticError, BaseException)), h2)
        app.add_error_handler({OSError}, h2)
        found = app._find_error_handler
        unwrap = lambda f: getattr(f, '__wrapped__', f)  # noqa: E731
        check(section, unwrap(found(KeyError('k'))) is h1, '%s KeyError -> h1 (own registration)' % tag)
        check(section, unwrap(found(IndexError())) is h1, '%s IndexError -> LookupError/h1' % tag)
        check(section, unwrap(found(ZeroDivisionError())) is h2, '%s ZeroDivisionError -> latest ArithmeticError/h2' % tag)
        check(section, unwrap(found(FileNotFoundError())) is h2, '%s FileNotFoundError -> OSError/h2' % tag)
        check(section, unwrap(found(KeyboardInterrupt())) is h2, '%s KeyboardInterrupt -> BaseException/h2' % tag)
        check(section, found(ValueError()) == defaults[Exception], '%s ValueError -> default python handler' % tag)
        check(section, found(falcon.HTTPNotFound()) == defaults[falcon.HTTPError], '%s 404 -> default error handler' % tag)
        check(section, found(falcon.HTTPFound('/x')) == defaults[falcon.HTTPStatus], '%s 302 -> default status handler' % tag)

        # "handle" static method default
        if is_async:

            class WithHandle(Exception):
                @staticmethod
                async def handle(req, resp, ex, params):
                    raise falcon.HTTPError(falcon.HTTP_792)

        else:

            class WithHandle(Exception):
                @staticmethod
                def handle(req, resp, ex, params):
                    raise falcon.HTTPError(falcon.HTTP_792)

        class Sub(WithHandle):
            pass

        app.add_error_handler(WithHandle)

        if is_async:

            class R:
                async def on_get(self, req, resp):
                    raise Sub()

        else:

            class R:
                def on_get(self, req, resp):
                    raise Sub()

        app.add_route('/h', R())
        result = simulate(app, path='/h')
        check(section, result.status_code == 792, '%s handle() -> %r' % (tag, result.status))
        check(section, result.json == {'title': '792 Climate change driven catastrophic weather event'}, '%s 792 body %r' % (tag, result.content))

    # deprecated (ex, req, resp, params) signature is still shimmed on WSGI
    app = falcon.App()
    got = []

    def legacy(ex, req, resp, params):
        got.append(type(ex))
        resp.text = 'legacy'

    class R2:
        def on_get(self, req, resp):
            raise KeyError('x')

    with warnings.catch_warnings():
        warnings.simplefilter('ignore')
        app.add_error_handler(LookupError, legacy)
    app.add_route('/l', R2())
    result = simulate(app, path='/l')
    check(section, result.text == 'legacy' and got == [KeyError], 'legacy signature shim: %r %r' % (result.text, got))


# ---------------------------------------------------------------------------
# Section F: schedules -- registrations racing with lookups (threads) and
# concurrent ASGI requests on one loop.
# ---------------------------------------------------------------------------


def section_f(n_requests=300):
    section = 'F-schedules'

    class Base(Exception):
        pass

    class Mid(Base):
        pass

    class Leaf(Mid, ValueError):
        pass

    def mk(name):
        def h(req, resp, ex, params):
            resp.text = name

        return h

    h_base, h_leaf1, h_leaf2 = mk('base'), mk('leaf1'), mk('leaf2')

    class R:
        def on_get(self, req, resp):
            resp.text = STALE_TEXT
            raise Leaf()

        def on_put(self, req, resp):
            raise Mid()

    app = falcon.App()
    app.add_route('/t', R())
    app.add_error_handler(Base, h_base)
    app.add_error_handler(Leaf, h_leaf1)

    stop = threading.Event()

    def churn():
        i = 0
        extra = [type('Extra%d' % k, (Exception,), {}) for k in range(50)]
        while not stop.is_set():
            i += 1
            app.add_error_handler(Leaf, h_leaf2 if i % 2 else h_leaf1)
            app.add_error_handler(extra[i % 50], h_base)

    t = threading.Thread(target=churn)
    t.start()
    try:
        for i in range(n_requests):
            r = simulate(app, path='/t')
            check(section, r.text in ('leaf1', 'leaf2'), 'threaded Leaf -> %r' % r.text)
            r = simulate(app, path='/t', method='PUT')
            check(section, r.text == 'base', 'threaded Mid -> %r' % r.text)
    finally:
        stop.set()
        t.join()

    # a registration made after requests were already served is honoured
    app.add_error_handler(Mid, h_leaf1)
    r = simulate(app, path='/t', method='PUT')
    check(section, r.text == 'leaf1', 'late registration -> %r' % r.text)

    # concurrent ASGI requests
    import asyncio

    async def a_base(req, resp, ex, params):
        await asyncio.sleep(0)
        resp.text = 'base:' + req.get_param('i')

    async def a_leaf(req, resp, ex, params):
        await asyncio.sleep(0.001)
        raise falcon.HTTPStatus(falcon.HTTP_207, text='leaf:' + req.get_param('i'))

    class AR:
        async def on_get(self, req, resp):
            resp.media = {'stale': True}
            await asyncio.sleep(0)
            if int(req.get_param('i')) % 2:
                raise Leaf()
            raise Mid()

    aapp = falcon.asgi.App()
    aapp.add_route('/t', AR())
    aapp.add_error_handler(Base, a_base)
    aapp.add_error_handler(Leaf, a_leaf)

    async def run():
        async with testing.ASGIConductor(aapp) as conductor:
            return await asyncio.gather(
                *[conductor.simulate_get('/t', params={'i': str(i)}) for i in range(60)]
            )

    results = falcon.async_to_sync(run)
    for i, r in enumerate(results):
        if i % 2:
            check(section, r.status_code == 207 and r.text == 'leaf:%d' % i, 'concurrent ASGI #%d -> %r %r' % (i, r.status, r.text))
        else:
            check(section, r.status_code == 200 and r.text == 'base:%d' % i, 'concurrent ASGI #%d -> %r %r' % (i, r.status, r.text))


def main():
    section_a()
    section_b()
    section_c()
    section_d()
    section_e()
    section_f()
    finish()


if __name__ == '__main__':
    main()
