"""Property C05 check: responses are protocol-valid and length-consistent on
both server interfaces (WSGI and ASGI).

Run as:  PYTHONPATH=<falcon tree> /venv/bin/python check.py

The program drives falcon.App (WSGI) and falcon.asgi.App (ASGI) directly with a
hand-written server side (start_response / send) over a generated matrix of
status x method x body source(s) x preset headers x cookies x response class
x fault point, and compares what the server receives with a small reference
model of the documented behaviour.  It additionally unit-checks the helpers
the emission code relies on (CloseableStreamIterator, App._get_body,
code_to_http_status / http_status_to_code, SSEvent.serialize,
_encode_items_to_latin1) against reference models / hard-coded expectations
taken from the unmodified tree.

Prints PASS and exits 0 when every case agrees with the model.
"""

import asyncio
import http
import io
import itertools
import json
import random
import re
import sys
import traceback

import falcon
import falcon.asgi
from falcon import app_helpers
from falcon import status_codes
from falcon import testing
from falcon.asgi import SSEvent
from falcon.util import misc

# Which of the four deliverables this copy accompanies (the same harness is
# shipped with each of them; it covers all of the code the four changes touch).
FOCUS = 4

RNG = random.Random(0xC05)
FAILURES = []
COUNTS = {}


def fail(section, case, msg):
    FAILURES.append('[%s] %r: %s' % (section, case, msg))


def count(section, n=1):
    COUNTS[section] = COUNTS.get(section, 0) + n


# ---------------------------------------------------------------------------
# Reference model
# ---------------------------------------------------------------------------

BODILESS = {100, 101, 204, 304}
TYPELESS = {204, 304}

# (value assigned to resp.status, integer code)
STATUSES = [
    (200, 200),
    ('200 OK', 200),
    (http.HTTPStatus.OK, 200),
    (201, 201),
    (falcon.HTTP_202, 202),
    (204, 204),
    ('204 No Content', 204),
    (http.HTTPStatus.NO_CONTENT, 204),
    (304, 304),
    (falcon.HTTP_304, 304),
    (http.HTTPStatus.NOT_MODIFIED, 304),
    (100, 100),
    (101, 101),
    (falcon.HTTP_101, 101),
    (404, 404),
    (http.HTTPStatus.IM_A_TEAPOT, 418),
    (500, 500),
    (299, 299),  # unknown code
    (798, 798),  # unknown code
    ('725 It works on my machine', 725),
    ('209', 209),  # str without a reason phrase
]

METHODS = ['GET', 'HEAD', 'POST', 'DELETE']

MEDIA_OBJ = {'msg': 'héllo', 'n': [1, 2, 3]}
MEDIA_BYTES = json.dumps(MEDIA_OBJ, ensure_ascii=False).encode()

STREAM_CHUNKS = [b'abc', b'', b'\x00\xff' * 5, b'tail']
STREAM_BYTES = b''.join(STREAM_CHUNKS)
FILE_BYTES = bytes(range(256)) * 70  # 17920 bytes => 3 blocks of 8 KiB

# name -> (dict of attributes to set, expected non-stream bytes or None)
BODY_SOURCES = {
    'none': ({}, None),
    'text': ({'text': 'Hello, wörld ☃'}, 'Hello, wörld ☃'.encode()),
    'text_empty': ({'text': ''}, b''),
    'text_bytes': ({'text': b'raw-bytes-as-text'}, b'raw-bytes-as-text'),
    'data': ({'data': b'\x00\x01binary\xff'}, b'\x00\x01binary\xff'),
    'data_empty': ({'data': b''}, b''),
    'media': ({'media': MEDIA_OBJ}, MEDIA_BYTES),
    'media_list': ({'media': [1, 'two']}, b'[1, "two"]'),
    'text+data': ({'text': 'T', 'data': b'D'}, b'T'),
    'text+media': ({'text': 'T', 'media': MEDIA_OBJ}, b'T'),
    'data+media': ({'data': b'D', 'media': MEDIA_OBJ}, b'D'),
    'text+data+media': ({'text': 'T', 'data': b'D', 'media': [0]}, b'T'),
}

# Stream kinds usable with the rendered sources above (rendered wins).
WSGI_STREAMS = ['none', 'gen', 'list', 'file', 'file_noclose', 'empty_file']
ASGI_STREAMS = [
    'none',
    'agen',
    'aiter',
    'afile',
    'afile_noclose',
    'afile_none',
    'empty_afile',
]


class TrackedFile:
    """Sync file-like object counting close() calls; may raise in read()."""

    def __init__(self, payload, fail_at=None):
        self._io = io.BytesIO(payload)
        self.reads = 0
        self.sizes = []
        self.closed_calls = 0
        self.fail_at = fail_at

    def read(self, size=-1):
        self.reads += 1
        self.sizes.append(size)
        if self.fail_at is not None and self.reads > self.fail_at:
            raise OSError('boom in read #%d' % self.reads)
        return self._io.read(size)

    def close(self):
        self.closed_calls += 1


class TrackedFileNoClose:
    def __init__(self, payload):
        self._io = io.BytesIO(payload)
        self.reads = 0
        self.sizes = []
        self.closed_calls = 0

    def read(self, size=-1):
        self.reads += 1
        self.sizes.append(size)
        return self._io.read(size)


class FileWrapper:
    """A wsgi.file_wrapper as a server would provide (PEP 3333)."""

    instances = []

    def __init__(self, filelike, blksize=8192):
        self.filelike = filelike
        self.blksize = blksize
        if hasattr(filelike, 'close'):
            self.close = filelike.close
        FileWrapper.instances.append(self)

    def __iter__(self):
        return self

    def __next__(self):
        data = self.filelike.read(self.blksize)
        if data:
            return data
        raise StopIteration


class TrackedGen:
    """Sync iterable (non file-like) of byte chunks with close() tracking."""

    def __init__(self, chunks, fail_at=None):
        self._chunks = list(chunks)
        self._i = 0
        self.closed_calls = 0
        self.fail_at = fail_at

    def __iter__(self):
        return self

    def __next__(self):
        if self.fail_at is not None and self._i >= self.fail_at:
            raise OSError('boom in next #%d' % self._i)
        if self._i >= len(self._chunks):
            raise StopIteration
        self._i += 1
        return self._chunks[self._i - 1]

    def close(self):
        self.closed_calls += 1


class AsyncTrackedFile:
    def __init__(self, payload, fail_at=None, none_at=None):
        self.none_at = none_at
        self._io = io.BytesIO(payload)
        self.reads = 0
        self.sizes = []
        self.closed_calls = 0
        self.fail_at = fail_at

    async def read(self, size=-1):
        self.reads += 1
        self.sizes.append(size)
        await asyncio.sleep(0)
        if self.fail_at is not None and self.reads > self.fail_at:
            raise OSError('boom in async read #%d' % self.reads)
        if self.none_at is not None and self.reads == self.none_at:
            # Allowed by the framework: "no data right now".
            return None
        return self._io.read(size)

    async def close(self):
        self.closed_calls += 1


class AsyncTrackedFileNoClose:
    def __init__(self, payload):
        self._io = io.BytesIO(payload)
        self.reads = 0
        self.sizes = []
        self.closed_calls = 0

    async def read(self, size=-1):
        self.reads += 1
        self.sizes.append(size)
        return self._io.read(size)


class AsyncTrackedIter:
    """Async iterator (not a generator) with an async close()."""

    def __init__(self, chunks, fail_at=None):
        self._chunks = list(chunks)
        self._i = 0
        self.closed_calls = 0
        self.fail_at = fail_at

    def __aiter__(self):
        return self

    async def __anext__(self):
        await asyncio.sleep(0)
        if self.fail_at is not None and self._i >= self.fail_at:
            raise OSError('boom in anext #%d' % self._i)
        if self._i >= len(self._chunks):
            raise StopAsyncIteration
        self._i += 1
        return self._chunks[self._i - 1]

    async def close(self):
        self.closed_calls += 1


def make_wsgi_stream(kind, fail_at=None):
    """Return (stream object, expected bytes, tracker or None)."""
    if kind == 'gen':

        def gen():
            for chunk in STREAM_CHUNKS:
                yield chunk

        return gen(), STREAM_BYTES, None
    if kind == 'tracked_gen':
        obj = TrackedGen(STREAM_CHUNKS, fail_at)
        return obj, STREAM_BYTES, obj
    if kind == 'list':
        return list(STREAM_CHUNKS), STREAM_BYTES, None
    if kind == 'file':
        obj = TrackedFile(FILE_BYTES, fail_at)
        return obj, FILE_BYTES, obj
    if kind == 'file_noclose':
        obj = TrackedFileNoClose(FILE_BYTES)
        return obj, FILE_BYTES, obj
    if kind == 'empty_file':
        obj = TrackedFile(b'')
        return obj, b'', obj
    raise AssertionError(kind)


def make_asgi_stream(kind, fail_at=None):
    if kind == 'agen':

        async def agen():
            for chunk in STREAM_CHUNKS:
                yield chunk

        return agen(), STREAM_BYTES, None
    if kind == 'aiter':
        obj = AsyncTrackedIter(STREAM_CHUNKS, fail_at)
        return obj, STREAM_BYTES, obj
    if kind == 'afile':
        obj = AsyncTrackedFile(FILE_BYTES, fail_at)
        return obj, FILE_BYTES, obj
    if kind == 'afile_noclose':
        obj = AsyncTrackedFileNoClose(FILE_BYTES)
        return obj, FILE_BYTES, obj
    if kind == 'afile_none':
        obj = AsyncTrackedFile(FILE_BYTES, fail_at, none_at=2)
        return obj, FILE_BYTES, obj
    if kind == 'empty_afile':
        obj = AsyncTrackedFile(b'')
        return obj, b'', obj
    raise AssertionError(kind)


# ---------------------------------------------------------------------------
# Custom response classes
# ---------------------------------------------------------------------------


class WSGICustomResponse(falcon.Response):
    """Custom response type delegating to the stock render_body()."""

    def render_body(self):
        self.rendered_calls = getattr(self, 'rendered_calls', 0) + 1
        return super().render_body()


class ASGICustomResponse(falcon.asgi.Response):
    async def render_body(self):
        self.rendered_calls = getattr(self, 'rendered_calls', 0) + 1
        return await super().render_body()


# ---------------------------------------------------------------------------
# Apps under test.  The responder fills in resp according to CURRENT (a spec).
# ---------------------------------------------------------------------------

CURRENT = {}


def fill_response(resp, spec):
    resp.status = spec['status']
    for name, value in spec['attrs'].items():
        setattr(resp, name, value)
    if spec.get('stream') is not None:
        resp.stream = spec['stream']
    if spec.get('sse') is not None:
        resp.sse = spec['sse']
    if spec.get('content_length') is not None:
        resp.content_length = spec['content_length']
    if spec.get('content_type') is not None:
        resp.content_type = spec['content_type']
    for name, value in spec.get('cookies', ()):
        resp.set_cookie(name, value)
    for name, value in spec.get('extra', ()):
        resp.append_header(name, value)
    for name, value in spec.get('headers', ()):
        resp.set_header(name, value)


class WSGIResource:
    def _respond(self, req, resp):
        fill_response(resp, CURRENT)

    on_get = on_head = on_post = on_delete = _respond


class ASGIResource:
    async def _respond(self, req, resp):
        fill_response(resp, CURRENT)

    on_get = on_head = on_post = on_delete = _respond


def make_wsgi_app(custom):
    app = falcon.App(response_type=WSGICustomResponse if custom else None)
    app.add_route('/', WSGIResource())
    return app


def make_asgi_app(custom):
    app = falcon.asgi.App(response_type=ASGICustomResponse if custom else None)
    app.add_route('/', ASGIResource())
    return app


WSGI_APPS = {False: make_wsgi_app(False), True: make_wsgi_app(True)}
ASGI_APPS = {False: make_asgi_app(False), True: make_asgi_app(True)}

STATUS_LINE_RE = re.compile(r'^[1-9]\d\d \S.*$')
TOKEN_RE = re.compile(r"^[!#$%&'*+\-.^_`|~0-9A-Za-z]+$")


# ---------------------------------------------------------------------------
# WSGI driver + checks
# ---------------------------------------------------------------------------


def run_wsgi(spec, method, custom, with_wrapper, consume_fail_after=None):
    """Run one request; return a dict describing what the server saw."""
    global CURRENT
    CURRENT = spec
    calls = []

    def start_response(status, headers, exc_info=None):
        calls.append((status, headers, exc_info))
        return lambda data: None

    env = testing.create_environ(
        path='/',
        method=method,
        file_wrapper=FileWrapper if with_wrapper else None,
    )
    if not with_wrapper:
        env.pop('wsgi.file_wrapper', None)

    result = WSGI_APPS[custom](env, start_response)

    chunks = []
    error = None
    stopped = False
    try:
        # NOTE: like a real server, only start iterating after the app
        # callable returned, and always call close() when present.
        for n, chunk in enumerate(result):
            chunks.append(chunk)
            if consume_fail_after is not None and n + 1 >= consume_fail_after:
                # Simulates the server giving up (client went away).
                stopped = True
                break
    except OSError as ex:
        error = ex
    finally:
        if hasattr(result, 'close'):
            result.close()

    return {
        'calls': calls,
        'chunks': chunks,
        'error': error,
        'stopped': stopped,
        'result': result,
    }


def header_values(headers, name):
    return [v for n, v in headers if n.lower() == name]


def check_wsgi_case(case, spec, method, code, expected, streamed, out, tracker):
    sec = 'wsgi'
    calls = out['calls']
    if len(calls) != 1:
        fail(sec, case, 'start_response called %d times' % len(calls))
        return
    status, headers, exc_info = calls[0]
    if type(status) is not str or not STATUS_LINE_RE.match(status):
        fail(sec, case, 'invalid status line %r' % (status,))
    elif int(status[:3]) != code:
        fail(sec, case, 'status line %r does not carry code %d' % (status, code))
    if type(headers) is not list:
        fail(sec, case, 'headers is %r, not a list' % type(headers))
    for item in headers:
        if (
            type(item) is not tuple
            or len(item) != 2
            or type(item[0]) is not str
            or type(item[1]) is not str
        ):
            fail(sec, case, 'header item %r is not a (str, str) tuple' % (item,))
            return
        if not TOKEN_RE.match(item[0]):
            fail(sec, case, 'header name %r is not a token' % (item[0],))
        if '\r' in item[1] or '\n' in item[1]:
            fail(sec, case, 'header value %r has CR/LF' % (item[1],))
    for chunk in out['chunks']:
        if type(chunk) is not bytes:
            fail(sec, case, 'body chunk %r is not bytes' % (chunk,))
            return

    body = b''.join(out['chunks'])
    bodiless = method == 'HEAD' or code in BODILESS
    clen = header_values(headers, 'content-length')
    ctype = header_values(headers, 'content-type')

    if len(clen) > 1:
        fail(sec, case, 'several content-length headers %r' % (clen,))
    if len(ctype) > 1:
        fail(sec, case, 'several content-type headers %r' % (ctype,))

    if bodiless:
        if body != b'':
            fail(sec, case, 'bodiless response carries %d body bytes' % len(body))
    else:
        complete = out['error'] is None and not out['stopped']
        if complete and body != expected:
            fail(sec, case, 'body %r != expected %r' % (body[:40], expected[:40]))
        if not complete and not expected.startswith(body):
            fail(sec, case, 'bytes sent are not a prefix of the expected body')
        if not streamed:
            if clen != [str(len(body))]:
                fail(sec, case, 'content-length %r != %d' % (clen, len(body)))
        elif spec.get('content_length') is None and clen:
            fail(sec, case, 'unexpected content-length %r for a stream' % (clen,))

    if code in TYPELESS:
        if spec.get('content_type') is None and not spec['attrs'].get('media') and ctype:
            fail(sec, case, 'typeless response has content-type %r' % (ctype,))
    elif not ctype:
        fail(sec, case, 'missing content-type')

    # Cookies / extra headers survive, in order.
    want_cookies = ['%s=%s' % (n, v) for n, v in spec.get('cookies', ())]
    got_cookies = [v.split(';')[0] for v in header_values(headers, 'set-cookie')]
    if got_cookies != want_cookies:
        fail(sec, case, 'set-cookie %r != %r' % (got_cookies, want_cookies))
    want_extra = [v for n, v in spec.get('extra', ())]
    got_extra = header_values(headers, 'x-extra')
    if want_extra and got_extra not in (want_extra, [', '.join(want_extra)]):
        fail(sec, case, 'x-extra %r != %r' % (got_extra, want_extra))

    if tracker is not None and any(n != 8192 for n in getattr(tracker, 'sizes', ())):
        fail(sec, case, 'read() sizes %r' % (tracker.sizes,))

    # close() exactly once after streaming has begun.
    if tracker is not None:
        began = streamed and not bodiless
        if began and hasattr(tracker, 'close'):
            if tracker.closed_calls != 1:
                fail(sec, case, 'stream.close() called %d times' % tracker.closed_calls)
        elif tracker.closed_calls > 1:
            fail(sec, case, 'stream.close() called %d times' % tracker.closed_calls)


def wsgi_matrix():
    cases = []
    # Full cross of status x method for a rotating selection of the other
    # dimensions, plus a random sample of the full matrix.
    others = list(
        itertools.product(
            sorted(BODY_SOURCES),
            WSGI_STREAMS,
            [None, 7],  # preset content-length (wrong on purpose)
            [None, 'text/x-custom; charset=utf-8'],
            [(), (('a', '1'),), (('a', '1'), ('b', 'two'))],
            [(), (('X-Extra', 'one'), ('X-Extra', 'two'))],
            [False, True],  # custom response class
            [False, True],  # wsgi.file_wrapper
        )
    )
    RNG.shuffle(others)
    it = itertools.cycle(others)
    for (status, code), method in itertools.product(STATUSES, METHODS):
        for _ in range(6):
            cases.append(((status, code), method) + next(it))
    return cases


def run_wsgi_matrix():
    for (status, code), method, src, skind, clen, ctype, cookies, extra, custom, wrap in (
        wsgi_matrix()
    ):
        attrs, rendered = BODY_SOURCES[src]
        stream = tracker = None
        stream_bytes = None
        if skind != 'none':
            stream, stream_bytes, tracker = make_wsgi_stream(skind)
        if ctype is not None and 'media' in attrs:
            # A media handler must exist for the preset type.
            ctype = 'application/json; charset=utf-8'
        spec = {
            'status': status,
            'attrs': attrs,
            'stream': stream,
            'content_length': clen,
            'content_type': ctype,
            'cookies': cookies,
            'extra': extra,
        }
        case = (status, method, src, skind, clen, ctype, len(cookies), len(extra), custom, wrap)
        if rendered is not None:
            expected, streamed = rendered, False
        elif stream is not None:
            expected, streamed = stream_bytes, True
        else:
            expected, streamed = b'', False
        try:
            out = run_wsgi(spec, method, custom, wrap)
        except Exception as ex:  # noqa: BLE001
            fail('wsgi', case, 'unexpected %r' % (ex,))
            continue
        check_wsgi_case(case, spec, method, code, expected, streamed, out, tracker)
        # A rendered body must not touch the stream at all.
        if rendered is not None and tracker is not None:
            if tracker.reads or tracker.closed_calls:
                fail('wsgi', case, 'stream touched although a rendered body won')
        if streamed and skind in ('file', 'file_noclose', 'empty_file'):
            method_bodiless = method == 'HEAD' or code in BODILESS
            res = out['result']
            if not method_bodiless:
                want = FileWrapper if wrap else app_helpers.CloseableStreamIterator
                if type(res) is not want:
                    fail('wsgi', case, 'iterable is %r, wanted %r' % (type(res), want))
                elif wrap and (res.filelike is not stream or res.blksize != 8192):
                    fail('wsgi', case, 'file_wrapper got wrong arguments')
        count('wsgi')


def run_wsgi_faults():
    """Stream raising at every point / server abandoning at every point."""
    for custom, wrap, method, (status, code) in itertools.product(
        [False, True], [False, True], ['GET', 'POST'], [(200, 200), ('206 Partial Content', 206), (798, 798)]
    ):
        # file-like: 3 data reads + 1 EOF read
        for fail_at in range(0, 5):
            stream, sbytes, tracker = make_wsgi_stream('file', fail_at)
            spec = {'status': status, 'attrs': {}, 'stream': stream}
            case = ('file-raises', status, method, custom, wrap, fail_at)
            out = run_wsgi(spec, method, custom, wrap)
            check_wsgi_case(case, spec, method, code, sbytes, True, out, tracker)
            if fail_at < 4 and out['error'] is None:
                fail('wsgi-fault', case, 'stream error was swallowed')
            got = b''.join(out['chunks'])
            if not sbytes.startswith(got):
                fail('wsgi-fault', case, 'bytes sent are not a prefix of the stream')
            count('wsgi-fault')
        for stop_after in range(1, 4):
            stream, sbytes, tracker = make_wsgi_stream('file')
            spec = {'status': status, 'attrs': {}, 'stream': stream}
            case = ('server-stops', status, method, custom, wrap, stop_after)
            out = run_wsgi(spec, method, custom, wrap, consume_fail_after=stop_after)
            check_wsgi_case(case, spec, method, code, sbytes, True, out, tracker)
            count('wsgi-fault')
        for fail_at in range(0, len(STREAM_CHUNKS) + 1):
            stream, sbytes, tracker = make_wsgi_stream('tracked_gen', fail_at)
            spec = {'status': status, 'attrs': {}, 'stream': stream}
            case = ('iter-raises', status, method, custom, wrap, fail_at)
            out = run_wsgi(spec, method, custom, wrap)
            check_wsgi_case(case, spec, method, code, sbytes, True, out, tracker)
            if out['result'] is not stream:
                fail('wsgi-fault', case, 'non file-like stream must be returned as-is')
            count('wsgi-fault')


# ---------------------------------------------------------------------------
# ASGI driver + checks
# ---------------------------------------------------------------------------

LOOP = asyncio.new_event_loop()


def run_asgi(spec, method, custom, send_fail_at=None):
    global CURRENT
    CURRENT = spec
    events = []
    state = {'received': 0, 'sends': 0}

    async def receive():
        state['received'] += 1
        if state['received'] == 1:
            return {'type': 'http.request', 'body': b'', 'more_body': False}
        # Block "forever", as a server does until the client disconnects.
        await asyncio.Event().wait()

    async def send(event):
        state['sends'] += 1
        if send_fail_at is not None and state['sends'] >= send_fail_at:
            raise ConnectionError('send #%d failed' % state['sends'])
        events.append(event)

    scope = testing.create_scope(path='/', method=method)
    error = None
    try:
        LOOP.run_until_complete(
            asyncio.wait_for(ASGI_APPS[custom](scope, receive, send), timeout=30)
        )
    except (OSError, ConnectionError) as ex:
        error = ex
    return {'events': events, 'error': error, 'sends': state['sends']}


def check_asgi_case(case, spec, method, code, expected, streamed, out, tracker, sse=False):
    sec = 'asgi'
    events = out['events']
    complete = out['error'] is None
    if not events:
        if complete:
            fail(sec, case, 'no events sent')
        return
    start = events[0]
    if start.get('type') != 'http.response.start':
        fail(sec, case, 'first event is %r' % (start,))
        return
    if type(start.get('status')) is not int or start['status'] != code:
        fail(sec, case, 'status %r != %d' % (start.get('status'), code))
    headers = start.get('headers')
    if type(headers) is not list:
        fail(sec, case, 'headers is %r' % type(headers))
        return
    for item in headers:
        if (
            type(item) is not tuple
            or len(item) != 2
            or type(item[0]) is not bytes
            or type(item[1]) is not bytes
        ):
            fail(sec, case, 'header item %r is not (bytes, bytes)' % (item,))
            return
        if item[0] != item[0].lower() or not TOKEN_RE.match(item[0].decode('latin1')):
            fail(sec, case, 'header name %r invalid' % (item[0],))
        if b'\r' in item[1] or b'\n' in item[1]:
            fail(sec, case, 'header value %r has CR/LF' % (item[1],))
    bodies = events[1:]
    for i, ev in enumerate(bodies):
        if ev.get('type') != 'http.response.body':
            fail(sec, case, 'event #%d is %r' % (i + 1, ev.get('type')))
            return
        if type(ev.get('body', b'')) is not bytes:
            fail(sec, case, 'body of event #%d is %r' % (i + 1, type(ev.get('body'))))
            return
        last = i == len(bodies) - 1
        more = ev.get('more_body', False)
        if not last and not more:
            fail(sec, case, 'non-final body event #%d has more_body false' % (i + 1))
        if last and complete and more:
            fail(sec, case, 'final body event has more_body true')
    if complete and not bodies:
        fail(sec, case, 'no final body event')

    body = b''.join(ev.get('body', b'') for ev in bodies)
    str_headers = [(n.decode('latin1'), v.decode('latin1')) for n, v in headers]
    clen = header_values(str_headers, 'content-length')
    ctype = header_values(str_headers, 'content-type')
    bodiless = method == 'HEAD' or code in BODILESS
    if len(clen) > 1:
        fail(sec, case, 'several content-length headers %r' % (clen,))
    if len(ctype) > 1:
        fail(sec, case, 'several content-type headers %r' % (ctype,))

    if bodiless:
        if body != b'':
            fail(sec, case, 'bodiless response carries %d body bytes' % len(body))
        if len(bodies) > 1:
            fail(sec, case, 'bodiless response has %d body events' % len(bodies))
    else:
        if complete and body != expected:
            fail(sec, case, 'body %r != expected %r' % (body[:40], expected[:40]))
        if not complete and not expected.startswith(body):
            fail(sec, case, 'bytes sent are not a prefix of the expected body')
        if not streamed and not sse:
            if clen != [str(len(expected))]:
                fail(sec, case, 'content-length %r != %d' % (clen, len(expected)))
        elif spec.get('content_length') is None and clen:
            fail(sec, case, 'unexpected content-length %r for a stream' % (clen,))

    if code in TYPELESS:
        if spec.get('content_type') is None and not spec['attrs'].get('media') and ctype:
            fail(sec, case, 'typeless response has content-type %r' % (ctype,))
    elif not ctype:
        fail(sec, case, 'missing content-type')
    elif sse and not bodiless and spec.get('content_type') is None:
        if ctype != ['text/event-stream']:
            fail(sec, case, 'SSE content-type %r' % (ctype,))

    want_cookies = ['%s=%s' % (n, v) for n, v in spec.get('cookies', ())]
    got_cookies = [v.split(';')[0] for v in header_values(str_headers, 'set-cookie')]
    if got_cookies != want_cookies:
        fail(sec, case, 'set-cookie %r != %r' % (got_cookies, want_cookies))
    want_extra = [v for n, v in spec.get('extra', ())]
    got_extra = header_values(str_headers, 'x-extra')
    if want_extra and got_extra not in (want_extra, [', '.join(want_extra)]):
        fail(sec, case, 'x-extra %r != %r' % (got_extra, want_extra))

    if tracker is not None and any(n != 8192 for n in getattr(tracker, 'sizes', ())):
        fail(sec, case, 'read() sizes %r' % (tracker.sizes,))

    if tracker is not None:
        began = streamed and not bodiless and len(events) >= 1 and out['sends'] >= 2
        if began and hasattr(tracker, 'close'):
            if tracker.closed_calls != 1:
                fail(sec, case, 'stream.close() called %d times' % tracker.closed_calls)
        elif tracker.closed_calls > 1:
            fail(sec, case, 'stream.close() called %d times' % tracker.closed_calls)


def asgi_matrix():
    cases = []
    others = list(
        itertools.product(
            sorted(BODY_SOURCES),
            ASGI_STREAMS,
            [None, 7],
            [None, 'text/x-custom; charset=utf-8'],
            [(), (('a', '1'),), (('a', '1'), ('b', 'two'))],
            [(), (('X-Extra', 'one'), ('X-Extra', 'two'))],
            [False, True],
        )
    )
    RNG.shuffle(others)
    it = itertools.cycle(others)
    for (status, code), method in itertools.product(STATUSES, METHODS):
        for _ in range(6):
            cases.append(((status, code), method) + next(it))
    return cases


def run_asgi_matrix():
    for (status, code), method, src, skind, clen, ctype, cookies, extra, custom in asgi_matrix():
        attrs, rendered = BODY_SOURCES[src]
        stream = tracker = None
        stream_bytes = None
        if skind != 'none':
            stream, stream_bytes, tracker = make_asgi_stream(skind)
        if ctype is not None and 'media' in attrs:
            # A media handler must exist for the preset type.
            ctype = 'application/json; charset=utf-8'
        spec = {
            'status': status,
            'attrs': attrs,
            'stream': stream,
            'content_length': clen,
            'content_type': ctype,
            'cookies': cookies,
            'extra': extra,
        }
        case = (status, method, src, skind, clen, ctype, len(cookies), len(extra), custom)
        if rendered is not None:
            expected, streamed = rendered, False
        elif stream is not None:
            expected, streamed = stream_bytes, True
        else:
            expected, streamed = b'', False
        try:
            out = run_asgi(spec, method, custom)
        except Exception as ex:  # noqa: BLE001
            fail('asgi', case, 'unexpected %r' % (ex,))
            continue
        if out['error'] is not None:
            fail('asgi', case, 'unexpected %r' % (out['error'],))
        check_asgi_case(case, spec, method, code, expected, streamed, out, tracker)
        if rendered is not None and tracker is not None:
            if tracker.closed_calls or getattr(tracker, 'reads', 0):
                fail('asgi', case, 'stream touched although a rendered body won')
        if skind == 'agen' and stream is not None and (rendered is not None or method == 'HEAD' or code in BODILESS):
            # Never iterated: dispose of the generator quietly.
            LOOP.run_until_complete(stream.aclose())
        count('asgi')


def run_asgi_faults():
    for custom, method, (status, code) in itertools.product(
        [False, True], ['GET', 'POST'], [(200, 200), ('206 Partial Content', 206), (798, 798)]
    ):
        for kind, nreads in (('afile', 4), ('afile_none', 5), ('aiter', len(STREAM_CHUNKS))):
            # the stream raises at every possible point
            for fail_at in range(0, nreads + 1):
                stream, sbytes, tracker = make_asgi_stream(kind, fail_at)
                spec = {'status': status, 'attrs': {}, 'stream': stream}
                case = ('stream-raises', kind, status, method, custom, fail_at)
                out = run_asgi(spec, method, custom)
                check_asgi_case(case, spec, method, code, sbytes, True, out, tracker)
                if fail_at < nreads and out['error'] is None:
                    fail('asgi-fault', case, 'stream error was swallowed')
                count('asgi-fault')
            # the server's send fails at every possible point
            nsends = 1 + {'afile': 3, 'afile_none': 4, 'aiter': len(STREAM_CHUNKS)}[kind] + 1
            for send_fail_at in range(1, nsends + 2):
                stream, sbytes, tracker = make_asgi_stream(kind)
                spec = {'status': status, 'attrs': {}, 'stream': stream}
                case = ('send-fails', kind, status, method, custom, send_fail_at)
                out = run_asgi(spec, method, custom, send_fail_at=send_fail_at)
                check_asgi_case(case, spec, method, code, sbytes, True, out, tracker)
                if send_fail_at <= nsends and out['error'] is None:
                    fail('asgi-fault', case, 'send error was swallowed')
                if send_fail_at > nsends and out['error'] is not None:
                    fail('asgi-fault', case, 'unexpected %r' % (out['error'],))
                count('asgi-fault')


def run_block_size_override():
    """_STREAM_BLOCK_SIZE is looked up on the app instance (WSGI and ASGI)."""
    global CURRENT

    class SmallWSGI(falcon.App):
        _STREAM_BLOCK_SIZE = 100

    class SmallASGI(falcon.asgi.App):
        _STREAM_BLOCK_SIZE = 100

    payload = bytes(range(250)) * 3  # 750 bytes => 8 blocks of 100
    for size_attr in (100, 1, 749, 750, 751, 10**6):
        SmallWSGI._STREAM_BLOCK_SIZE = size_attr
        SmallASGI._STREAM_BLOCK_SIZE = size_attr
        want_reads = -(-len(payload) // size_attr) + 1

        for wrap in (False, True):
            app = SmallWSGI()
            app.add_route('/', WSGIResource())
            stream = TrackedFile(payload)
            CURRENT = {'status': 200, 'attrs': {}, 'stream': stream}
            env = testing.create_environ(file_wrapper=FileWrapper if wrap else None)
            if not wrap:
                env.pop('wsgi.file_wrapper', None)
            calls = []
            result = app(env, lambda s, h, e=None: calls.append((s, h)))
            body = b''.join(result)
            result.close()
            case = ('wsgi', size_attr, wrap)
            if body != payload or len(calls) != 1 or stream.closed_calls != 1:
                fail('block-size', case, 'bad response')
            if stream.sizes != [size_attr] * want_reads:
                fail('block-size', case, 'sizes %r' % (stream.sizes[:5],))
            count('block-size')

        app = SmallASGI()
        app.add_route('/', ASGIResource())
        stream = AsyncTrackedFile(payload)
        CURRENT = {'status': 200, 'attrs': {}, 'stream': stream}
        events = []
        first = [True]

        async def receive():
            if first:
                first.pop()
                return {'type': 'http.request', 'body': b'', 'more_body': False}
            await asyncio.Event().wait()

        async def send(event):
            events.append(event)

        LOOP.run_until_complete(app(testing.create_scope(), receive, send))
        case = ('asgi', size_attr)
        body = b''.join(ev.get('body', b'') for ev in events[1:])
        types = [ev['type'] for ev in events]
        if body != payload or stream.closed_calls != 1:
            fail('block-size', case, 'bad response')
        if types != ['http.response.start'] + ['http.response.body'] * want_reads:
            fail('block-size', case, 'event types %r' % (types[:5],))
        if [ev.get('more_body', False) for ev in events[1:]] != [True] * (want_reads - 1) + [False]:
            fail('block-size', case, 'more_body flags')
        if stream.sizes != [size_attr] * want_reads:
            fail('block-size', case, 'sizes %r' % (stream.sizes[:5],))
        count('block-size')


def run_asgi_sse():
    events_a = [
        SSEvent(data=b'raw \xe2\x98\x83'),
        None,
        SSEvent(text='some text', event='evt', event_id='7', retry=1500),
        SSEvent(json={'k': [1, 2]}, comment='c'),
        SSEvent(),
    ]
    for custom, method, (status, code), n, ctype in itertools.product(
        [False, True],
        ['GET', 'HEAD', 'POST'],
        [(200, 200), ('200 OK', 200), (204, 204), (304, 304), (798, 798)],
        range(0, len(events_a) + 1),
        [None, 'text/x-custom'],
    ):
        chosen = events_a[:n]

        async def emitter():
            for ev in chosen:
                yield ev

        agen = emitter()
        expected = b''.join(sse_model(ev if ev is not None else SSEvent()) for ev in chosen)
        spec = {'status': status, 'attrs': {}, 'sse': agen, 'content_type': ctype}
        case = ('sse', status, method, custom, n, ctype)
        out = run_asgi(spec, method, custom)
        if out['error'] is not None:
            fail('asgi-sse', case, 'unexpected %r' % (out['error'],))
        check_asgi_case(case, spec, method, code, expected, True, out, None, sse=True)
        if method == 'HEAD' or code in BODILESS:
            LOOP.run_until_complete(agen.aclose())
        count('asgi-sse')


# ---------------------------------------------------------------------------
# Helper-level checks
# ---------------------------------------------------------------------------


def sse_model(ev):
    """Reference serialization of an SSEvent (builtin JSON handler)."""
    lines = []
    if ev.comment is not None:
        lines.append(': ' + ev.comment)
    if ev.event is not None:
        lines.append('event: ' + ev.event)
    if ev.event_id is not None:
        lines.append('id: ' + ev.event_id)
    if ev.retry is not None:
        lines.append('retry: ' + str(ev.retry))
    if ev.data is not None:
        lines.append('data: ' + ev.data.decode())
    elif ev.text is not None:
        lines.append('data: ' + ev.text)
    elif ev.json is not None:
        lines.append('data: ' + json.dumps(ev.json, ensure_ascii=False))
    if not lines:
        return b': ping\n\n'
    return ('\n'.join(lines) + '\n\n').encode()


def run_sse_serialize():
    opts = {
        'data': [None, b'', b'bytes \xc3\xa9'],
        'text': [None, '', 'téxt'],
        'json': [None, {'a': 1}, [], 0, 'str'],
        'event': [None, 'name'],
        'event_id': [None, '', '42'],
        'retry': [None, 0, 250],
        'comment': [None, '', 'note'],
    }
    keys = sorted(opts)
    for combo in itertools.product(*(opts[k] for k in keys)):
        kwargs = dict(zip(keys, combo))
        ev = SSEvent(**kwargs)
        got = ev.serialize()
        want = sse_model(ev)
        if got != want or type(got) is not bytes:
            fail('sse-serialize', kwargs, '%r != %r' % (got, want))
        count('sse-serialize')


def status_line_model(status):
    """Reference model for falcon.code_to_http_status()."""
    if isinstance(status, http.HTTPStatus):
        return '%d %s' % (status.value, status.phrase)
    if isinstance(status, str) and ' ' in status:
        return status
    if isinstance(status, bytes) and b' ' in status:
        return status.decode()
    try:
        code = int(status)
    except (ValueError, TypeError):
        raise ValueError('%r is not a valid status code' % (status,))
    if not 100 <= code <= 999:
        raise ValueError('%r is not a valid status code' % (status,))
    known = getattr(status_codes, 'HTTP_%d' % code, None)
    if known is not None:
        return known
    return '%d Unknown' % code


def status_code_model(status):
    if isinstance(status, http.HTTPStatus):
        return status.value
    if isinstance(status, int):
        return status
    if isinstance(status, bytes):
        status = status.decode()
    if not isinstance(status, str):
        raise ValueError('status must be an int, str, or a member of http.HTTPStatus')
    if len(status) < 3:
        raise ValueError('status strings must be at least three characters long')
    try:
        return int(status[:3])
    except ValueError:
        raise ValueError('status strings must start with a three-digit integer')


def run_status_normalisation():
    inputs = list(http.HTTPStatus)
    inputs += list(range(90, 1010))
    inputs += [-1, 0, 99, 100, 999, 1000, 10**6, True, False]
    inputs += [str(c) for c in range(95, 1005, 7)]
    inputs += [str(c).encode() for c in range(95, 1005, 13)]
    inputs += [getattr(status_codes, n) for n in dir(status_codes) if re.match(r'HTTP_\d+$', n)]
    inputs += [
        '200 OK', b'200 OK', '200  Double', ' 200', '200 ', '', ' ', b'', b' ',
        'abc', b'abc', 'ab', '2', '20', '20x', '2000', '-20', '+20', '1e2', ' 20',
        '200\tOK', '٢٠٠', '٢٠٠ OK', 'Two Hundred', b'\xff\xfe', b'\xff OK',
        200.0, 200.5, 99.9, 999.9, None, (200,), (), frozenset([200]), 1.5e300,
        float('nan'), float('inf'),
        '725 It works on my machine', b'725 It works on my machine', '9999 Nope',
    ]
    for fn, model, name in (
        (misc.code_to_http_status, status_line_model, 'code_to_http_status'),
        (misc.http_status_to_code, status_code_model, 'http_status_to_code'),
    ):
        for value in inputs:
            for attempt in (1, 2):  # second call goes through the LRU cache
                try:
                    want = ('ok', model(value))
                except Exception as ex:  # noqa: BLE001
                    want = ('err', type(ex), str(ex))
                try:
                    res = fn(value)
                    got = ('ok', res)
                    if type(res) is not type(want[1]) and want[0] == 'ok':
                        got = ('ok-wrong-type', res)
                except Exception as ex:  # noqa: BLE001
                    got = ('err', type(ex), str(ex))
                if got != want:
                    fail('status:' + name, value, '%r != %r' % (got, want))
                count('status')
    # Hard-coded expectations taken from the unmodified tree.
    fixed = {
        200: '200 OK',
        http.HTTPStatus.IM_A_TEAPOT: "418 I'm a Teapot",
        '404': '404 Not Found',
        b'503': '503 Service Unavailable',
        798: '798 Unknown',
        799: '799 End of the world',
        '599': '599 Unknown',
        '200 Fine': '200 Fine',
        b'201 Made': '201 Made',
    }
    for value, want in fixed.items():
        if misc.code_to_http_status(value) != want:
            fail('status:fixed', value, misc.code_to_http_status(value))
        count('status')
    fixed_errors = {
        99: '99 is not a valid status code',
        1000: '1000 is not a valid status code',
        'abc': "'abc' is not a valid status code",
        b'xy': "b'xy' is not a valid status code",
        None: 'None is not a valid status code',
        (1, 2): '(1, 2) is not a valid status code',
    }
    for value, want in fixed_errors.items():
        try:
            misc.code_to_http_status(value)
        except ValueError as ex:
            if str(ex) != want:
                fail('status:fixed', value, str(ex))
        else:
            fail('status:fixed', value, 'no ValueError')
        count('status')


def run_closeable_iterator():
    CSI = app_helpers.CloseableStreamIterator
    for size, block in itertools.product(
        [0, 1, 2, 7, 8, 9, 64, 1000, 8191, 8192, 8193, 20000], [1, 3, 8, 4096, 8192]
    ):
        if size // block > 3000:
            continue
        payload = bytes(RNG.randrange(256) for _ in range(size))
        f = TrackedFile(payload)
        it = CSI(f, block)
        if iter(it) is not it:
            fail('csi', (size, block), '__iter__ must return self')
        chunks = list(it)
        if b''.join(chunks) != payload:
            fail('csi', (size, block), 'payload mismatch')
        if any(type(c) is not bytes or not c or len(c) > block for c in chunks):
            fail('csi', (size, block), 'bad chunk')
        want_reads = -(-size // block) + 1
        if f.reads != want_reads:
            fail('csi', (size, block), 'reads %d != %d' % (f.reads, want_reads))
        if f.closed_calls != 0:
            fail('csi', (size, block), 'closed during iteration')
        it.close()
        if f.closed_calls != 1:
            fail('csi', (size, block), 'close() -> %d calls' % f.closed_calls)
        # repr()/str() must never raise nor touch the stream.
        before = (f.reads, f.closed_calls)
        if not isinstance(repr(it), str) or not isinstance(str(it), str):
            fail('csi', (size, block), 'repr is not a str')
        if (f.reads, f.closed_calls) != before:
            fail('csi', (size, block), 'repr touched the stream')
        count('csi')

    # Streams without a usable close(): close() is a silent no-op.
    class NoClose:
        def read(self, n):
            return b''

    class NoneClose(NoClose):
        close = None

    class BadSigClose(NoClose):
        def close(self, required):
            raise AssertionError('unreachable')

    class RaisingClose(NoClose):
        def close(self):
            raise OSError('close failed')

    for cls in (NoClose, NoneClose, BadSigClose):
        it = CSI(cls(), 10)
        if list(it) != []:
            fail('csi', cls.__name__, 'expected empty iteration')
        try:
            if it.close() is not None:
                fail('csi', cls.__name__, 'close() returned a value')
        except Exception as ex:  # noqa: BLE001
            fail('csi', cls.__name__, 'close() raised %r' % (ex,))
        count('csi')
    it = CSI(RaisingClose(), 10)
    try:
        it.close()
    except OSError:
        pass
    else:
        fail('csi', 'RaisingClose', 'OSError from stream.close() was swallowed')
    count('csi')

    # Non-bytes "empty" values do not end the iteration, b'' does.
    class Weird:
        def __init__(self):
            self.values = [b'x', None, '', 0, bytearray(b''), b'']

        def read(self, n):
            return self.values.pop(0)

    got = list(CSI(Weird(), 5))
    if got != [b'x', None, '', 0]:
        fail('csi', 'Weird', 'got %r' % (got,))
    count('csi')


def run_get_body():
    """App._get_body(): (iterable, length) for every body source."""
    app = falcon.App()

    class Sub(falcon.App):
        _STREAM_BLOCK_SIZE = 100

    sub = Sub()
    wrapper_calls = []

    def wrapper(stream, block):
        wrapper_calls.append((stream, block))
        return ('wrapped', stream, block)

    n = 0
    for the_app, block in ((app, 8192), (sub, 100)):
        for src, (attrs, rendered) in sorted(BODY_SOURCES.items()):
            for skind in WSGI_STREAMS + ['falsy_list', 'falsy_file']:
                for use_wrapper in (False, True):
                    resp = falcon.Response()
                    for k, v in attrs.items():
                        setattr(resp, k, v)
                    stream = None
                    if skind == 'falsy_list':
                        stream = []
                    elif skind == 'falsy_file':

                        class FalsyFile(TrackedFileNoClose):
                            def __bool__(self):
                                return False

                            def __len__(self):
                                return 0

                        stream = FalsyFile(b'zz')
                    elif skind != 'none':
                        stream = make_wsgi_stream(skind)[0]
                    if stream is not None:
                        resp.stream = stream
                    del wrapper_calls[:]
                    args = (resp, wrapper) if use_wrapper else (resp,)
                    iterable, length = the_app._get_body(*args)
                    case = (block, src, skind, use_wrapper)
                    filelike = stream is not None and hasattr(stream, 'read')
                    if rendered is not None:
                        ok = iterable == [rendered] and length == len(rendered)
                        ok = ok and type(iterable) is list and not wrapper_calls
                    elif stream is None:
                        ok = iterable == [] and type(iterable) is list and length == 0
                        ok = ok and not wrapper_calls
                    elif not filelike:
                        ok = iterable is stream and length is None and not wrapper_calls
                    elif use_wrapper:
                        ok = (
                            iterable == ('wrapped', stream, block)
                            and iterable[1] is stream
                            and length is None
                            and wrapper_calls == [(stream, block)]
                        )
                    else:
                        ok = (
                            type(iterable) is app_helpers.CloseableStreamIterator
                            and iterable._stream is stream
                            and iterable._block_size == block
                            and length is None
                        )
                    if not ok:
                        fail('get_body', case, 'got %r' % ((iterable, length),))
                    n += 1
    count('get_body', n)


def run_latin1_items():
    fn = misc._encode_items_to_latin1
    for _ in range(200):
        d = {}
        for _ in range(RNG.randrange(0, 6)):
            k = ''.join(chr(RNG.randrange(33, 127)) for _ in range(RNG.randrange(1, 8)))
            v = ''.join(chr(RNG.randrange(32, 256)) for _ in range(RNG.randrange(0, 12)))
            d[k] = v
        want = [(k.encode('latin1'), v.encode('latin1')) for k, v in d.items()]
        got = fn(d)
        if got != want or type(got) is not list:
            fail('latin1', d, '%r != %r' % (got, want))
        count('latin1')
    try:
        fn({'x': '☃'})
    except UnicodeEncodeError:
        pass
    else:
        fail('latin1', 'snowman', 'expected UnicodeEncodeError')


# ---------------------------------------------------------------------------


def main():
    sections = [
        run_status_normalisation,
        run_closeable_iterator,
        run_get_body,
        run_latin1_items,
        run_sse_serialize,
        run_wsgi_matrix,
        run_wsgi_faults,
        run_asgi_matrix,
        run_asgi_faults,
        run_asgi_sse,
        run_block_size_override,
    ]
    for section in sections:
        try:
            section()
        except Exception:  # noqa: BLE001
            fail(section.__name__, 'section crashed', traceback.format_exc())
    LOOP.close()

    total = sum(COUNTS.values())
    print('falcon from', falcon.__file__)
    print('cases:', ', '.join('%s=%d' % kv for kv in sorted(COUNTS.items())), 'total=%d' % total)
    if FAILURES:
        for line in FAILURES[:40]:
            print('FAIL', line)
        print('%d failure(s)' % len(FAILURES))
        return 1
    print('PASS')
    return 0


if __name__ == '__main__':
    sys.exit(main())
