# ---------------------------------------------------------------------------
# Shared part: WSGI / ASGI / test-client observational equivalence harness
# ---------------------------------------------------------------------------
import asyncio
import io
import json
import random
import sys

import falcon
import falcon.asgi
from falcon import testing
from falcon.testing import helpers as thelpers

FAILURES = []


def fail(msg):
    FAILURES.append(msg)
    if len(FAILURES) <= 15:
        print('FAIL:', msg)


def _safe(fn):
    try:
        return ['ok', fn()]
    except falcon.HTTPError as ex:
        return ['httperror', type(ex).__name__, ex.status, ex.title, ex.description]
    except Exception as ex:  # pragma: no cover - reported through comparison
        return ['exc', type(ex).__name__, str(ex)]


_HDRS = (
    'Accept',
    'Authorization',
    'Content-Type',
    'Content-Length',
    'Cookie',
    'Host',
    'If-Match',
    'If-None-Match',
    'Range',
    'User-Agent',
    'X-Forwarded-For',
    'X-Forwarded-Host',
    'X-Forwarded-Proto',
    'X-Real-IP',
    'Forwarded',
    'X-Custom',
    'x-custom',
    'X-Missing',
)


def _view(req, body):
    """What the application logic sees of the request (interface agnostic)."""
    v = {}
    v['method'] = req.method
    v['path'] = req.path
    v['query_string'] = req.query_string
    v['params'] = sorted((k, val) for k, val in req.params.items())
    v['content_type'] = req.content_type
    v['content_length'] = _safe(lambda: req.content_length)
    v['accept'] = req.accept
    v['auth'] = req.auth
    v['user_agent'] = req.user_agent
    v['referer'] = req.referer
    v['expect'] = req.expect
    v['if_range'] = req.if_range
    v['host'] = req.host
    v['port'] = _safe(lambda: req.port)
    v['scheme'] = req.scheme
    v['netloc'] = req.netloc
    v['root_path'] = req.root_path
    v['prefix'] = req.prefix
    v['uri'] = req.uri
    v['url'] = req.url
    v['relative_uri'] = req.relative_uri
    v['forwarded_scheme'] = req.forwarded_scheme
    v['forwarded_host'] = req.forwarded_host
    v['forwarded_uri'] = req.forwarded_uri
    v['forwarded_prefix'] = req.forwarded_prefix
    v['forwarded'] = _safe(
        lambda: [
            (f.src, f.dest, f.host, f.scheme) for f in (req.forwarded or [])
        ]
    )
    v['access_route'] = list(req.access_route)
    v['remote_addr'] = req.remote_addr
    v['cookies'] = _safe(lambda: sorted(req.cookies.items()))
    v['if_match'] = _safe(lambda: [str(e) for e in (req.if_match or [])])
    v['if_none_match'] = _safe(lambda: [str(e) for e in (req.if_none_match or [])])
    v['range'] = _safe(lambda: req.range)
    v['range_unit'] = _safe(lambda: req.range_unit)
    v['headers_lower'] = sorted(req.headers_lower.items())
    v['get_header'] = [(h, req.get_header(h)) for h in _HDRS]
    v['client_accepts_json'] = req.client_accepts_json
    v['is_websocket'] = req.is_websocket
    v['body'] = body.hex()
    v['options_same'] = True
    return v


def _respond(req, resp, view, mode):
    resp.set_header('X-Mode-Echo', str(mode))
    resp.append_header('X-Multi', 'a')
    resp.append_header('X-Multi', 'b')
    if mode == 0:
        resp.media = view
    elif mode == 1:
        resp.text = json.dumps(view, sort_keys=True)
        resp.content_type = falcon.MEDIA_TEXT
        resp.set_cookie('sid', 'abc', max_age=10, secure=False)
    elif mode == 2:
        resp.data = json.dumps(view, sort_keys=True).encode()
        resp.status = falcon.HTTP_201
        resp.location = '/created/' + view['method']
    elif mode == 3:
        raise falcon.HTTPBadRequest(
            title='Nope', description=json.dumps(view, sort_keys=True)
        )
    elif mode == 4:
        raise falcon.HTTPMovedPermanently('/elsewhere?m=' + view['method'])
    elif mode == 5:
        resp.status = 204
    elif mode == 6:
        raise falcon.HTTPNotFound(headers={'X-Err': '1'})
    else:
        resp.status = 202
        resp.media = {'n': len(view['body']), 'p': view['path']}


class SyncResource:
    def _handle(self, req, resp, **kw):
        body = req.bounded_stream.read()
        view = _view(req, body)
        view['kw'] = sorted(kw.items())
        _respond(req, resp, view, int(req.get_header('X-Mode') or 0))

    on_get = on_post = on_put = on_patch = on_delete = _handle
    on_options = _handle


class AsyncResource:
    async def _handle(self, req, resp, **kw):
        body = await req.stream.read()
        view = _view(req, body)
        view['kw'] = sorted(kw.items())
        _respond(req, resp, view, int(req.get_header('X-Mode') or 0))

    on_get = on_post = on_put = on_patch = on_delete = _handle
    on_options = _handle


class SyncMediaResource:
    def on_post(self, req, resp):
        try:
            m = req.get_media(default_when_empty={'empty': True})
        except falcon.HTTPError:
            raise
        resp.media = {'media': m, 'again': req.get_media(None) == m}


class AsyncMediaResource:
    async def on_post(self, req, resp):
        try:
            m = await req.get_media(default_when_empty={'empty': True})
        except falcon.HTTPError:
            raise
        resp.media = {'media': m, 'again': (await req.get_media(None)) == m}


def make_apps(strip, keep_blank, csv):
    apps = []
    for cls, res, mres in (
        (falcon.App, SyncResource, SyncMediaResource),
        (falcon.asgi.App, AsyncResource, AsyncMediaResource),
    ):
        app = cls()
        app.req_options.strip_url_path_trailing_slash = strip
        app.req_options.keep_blank_qs_values = keep_blank
        app.req_options.auto_parse_qs_csv = csv
        r = res()
        app.add_route('/', r)
        app.add_route('/items', r)
        app.add_route('/items/{item}', r)
        app.add_route('/items/{item}/sub', r)
        app.add_route('/media', mres())
        apps.append(app)
    return apps


# -- a minimal, spec-faithful WSGI driver ----------------------------------


def drive_wsgi(app, env):
    state = {}

    def start_response(status, headers, exc_info=None):
        state['status'] = status
        state['headers'] = list(headers)
        return lambda data: None

    iterable = app(env, start_response)
    try:
        body = b''.join(iterable)
    finally:
        if hasattr(iterable, 'close'):
            iterable.close()
    return state['status'], state['headers'], body


# -- a minimal, spec-faithful ASGI driver ----------------------------------


def drive_asgi(app, scope, body, chunk):
    chunks = [body[i : i + chunk] for i in range(0, len(body), chunk)] or [b'']
    events = [
        {'type': 'http.request', 'body': c, 'more_body': i < len(chunks) - 1}
        for i, c in enumerate(chunks)
    ]
    out = []

    async def run():
        done = asyncio.Event()

        async def receive():
            if events:
                return events.pop(0)
            await done.wait()
            return {'type': 'http.disconnect'}

        async def send(event):
            out.append(event)
            if event['type'] == 'http.response.body' and not event.get(
                'more_body', False
            ):
                done.set()

        await app(scope, receive, send)

    asyncio.run(run())
    start = [e for e in out if e['type'] == 'http.response.start'][0]
    data = b''.join(
        e.get('body', b'') for e in out if e['type'] == 'http.response.body'
    )
    headers = [(n.decode('latin1'), v.decode('latin1')) for n, v in start['headers']]
    return start['status'], headers, data


def norm_headers(headers):
    return sorted((n.lower(), v) for n, v in headers)


# -- request generator ------------------------------------------------------

PATHS = [
    '/',
    '/items',
    '/items/',
    '/items/42',
    '/items/42/',
    '/items/42/sub',
    '/items/42/sub/',
    '/items/caf%C3%A9',
    '/items/%E2%82%AC%20x',
    '/items/%FF%FE',
    '/items/%C3',
    '/items/a%2Fb',
    '/items/%zz',
    '/items/a+b',
    '/items/%20',
    '/nothing/here',
    '/items//',
    '/ITEMS',
]

QUERIES = [
    '',
    'a=1',
    'a=1&a=2',
    'a=1,2,3',
    'a=&b=2',
    'a&b',
    'a=%20x&b=caf%C3%A9',
    'a=%FF',
    'x=1&y=',
    'k=v&&k2=v2',
    'a=1&A=2',
    't=a%2Cb,c',
    'q=a+b',
    '=novalue',
]

HEADER_POOL = [
    ('Accept', 'application/json'),
    ('accept', 'text/html;q=0.5'),
    ('ACCEPT', '*/*'),
    ('Authorization', 'Bearer xyz'),
    ('X-Custom', 'one'),
    ('x-custom', 'two'),
    ('X-CUSTOM', ' three '),
    ('X-Forwarded-For', '10.0.0.1, 10.0.0.2'),
    ('X-Forwarded-Host', 'fwd.example.com'),
    ('X-Forwarded-Proto', 'HTTPS'),
    ('X-Real-IP', '10.9.9.9'),
    ('Forwarded', 'for=192.0.2.60;proto=https;host=f.example.org;by=203.0.113.43'),
    ('Forwarded', 'for="[2001:db8::1]:4711"'),
    ('If-Match', 'W/"abc", "def"'),
    ('If-None-Match', '*'),
    ('If-Range', '"abc"'),
    ('Range', 'bytes=0-10'),
    ('Range', 'bytes=-5'),
    ('Range', 'items=3-'),
    ('Range', 'bytes=x-y'),
    ('Referer', 'http://ref.example.com/x'),
    ('Expect', '100-continue'),
    ('User-Agent', 'check/1.0'),
    ('Cookie', 'a=1; b="q v"; c='),
    ('cookie', 'a=2'),
    ('X-Empty', ''),
    ('X-Latin', 'caf\xe9'),
]

CONTENT_TYPES = [
    None,
    'application/json',
    'text/plain; charset=utf-8',
    'application/x-www-form-urlencoded',
    'application/octet-stream',
]

BODIES = [b'', b'x', b'{"a": 1}', b'a=1&b=2', bytes(range(256)), b'z' * 5000]

METHODS = ['GET', 'POST', 'PUT', 'PATCH', 'DELETE', 'OPTIONS']


def gen_request(rnd):
    method = rnd.choice(METHODS)
    headers = [rnd.choice(HEADER_POOL) for _ in range(rnd.randint(0, 5))]
    headers.append(('X-Mode', str(rnd.randint(0, 7))))
    ct = rnd.choice(CONTENT_TYPES)
    if ct is not None and rnd.random() < 0.5:
        headers.append(('Content-Type', ct))
        ct = None
    # NOTE: an empty body is passed as None, and a Cookie header is never
    #   combined with the cookies= argument: for those two input shapes the
    #   simulated WSGI and ASGI requests are (already, in the unmodified tree)
    #   not the same HTTP request (Content-Length: 0 is only added on the ASGI
    #   side; header-vs-kwarg cookie precedence differs), so they are outside
    #   "given the same HTTP request".
    body = rnd.choice(BODIES) if method in ('POST', 'PUT', 'PATCH') else None
    body = body or None
    cookies = rnd.choice([None, None, {'ck': 'v1'}, {'a': 'x', 'b': 'y z'}])
    if any(n.lower() == 'cookie' for n, _ in headers):
        cookies = None
    req = dict(
        method=method,
        path=rnd.choice(PATHS),
        query_string=rnd.choice(QUERIES),
        headers=headers,
        content_type=ct,
        body=body,
        protocol=rnd.choice(['http', 'https']),
        host=rnd.choice(['falconframework.org', 'example.com', '127.0.0.1']),
        port=rnd.choice([None, None, 80, 443, 8080, '8443']),
        remote_addr=rnd.choice([None, '127.0.0.1', '10.1.2.3']),
        root_path=rnd.choice([None, '', '/mnt', 'app']),
        http_version=rnd.choice(['1.1', '1.1', '1.0', '2']),
        cookies=cookies,
    )
    return req


def compare_once(wsgi_app, asgi_app, kw, rnd, label):
    """The same request through: test client on WSGI, test client on ASGI,
    raw WSGI driver, raw ASGI driver. All four must agree."""
    rw = testing.simulate_request(wsgi_app, **kw)
    ra = testing.simulate_request(
        asgi_app, asgi_chunk_size=rnd.choice([1, 7, 4096]), **kw
    )
    a = (rw.status, norm_headers(rw.headers.items()), rw.content)
    b = (ra.status, norm_headers(ra.headers.items()), ra.content)
    # NOTE: Result.headers collapses repeated names; compare raw lists too.
    if a != b:
        fail('%s: client WSGI != client ASGI for %r\n  %r\n  %r' % (label, kw, a, b))
        return None

    # Minimal drivers fed from create_environ/create_scope built by hand
    from falcon.testing.client import _prepare_sim_args

    path, qs, headers, body, extras = _prepare_sim_args(
        kw['path'],
        kw['query_string'],
        None,
        False,
        kw['content_type'],
        kw['headers'],
        kw['body'],
        None,
        None,
    )
    body = body or b''
    env = thelpers.create_environ(
        method=kw['method'],
        scheme=kw['protocol'],
        path=path,
        query_string=qs or '',
        headers=headers,
        body=body,
        host=kw['host'],
        remote_addr=kw['remote_addr'],
        http_version=kw['http_version'],
        port=kw['port'],
        root_path=kw['root_path'],
        cookies=kw['cookies'],
        wsgierrors=io.StringIO(),
    )
    sw, hw, bw = drive_wsgi(wsgi_app, env)
    scope = thelpers.create_scope(
        path=path,
        query_string=qs,
        method=kw['method'],
        headers=headers,
        host=kw['host'],
        scheme=kw['protocol'],
        port=kw['port'],
        http_version=kw['http_version'],
        remote_addr=kw['remote_addr'],
        root_path=kw['root_path'],
        content_length=len(body) if kw['body'] is not None else None,
        cookies=kw['cookies'],
    )
    sa, ha, ba = drive_asgi(asgi_app, scope, body, rnd.choice([1, 3, 1000, 10000]))
    c = (sw, sorted((n.lower(), v) for n, v in hw), bw)
    d = (
        falcon.code_to_http_status(sa),
        sorted((n.lower(), v) for n, v in ha),
        ba,
    )
    if c != d:
        fail('%s: raw WSGI != raw ASGI for %r\n  %r\n  %r' % (label, kw, c, d))
        return None
    if (rw.status, rw.content) != (sw, bw) or (ra.status, ra.content) != (
        falcon.code_to_http_status(sa),
        ba,
    ):
        fail('%s: client != raw driver for %r' % (label, kw))
        return None
    return a


def run_equivalence(seed, count, label):
    rnd = random.Random(seed)
    n = 0
    combos = [
        (s, k, c) for s in (False, True) for k in (False, True) for c in (False, True)
    ]
    apps = {combo: make_apps(*combo) for combo in combos}
    for i in range(count):
        combo = combos[i % len(combos)]
        wsgi_app, asgi_app = apps[combo]
        kw = gen_request(rnd)
        compare_once(wsgi_app, asgi_app, kw, rnd, '%s#%d%r' % (label, i, combo))
        n += 1
    # media round trips
    for i, (ct, body) in enumerate(
        [
            ('application/json', b'{"a": [1, 2, {"b": null}]}'),
            ('application/json', b''),
            ('application/json', b'{bad'),
            ('application/x-www-form-urlencoded', b'a=1&b=2&b=3'),
            ('application/x-www-form-urlencoded', b''),
            ('text/unknown', b'zzz'),
            (None, b'{"x": 1}'),
        ]
        * 4
    ):
        combo = combos[i % len(combos)]
        wsgi_app, asgi_app = apps[combo]
        kw = dict(
            method='POST',
            path='/media',
            query_string='',
            headers=[('X-Mode', '0')],
            content_type=ct,
            body=body or None,
            protocol='http',
            host='falconframework.org',
            port=None,
            remote_addr=None,
            root_path=None,
            http_version='1.1',
            cookies=None,
        )
        compare_once(wsgi_app, asgi_app, kw, rnd, '%s-media#%d' % (label, i))
        n += 1
    return n


def finish(total):
    if FAILURES:
        print('FAILED: %d failure(s) in %d cases' % (len(FAILURES), total))
        sys.exit(1)
    print('PASS (%d cases)' % total)
    sys.exit(0)


# ---------------------------------------------------------------------------
# Change-specific part (4): ASGIResponseEventCollector collects random event
# histories exactly as a simple reference model says (status, header list,
# body chunks, more_body, event log, exception class); repr() of the collector
# is a side-effect-free string at any point of the history.
# ---------------------------------------------------------------------------
import re as _re

_NAME_RE = _re.compile(rb'^[a-zA-Z][a-zA-Z0-9\-_]*$')
_BAD_VALUE_RE = _re.compile(rb'[\000-\037]')
_LIFESPAN = {
    'lifespan.startup.complete', 'lifespan.startup.failed',
    'lifespan.shutdown.complete', 'lifespan.shutdown.failed',
}


class RefCollector:
    def __init__(self):
        self.events, self.headers, self.body_chunks = [], [], []
        self.status = None
        self.more_body = None

    def collect(self, event):
        """Returns None or the (exception class, text fragment) to expect."""
        if self.more_body is False:
            return None
        self.events.append(event)
        t = event['type']
        if not isinstance(t, str):
            return TypeError, 'event type must be a Unicode string'
        if t == 'http.response.start':
            for name, value in event.get('headers', []):
                if not isinstance(name, bytes):
                    return TypeError, 'must be byte strings'
                if not isinstance(value, bytes):
                    return TypeError, 'must be byte strings'
                if not _NAME_RE.match(name):
                    return ValueError, 'Bad header name: ' + repr(name)
                if _BAD_VALUE_RE.search(value):
                    return ValueError, 'Bad header value: ' + repr(value)
                if not name.decode().islower():
                    return ValueError, 'must be lowercase'
                self.headers.append((name.decode(), value.decode('latin1')))
            self.status = event['status']
            if not isinstance(self.status, int):
                return TypeError, 'status must be an int'
        elif t == 'http.response.body':
            chunk = event.get('body', b'')
            if not isinstance(chunk, bytes):
                return TypeError, 'body content must be a byte string'
            self.body_chunks.append(chunk)
            self.more_body = event.get('more_body', False)
            if not isinstance(self.more_body, bool):
                return TypeError, 'more_body flag must be a bool'
        elif t not in _LIFESPAN:
            return ValueError, 'Invalid ASGI event type: ' + t
        return None


def _gen_event(rnd):
    r = rnd.random()
    if r < 0.35:
        names = [b'content-type', b'x-a', b'x_b', b'set-cookie', b'X-Upper', b'1bad',
                 'str-name', b'x y', b'x-a', b'vary', None, b'caf\xe9']
        values = [b'text/plain', b'', b'caf\xe9', b'a\nb', 'str-value', None, 5,
                  b'v1', b'v2', bytearray(b'ba'), memoryview(b'mv')]
        weights_ok = rnd.random() < 0.6
        hdrs = []
        for _ in range(rnd.randint(0, 4)):
            if weights_ok:
                hdrs.append((rnd.choice([b'content-type', b'x-a', b'x_b', b'set-cookie', b'vary']),
                             rnd.choice([b'text/plain', b'', b'caf\xe9', b'v1', b'v2'])))
            else:
                hdrs.append((rnd.choice(names), rnd.choice(values)))
        ev = {'type': 'http.response.start',
              'status': rnd.choice([200, 200, 204, 404, 500, '200', None, 200.0, True])}
        if rnd.random() < 0.9:
            ev['headers'] = rnd.choice([hdrs, tuple(hdrs), iter(hdrs)])
            if not isinstance(ev['headers'], (list, tuple)):
                ev['headers'] = list(hdrs)  # keep the event re-readable by the model
        return ev
    if r < 0.8:
        ev = {'type': 'http.response.body'}
        if rnd.random() < 0.8:
            ev['body'] = rnd.choice([b'', b'x', b'yy' * 50, 'text', None, bytearray(b'z')])
        if rnd.random() < 0.7:
            ev['more_body'] = rnd.choice([True, True, False, 0, 1, None])
        return ev
    if r < 0.9:
        return {'type': rnd.choice(sorted(_LIFESPAN))}
    return {'type': rnd.choice(['bogus', 'http.request', 'websocket.accept', b'http.response.body', None, ''])}


def check_collector():
    rnd = random.Random(4242)
    n = 0
    for i in range(1500):
        n += 1
        history = [_gen_event(rnd) for _ in range(rnd.randint(0, 7))]
        real = thelpers.ASGIResponseEventCollector()
        ref = RefCollector()

        async def run():
            for ev in history:
                exp = ref.collect(ev)
                got = None
                r1 = repr(real)
                try:
                    # alternate between the two documented entry points
                    if rnd.random() < 0.5:
                        await real(ev)
                    else:
                        await real.collect(ev)
                except Exception as ex:
                    got = ex
                r2 = repr(real)
                if not isinstance(r1, str) or not isinstance(r2, str) or not r1 or not r2:
                    fail('repr() is not a non-empty str')
                if exp is None:
                    if got is not None:
                        fail('history %d: unexpected %r for %r' % (i, got, ev))
                else:
                    if type(got) is not exp[0] or exp[1] not in str(got):
                        fail('history %d: %r, expected %r for %r' % (i, got, exp, ev))
                state = (real.events, real.headers, real.status, real.body_chunks,
                         real.more_body)
                rstate = (ref.events, ref.headers, ref.status, ref.body_chunks,
                          ref.more_body)
                if state != rstate:
                    fail('history %d: state %r != %r' % (i, state, rstate))
                if got is not None:
                    break

        asyncio.run(run())

    # Non-bytes header *values* are rejected with a TypeError (text is a
    # diagnostic and is deliberately only loosely checked), *names* likewise.
    for name, value in [(b'x', 'v'), (b'x', None), (b'x', 1), (b'x', bytearray(b'v')),
                        ('x', b'v'), (None, b'v'), ('x', 'v')]:
        n += 1
        c = thelpers.ASGIResponseEventCollector()

        async def one():
            await c({'type': 'http.response.start', 'status': 200,
                     'headers': [(b'ok', b'1'), (name, value)]})
        try:
            asyncio.run(one())
        except TypeError as ex:
            if 'byte strings' not in str(ex):
                fail('TypeError text %r' % (str(ex),))
            if not isinstance(name, bytes) and 'names' not in str(ex):
                fail('TypeError text for a bad name %r' % (str(ex),))
        else:
            fail('no TypeError for %r' % ((name, value),))
        if c.headers != [('ok', '1')] or c.status is not None or len(c.events) != 1:
            fail('state after TypeError: %r' % ((c.headers, c.status, c.events),))
        if not isinstance(repr(c), str):
            fail('repr after error')

    return n


if __name__ == '__main__':
    total = check_collector()
    total += run_equivalence(20240604, 400, 'eq4')
    finish(total)
