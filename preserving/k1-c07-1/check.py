"""C07 check: request body streams deliver exactly the declared body.

Run as:  PYTHONPATH=<tree> /venv/bin/python check.py

The program drives falcon's WSGI ``BoundedStream`` (directly and through
``Request.bounded_stream``) and the ASGI ``BoundedStream`` (directly and through
``asgi.Request.stream``) with several hundred generated bodies, Content-Length
values, server chunkings / event shapes and operation histories, and compares
every single result against a small reference model written here:

  * the bytes returned, concatenated in call order, are a prefix of the first
    Content-Length bytes of the body (all of it once end-of-stream is reported);
  * a sized read never returns more than its size;
  * the underlying server stream (wsgi.input / receive()) is never asked for
    bytes beyond Content-Length (and never after the terminal event);
  * tell()/eof agree with what has been returned;
  * an http.disconnect event ends the stream instead of blocking.

In addition the complete observable trace (results, exception *classes*, eof,
tell, raw-stream requests, number of receive() calls) is hashed and compared
with a digest recorded on the UNMODIFIED tree, so that any behavioural
deviation - even one the model would tolerate - is reported.

FOCUS OF THIS COPY: change 1 (refactoring): WSGI BoundedStream size clamping extracted into the _clamp() helper shared by _read() and readlines(); extra_checks() sweeps the clamp over a size grid, short-reading servers and non-int sizes.
"""

import asyncio
import hashlib
import io
import sys

import falcon
import falcon.asgi
from falcon.asgi.stream import BoundedStream as AsgiStream
from falcon.stream import BoundedStream as WsgiStream
import falcon.testing as testing

# Digest of the full trace, recorded on the unmodified tree.
EXPECTED_DIGEST = 'f4eab64b3f34045570acfdde1df610f829eb28ae79fc510ef57f1accbd5ce98a'

FAILURES = []
TRACE = hashlib.sha256()
COUNTS = {'wsgi': 0, 'wsgi_req': 0, 'asgi': 0, 'asgi_req': 0, 'ops': 0}


def trace(*items):
    TRACE.update(repr(items).encode())
    TRACE.update(b'\n')


def fail(ctx, msg):
    if len(FAILURES) < 25:
        FAILURES.append('%s: %s' % (ctx, msg))
    else:
        FAILURES.append(None)


class Rng:
    """Tiny deterministic generator (independent of the ``random`` module)."""

    def __init__(self, seed):
        self.state = (seed * 2862933555777941757 + 3037000493) % (1 << 64)

    def below(self, n):
        self.state = (self.state * 6364136223846793005 + 1442695040888963407) % (
            1 << 64
        )
        return (self.state >> 33) % n

    def choice(self, seq):
        return seq[self.below(len(seq))]

    def body(self, n):
        alphabet = b'ab\n\n\r\x00c\n'
        return bytes(alphabet[self.below(len(alphabet))] for _ in range(n))


# ---------------------------------------------------------------------------
# WSGI
# ---------------------------------------------------------------------------


class RawInput:
    """wsgi.input double: records every request made to the server stream."""

    def __init__(self, data, budget, ctx):
        self._io = io.BytesIO(data)
        self.budget = budget  # Content-Length as understood by the framework
        self.returned = 0
        self.calls = []
        self.ctx = ctx

    def _check(self, name, size):
        self.calls.append((name, size))
        if type(size) is not int or size < 0:
            fail(self.ctx, 'unbounded request to wsgi.input: %s(%r)' % (name, size))
        elif size > self.budget - self.returned:
            fail(
                self.ctx,
                'wsgi.input asked for %d bytes with only %d left in Content-Length'
                % (size, self.budget - self.returned),
            )

    def read(self, size=-1):
        self._check('read', size)
        data = self._io.read(size)
        self.returned += len(data)
        return data

    def readline(self, size=-1):
        self._check('readline', size)
        data = self._io.readline(size)
        self.returned += len(data)
        return data

    def readlines(self, hint=-1):
        self._check('readlines', None)
        lines = self._io.readlines(hint)
        self.returned += sum(len(x) for x in lines)
        return lines

    def __iter__(self):
        return self

    def __next__(self):
        self._check('next', None)
        line = self._io.readline()
        if not line:
            raise StopIteration
        self.returned += len(line)
        return line


class WsgiModel:
    def __init__(self, data, cl):
        self.eff = data[:cl]
        self.cl = cl
        self.pos = 0

    @property
    def remaining(self):
        return self.cl - self.pos

    def clamp(self, size):
        if size is None or size < 0 or size > self.remaining:
            return self.remaining
        return size

    def read(self, size=None):
        n = self.clamp(size)
        out = self.eff[self.pos : self.pos + n]
        self.pos += len(out)
        return out

    def readline(self, limit=None):
        n = self.clamp(limit)
        window = self.eff[self.pos : self.pos + n]
        i = window.find(b'\n')
        out = window if i < 0 else window[: i + 1]
        self.pos += len(out)
        return out

    def readlines(self, hint=None):
        h = self.clamp(hint)
        lines = []
        total = 0
        while total < h:
            line = self.readline()
            if not line:
                break
            lines.append(line)
            total += len(line)
        return lines

    def next(self):
        line = self.readline()
        if not line:
            return StopIteration
        return line

    def exhaust(self, *args):
        self.pos = len(self.eff)
        return None

    @property
    def eof(self):
        return self.remaining <= 0


WSGI_SIZES = [None, -1, -7, 0, 1, 1, 2, 3, 5, 8, 64, 10**6, 'rem', 'rem+1', 'rem-1']


def wsgi_ops(rng, n):
    ops = []
    for _ in range(n):
        kind = rng.choice(
            [
                'read',
                'read',
                'read',
                'readline',
                'readline',
                'readlines',
                'next',
                'next',
                'iter_all',
                'exhaust',
                'read_noarg',
                'readline_noarg',
                'readlines_noarg',
                'exhaust_small',
            ]
        )
        ops.append((kind, rng.choice(WSGI_SIZES)))
    return ops


def run_wsgi_history(ctx, stream, raw, model, ops):
    """Apply ops to the real stream and to the model; compare everything."""
    returned = b''
    for step, (kind, size) in enumerate(ops):
        COUNTS['ops'] += 1
        where = '%s step %d %s(%r)' % (ctx, step, kind, size)
        if size == 'rem':
            size = model.remaining
        elif size == 'rem+1':
            size = model.remaining + 1
        elif size == 'rem-1':
            size = max(model.remaining - 1, 0)

        ncalls = len(raw.calls)
        try:
            if kind == 'read':
                got, want = stream.read(size), model.read(size)
                if size is not None and size >= 0 and len(got) > size:
                    fail(where, 'sized read returned %d > %d' % (len(got), size))
            elif kind == 'read_noarg':
                got, want = stream.read(), model.read()
            elif kind == 'readline':
                got, want = stream.readline(size), model.readline(size)
                if size is not None and size >= 0 and len(got) > size:
                    fail(where, 'sized readline returned %d > %d' % (len(got), size))
            elif kind == 'readline_noarg':
                got, want = stream.readline(), model.readline()
            elif kind == 'readlines':
                got, want = stream.readlines(size), model.readlines(size)
            elif kind == 'readlines_noarg':
                got, want = stream.readlines(), model.readlines()
            elif kind == 'next':
                want = model.next()
                try:
                    got = next(stream)
                except StopIteration:
                    got = StopIteration
            elif kind == 'iter_all':
                got = [line for line in stream]
                want = []
                while True:
                    line = model.next()
                    if line is StopIteration:
                        break
                    want.append(line)
            elif kind == 'exhaust':
                got, want = stream.exhaust(), model.exhaust()
            elif kind == 'exhaust_small':
                got, want = stream.exhaust(3), model.exhaust(3)
            else:
                raise AssertionError(kind)
        except Exception as ex:  # no operation above is expected to raise
            fail(where, 'unexpected %s: %s' % (type(ex).__name__, ex))
            trace('wsgi-exc', kind, size, type(ex).__name__)
            return

        if got != want:
            fail(where, 'got %r, reference model says %r' % (got, want))

        if isinstance(got, bytes):
            returned += got
        elif isinstance(got, list):
            returned += b''.join(got)
        elif kind.startswith('exhaust'):
            returned = model.eff  # discarded, but consumed

        if not model.eff.startswith(returned) and not kind.startswith('exhaust'):
            fail(where, 'returned bytes are not a prefix of the declared body')
        if raw.returned > model.cl:
            fail(where, 'server stream delivered %d > CL %d' % (raw.returned, model.cl))
        if stream.eof != model.eof:
            fail(where, 'eof is %r, model says %r' % (stream.eof, model.eof))
        if stream.eof and raw.returned != len(model.eff):
            fail(where, 'eof reported but only %d bytes consumed' % raw.returned)
        if stream._bytes_remaining != model.cl - raw.returned:
            fail(where, 'budget accounting out of sync with bytes delivered')

        trace('wsgi', kind, size, got, stream.eof, raw.calls[ncalls:])


def wsgi_direct_cases():
    rng = Rng(7001)
    for case in range(450):
        n = rng.choice([0, 0, 1, 2, 3, 5, 9, 17, 40, 100])
        data = rng.body(n)
        cl = rng.choice([0, n, n, n, max(n - 1, 0), max(n - 4, 0), n + 1, n + 50, n // 2])
        ctx = 'wsgi#%d(len=%d,cl=%d)' % (case, n, cl)
        raw = RawInput(data, cl, ctx)
        stream = WsgiStream(raw, cl)
        model = WsgiModel(data, cl)
        if stream.eof != model.eof:
            fail(ctx, 'initial eof mismatch')
        run_wsgi_history(ctx, stream, raw, model, wsgi_ops(rng, 1 + rng.below(7)))
        COUNTS['wsgi'] += 1

    # A handful of hard-coded corner histories (the "second operation" bugs).
    fixed = [
        (b'ab\ncd\nef', 8, [('readline', None), ('read', None)]),
        (b'ab\ncd\nef', 8, [('readline', 100), ('read', 100), ('read', 1)]),
        (b'ab\ncd\nef', 5, [('next', None), ('next', None), ('next', None)]),
        (b'ab\ncd\nef', 4, [('readlines', None), ('read', None)]),
        (b'ab\ncd\nef', 8, [('readlines', 1), ('readlines', 0), ('readlines', -1)]),
        (b'ab\ncd\nef', 8, [('readline', 1), ('readline', 1), ('readline', 1), ('read', 2)]),
        (b'abc', 10, [('read', 2), ('read', 50), ('read', None), ('exhaust', None)]),
        (b'abc', 0, [('read', None), ('readline', None), ('readlines', None), ('next', None)]),
        (b'\n\n\n', 2, [('iter_all', None), ('read', None)]),
        (b'abcdef', 6, [('read', 0), ('read', -1), ('read', 0)]),
        (b'abcdef', 3, [('exhaust_small', None), ('read', None), ('iter_all', None)]),
    ]
    for i, (data, cl, ops) in enumerate(fixed):
        ctx = 'wsgi-fixed#%d' % i
        raw = RawInput(data, cl, ctx)
        run_wsgi_history(ctx, WsgiStream(raw, cl), raw, WsgiModel(data, cl), ops)
        COUNTS['wsgi'] += 1


def wsgi_exhaustive_pairs():
    """Every ordered pair of operations on every small body/Content-Length."""
    singles = [
        ('read', None), ('read', -1), ('read', 0), ('read', 1), ('read', 2), ('read', 99),
        ('readline', None), ('readline', 0), ('readline', 1), ('readline', 3),
        ('readlines', None), ('readlines', 0), ('readlines', 1), ('readlines', 4),
        ('next', None), ('iter_all', None), ('exhaust', None), ('exhaust_small', None),
    ]
    bodies = [b'', b'a', b'\n', b'ab\n', b'\nab', b'a\nb\n', b'a\n\nbc\nd']
    case = 0
    for data in bodies:
        for cl in sorted({0, 1, 2, len(data), max(len(data) - 1, 0), len(data) + 2}):
            for first in singles:
                for second in singles:
                    ctx = 'wsgi-pair#%d(%r,cl=%d)' % (case, data, cl)
                    raw = RawInput(data, cl, ctx)
                    run_wsgi_history(
                        ctx, WsgiStream(raw, cl), raw, WsgiModel(data, cl),
                        [first, second, ('read', 1), ('read', None)],
                    )
                    case += 1
    COUNTS['wsgi_pairs'] = case


def wsgi_request_cases():
    rng = Rng(7002)
    for case in range(160):
        n = rng.choice([0, 1, 4, 9, 30])
        data = rng.body(n)
        header = rng.choice(
            [
                'absent',
                '',
                'abc',
                '-1',
                '-%d' % (n + 1),
                '1.5',
                '0',
                str(n),
                str(n),
                ' %d ' % n,
                '+%d' % n,
                '0%d' % n,
                str(max(n - 2, 0)),
                str(n + 3),
            ]
        )
        try:
            cl = int(header)
            if cl < 0:
                cl = 0
        except ValueError:
            cl = 0
        ctx = 'wsgi-req#%d(len=%d,header=%r)' % (case, n, header)

        env = testing.create_environ(method='POST', body=data)
        raw = RawInput(data, cl, ctx)
        env['wsgi.input'] = raw
        if header == 'absent':
            env.pop('CONTENT_LENGTH', None)
        else:
            env['CONTENT_LENGTH'] = header

        req = falcon.Request(env)
        if req.stream is not raw:
            fail(ctx, 'req.stream is not wsgi.input')
        stream = req.bounded_stream
        if req.bounded_stream is not stream:
            fail(ctx, 'bounded_stream not cached')
        if type(stream) is not WsgiStream or stream.stream is not raw:
            fail(ctx, 'bounded_stream does not wrap wsgi.input')
        if stream.stream_len != cl:
            fail(ctx, 'stream_len %r, expected %r' % (stream.stream_len, cl))
        trace('wsgi-req', header, stream.stream_len)
        run_wsgi_history(ctx, stream, raw, WsgiModel(data, cl), wsgi_ops(rng, 1 + rng.below(5)))
        if req.bounded_stream is not stream:
            fail(ctx, 'bounded_stream re-wrapped after use')
        COUNTS['wsgi_req'] += 1


# ---------------------------------------------------------------------------
# ASGI
# ---------------------------------------------------------------------------


def gen_events(rng):
    """Return a list of ASGI events that always ends with a terminal event."""
    events = []
    for _ in range(rng.below(6)):
        shape = rng.below(10)
        body = rng.body(rng.choice([0, 0, 1, 2, 3, 7, 20]))
        if shape < 6:
            events.append({'type': 'http.request', 'body': body, 'more_body': True})
        elif shape == 6:
            events.append({'type': 'http.request', 'more_body': True})  # no body key
        elif shape == 7:
            events.append({'type': 'http.request', 'body': b'', 'more_body': True})
        elif shape == 8:
            events.append({'type': 'http.request', 'body': body, 'more_body': False})
        else:
            events.append({'type': 'http.request', 'body': body})  # no more_body key
    last = rng.below(5)
    body = rng.body(rng.choice([0, 1, 4, 11]))
    if last == 0:
        events.append({'type': 'http.disconnect'})
    elif last == 1:
        events.append({'type': 'http.request', 'body': body, 'more_body': False})
    elif last == 2:
        events.append({'type': 'http.request', 'body': body})
    elif last == 3:
        events.append({'type': 'http.request'})
    else:
        events.append({'type': 'http.request', 'more_body': False})
    return events


def asgi_expect(events, preloaded, cl):
    """Reference: (effective body, number of receive() calls to consume it all)."""
    remaining = cl if cl is not None else 2**63
    got = b''
    idx = 0
    if preloaded:
        ev = events[0]
        idx = 1
        take = ev.get('body', b'')[:remaining]
        got += take
        remaining -= len(take)
        if remaining and not ev.get('more_body'):
            remaining = 0
    while remaining > 0:
        ev = events[idx]
        idx += 1
        take = ev.get('body', b'')[:remaining]
        got += take
        remaining -= len(take)
        if not ev.get('more_body'):
            remaining = 0
    return got, idx - (1 if preloaded else 0)


class Receiver:
    def __init__(self, events, ctx, yield_every):
        self.events = list(events)
        self.calls = 0
        self.ctx = ctx
        self.max_calls = None
        self.yield_every = yield_every

    async def __call__(self):
        if self.yield_every and self.calls % self.yield_every == 0:
            await asyncio.sleep(0)
        self.calls += 1
        if self.max_calls is not None and self.calls > self.max_calls:
            fail(self.ctx, 'receive() called %d times; body complete after %d'
                 % (self.calls, self.max_calls))
        if not self.events:
            fail(self.ctx, 'receive() called with no event left: would block forever')
            return {'type': 'http.disconnect'}
        # NOTE: hand out a copy so the stream cannot be affected by (or affect) us
        return dict(self.events.pop(0))


ASGI_SIZES = [None, -1, -5, 0, 1, 1, 2, 3, 7, 100, 10**6]


def asgi_ops(rng, n):
    ops = []
    for _ in range(n):
        kind = rng.choice(
            [
                'read',
                'read',
                'read',
                'read',
                'read_noarg',
                'readall',
                'iter_all',
                'iter_some',
                'exhaust',
                'close',
                'tell',
            ]
        )
        if kind == 'close' and rng.below(3):
            kind = 'read'
        ops.append((kind, rng.choice(ASGI_SIZES), 1 + rng.below(3)))
    return ops


async def run_asgi_history(ctx, stream, receiver, eff, ops):
    consumed = 0  # bytes returned or discarded so far == expected tell()
    closed = False
    pending_iter = None

    for step, (kind, size, k) in enumerate(ops):
        COUNTS['ops'] += 1
        # NOTE: The documentation forbids mixing read()/readall() with an
        #   iteration that is still in progress (a suspended iterator has not
        #   yet looked at the more_body flag of the chunk it just yielded), so
        #   a history only continues, queries or closes a suspended iteration.
        if pending_iter is not None and kind not in ('tell', 'close'):
            kind = 'iter_some'
        resumed = pending_iter is not None and kind == 'iter_some'
        where = '%s step %d %s(%r)' % (ctx, step, kind, size)
        calls_before = receiver.calls
        got = None
        exc = None
        complete = False  # op promises to consume everything
        try:
            if kind == 'read':
                got = await stream.read(size)
                if size is None or size == -1:
                    complete = True
                    want = eff[consumed:]
                elif size <= 0:
                    want = b''
                else:
                    want = eff[consumed : consumed + size]
                    if len(got) > size:
                        fail(where, 'sized read returned %d > %d' % (len(got), size))
                if got != want:
                    fail(where, 'got %r, reference model says %r' % (got, want))
                consumed += len(got)
            elif kind == 'read_noarg':
                got = await stream.read()
                complete = True
                if got != eff[consumed:]:
                    fail(where, 'got %r, model says %r' % (got, eff[consumed:]))
                consumed += len(got)
            elif kind == 'readall':
                got = await stream.readall()
                complete = True
                if got != eff[consumed:]:
                    fail(where, 'got %r, model says %r' % (got, eff[consumed:]))
                consumed += len(got)
            elif kind == 'iter_all':
                got = []
                try:
                    async for chunk in stream:
                        got.append(chunk)
                        if not chunk:
                            fail(where, 'empty chunk yielded')
                        if chunk != eff[consumed : consumed + len(chunk)]:
                            fail(where, 'iteration chunk %r not next in body' % chunk)
                        consumed += len(chunk)
                        if stream.tell() != consumed:
                            fail(where, 'tell() %d != %d mid-iteration'
                                 % (stream.tell(), consumed))
                finally:
                    pass
                complete = True
            elif kind == 'iter_some':
                got = []
                if pending_iter is None:
                    pending_iter = stream.__aiter__()
                for _ in range(k):
                    try:
                        chunk = await pending_iter.__anext__()
                    except StopAsyncIteration:
                        got.append('stop')
                        pending_iter = None
                        break
                    got.append(chunk)
                    if not chunk:
                        fail(where, 'empty chunk yielded')
                    if chunk != eff[consumed : consumed + len(chunk)]:
                        fail(where, 'iteration chunk %r not next in body' % chunk)
                    consumed += len(chunk)
            elif kind == 'exhaust':
                got = await stream.exhaust()
                consumed = len(eff)
                complete = True
            elif kind == 'close':
                got = stream.close()
                closed = True
            elif kind == 'tell':
                got = stream.tell()
            else:
                raise AssertionError(kind)
        except Exception as ex:
            exc = ex
            if kind == 'iter_some':
                pending_iter = None

        if exc is not None:
            name = type(exc).__name__
            if closed and kind != 'tell':
                if not isinstance(exc, ValueError):
                    fail(where, 'closed stream raised %s, not a ValueError' % name)
                want_cls = ValueError if kind == 'exhaust' else falcon.OperationNotAllowed
                if type(exc) is not want_cls:
                    fail(where, 'closed stream raised %s' % name)
                if not str(exc) or 'closed' not in str(exc):
                    fail(where, 'closed-stream error does not say so: %r' % str(exc))
            elif (
                kind in ('iter_all', 'iter_some')
                and type(exc) is falcon.OperationNotAllowed
                and 'iterated' in str(exc)
            ):
                pass  # documented: a second iteration of a partially read body
            else:
                fail(where, 'unexpected %s: %s' % (name, exc))
            if receiver.calls != calls_before:
                fail(where, 'receive() called by an operation that raised')
            got = 'EXC:' + name
        elif closed and kind not in ('close', 'tell') and not resumed:
            fail(where, 'operation on a closed stream did not raise')

        # ---- invariants after every operation ----
        if stream.tell() != consumed:
            fail(where, 'tell() is %d, %d bytes were returned/discarded'
                 % (stream.tell(), consumed))
        if consumed > len(eff):
            fail(where, 'more bytes returned than declared')
        if not closed:
            if stream.eof and consumed != len(eff):
                fail(where, 'eof reported after %d of %d bytes' % (consumed, len(eff)))
            if complete and exc is None and not stream.eof:
                fail(where, 'eof not reported after the body was fully consumed')
            if complete and exc is None and consumed != len(eff):
                fail(where, 'body not whole: %d of %d' % (consumed, len(eff)))
        else:
            if not stream.eof or not stream.closed:
                fail(where, 'closed stream does not report eof/closed')
        if kind in ('tell', 'close') and receiver.calls != calls_before:
            fail(where, 'receive() called by %s' % kind)
        if kind == 'read' and exc is None and size is not None and size != -1 and size <= 0:
            if receiver.calls != calls_before:
                fail(where, 'receive() called by a zero-size read')

        trace('asgi', kind, size, k, got, stream.eof, stream.tell(), stream.closed,
              receiver.calls)

    if pending_iter is not None:
        await pending_iter.aclose()


def asgi_direct_cases(loop):
    rng = Rng(7003)
    for case in range(600):
        events = gen_events(rng)
        total = sum(len(e.get('body', b'')) for e in events)
        cl = rng.choice([None, None, 0, total, total, max(total - 1, 0), total // 2,
                         total + 1, total + 40, 1, 3])
        preloaded = rng.below(4) != 0
        ctx = 'asgi#%d(cl=%r,preloaded=%r,events=%d)' % (case, cl, preloaded, len(events))
        eff, max_calls = asgi_expect(events, preloaded, cl)
        if cl is not None and len(eff) > cl:
            raise AssertionError('model bug')

        if preloaded:
            receiver = Receiver(events[1:], ctx, rng.below(3))
            stream = AsgiStream(receiver, first_event=dict(events[0]), content_length=cl)
        else:
            receiver = Receiver(events, ctx, rng.below(3))
            if rng.below(2):
                stream = AsgiStream(receiver, content_length=cl)
            else:
                stream = AsgiStream(receiver, None, cl)
        receiver.max_calls = max_calls

        if stream.tell() != 0 or stream.closed:
            fail(ctx, 'fresh stream has tell()=%r closed=%r' % (stream.tell(), stream.closed))
        if stream.eof and eff:
            fail(ctx, 'fresh stream reports eof but body is %r' % eff)
        trace('asgi-new', cl, preloaded, stream.eof)

        loop.run_until_complete(
            run_asgi_history(ctx, stream, receiver, eff, asgi_ops(rng, 1 + rng.below(7)))
        )
        COUNTS['asgi'] += 1

    fixed = [
        # (events, preloaded, cl, ops)
        ([{'type': 'http.request', 'body': b'abcdef', 'more_body': True},
          {'type': 'http.request', 'body': b'ghi'}], True, None,
         [('read', 2, 1), ('readall', None, 1), ('read', 1, 1)]),
        ([{'type': 'http.request', 'body': b'abcdef', 'more_body': True},
          {'type': 'http.request', 'body': b'ghi'}], True, 7,
         [('read', 4, 1), ('exhaust', None, 1), ('tell', None, 1)]),
        ([{'type': 'http.request', 'body': b'abcdef', 'more_body': True},
          {'type': 'http.disconnect'}], True, 100,
         [('read', 50, 1), ('read', 50, 1)]),
        ([{'type': 'http.request', 'body': b'ab', 'more_body': True},
          {'type': 'http.disconnect'}], False, None,
         [('iter_some', None, 1), ('read', 1, 1), ('iter_all', None, 1)]),
        ([{'type': 'http.request', 'body': b'abcdefgh', 'more_body': True},
          {'type': 'http.request', 'body': b'XYZ', 'more_body': False}], True, 3,
         [('read', 1, 1), ('iter_all', None, 1), ('readall', None, 1)]),
        ([{'type': 'http.request', 'body': b'ab', 'more_body': True},
          {'type': 'http.request', 'body': b'cdefgh', 'more_body': True},
          {'type': 'http.request', 'body': b'ij', 'more_body': False}], True, 5,
         [('iter_some', None, 2), ('tell', None, 1), ('exhaust', None, 1)]),
        ([{'type': 'http.request', 'body': b'ab', 'more_body': True},
          {'type': 'http.request', 'body': b'cd', 'more_body': False}], True, None,
         [('read', 1, 1), ('close', None, 1), ('read', 1, 1), ('readall', None, 1),
          ('exhaust', None, 1), ('iter_all', None, 1), ('close', None, 1)]),
    ]
    for i, (events, preloaded, cl, ops) in enumerate(fixed):
        ctx = 'asgi-fixed#%d' % i
        eff, max_calls = asgi_expect(events, preloaded, cl)
        receiver = Receiver(events[1:] if preloaded else events, ctx, 1)
        receiver.max_calls = max_calls
        stream = AsgiStream(
            receiver, first_event=events[0] if preloaded else None, content_length=cl
        )
        loop.run_until_complete(run_asgi_history(ctx, stream, receiver, eff, ops))
        COUNTS['asgi'] += 1


def asgi_exhaustive_pairs(loop):
    """Every chunking of a small body x Content-Length x terminal shape x op pair."""
    body = b'a\nbc'
    singles = [
        ('read', None, 1), ('read', -1, 1), ('read', 0, 1), ('read', 1, 1), ('read', 3, 1),
        ('read', 99, 1), ('readall', None, 1), ('iter_all', None, 1), ('exhaust', None, 1),
        ('tell', None, 1),
    ]

    def chunkings(data):
        n = len(data)
        for mask in range(1 << (n - 1)):
            parts, start = [], 0
            for i in range(1, n):
                if mask & (1 << (i - 1)):
                    parts.append(data[start:i])
                    start = i
            parts.append(data[start:])
            yield parts

    async def run_all():
        case = 0
        for parts in chunkings(body):
            for terminal in range(4):
                events = [{'type': 'http.request', 'body': c, 'more_body': True}
                          for c in parts]
                if terminal == 0:
                    events[-1]['more_body'] = False
                elif terminal == 1:
                    del events[-1]['more_body']
                elif terminal == 2:
                    events.append({'type': 'http.disconnect'})
                else:
                    events.insert(1, {'type': 'http.request', 'more_body': True})
                    events.append({'type': 'http.request', 'body': b''})
                for cl in (None, 0, 1, 3, len(body), len(body) + 5):
                    for preloaded in (True, False):
                        eff, max_calls = asgi_expect(events, preloaded, cl)
                        for first in singles:
                            for second in singles:
                                ctx = 'asgi-pair#%d(%r,t=%d,cl=%r,pre=%r)' % (
                                    case, parts, terminal, cl, preloaded)
                                evs = [dict(e) for e in events]
                                receiver = Receiver(evs[1:] if preloaded else evs, ctx, 0)
                                receiver.max_calls = max_calls
                                stream = AsgiStream(
                                    receiver,
                                    first_event=evs[0] if preloaded else None,
                                    content_length=cl,
                                )
                                await run_asgi_history(
                                    ctx, stream, receiver, eff,
                                    [first, second, ('read', 1, 1), ('read', None, 1)],
                                )
                                case += 1
        COUNTS['asgi_pairs'] = case

    loop.run_until_complete(run_all())


def asgi_request_cases(loop):
    rng = Rng(7004)
    for case in range(160):
        events = gen_events(rng)
        total = sum(len(e.get('body', b'')) for e in events)
        header = rng.choice(
            ['absent', '', 'abc', '-1', '1.5', '0', str(total), str(total),
             str(max(total - 2, 0)), str(total + 3), ' %d ' % total, '+%d' % total]
        )
        ctx = 'asgi-req#%d(header=%r)' % (case, header)

        headers = [] if header == 'absent' else [('Content-Length', header)]
        scope = testing.create_scope(method='POST', headers=headers)
        receiver = Receiver(events[1:], ctx, rng.below(3))
        req = falcon.asgi.Request(scope, receiver, first_event=dict(events[0]))

        invalid = False
        cl = None
        if header not in ('absent', ''):
            try:
                cl = int(header)
            except ValueError:
                invalid = True
            else:
                invalid = cl < 0

        try:
            stream = req.stream
        except falcon.HTTPInvalidHeader:
            if not invalid:
                fail(ctx, 'HTTPInvalidHeader for a valid Content-Length')
            if receiver.calls:
                fail(ctx, 'receive() called while rejecting the header')
            trace('asgi-req-invalid', header)
            COUNTS['asgi_req'] += 1
            continue
        if invalid:
            fail(ctx, 'invalid Content-Length accepted')
            continue

        if type(stream) is not AsgiStream:
            fail(ctx, 'req.stream is %r' % type(stream))
        if req.stream is not stream or req.bounded_stream is not stream:
            fail(ctx, 'req.stream not cached')
        if receiver.calls:
            fail(ctx, 'receive() called by lazily wrapping the stream')

        eff, max_calls = asgi_expect(events, True, cl)
        receiver.max_calls = max_calls
        trace('asgi-req', header, stream.eof, stream.tell())
        loop.run_until_complete(
            run_asgi_history(ctx, stream, receiver, eff, asgi_ops(rng, 1 + rng.below(5)))
        )
        if req.stream is not stream:
            fail(ctx, 'req.stream re-created after use (eof=%r)' % stream.eof)
        COUNTS['asgi_req'] += 1


def extra_checks(loop):
    """Change-specific additions; must hold on both trees."""
    class ShortRaw(RawInput):
        """A server stream that returns at most two bytes per call."""

        def read(self, size=-1):
            self._check('read', size)
            data = self._io.read(min(size, 2))
            self.returned += len(data)
            return data

        def readline(self, size=-1):
            self._check('readline', size)
            data = self._io.readline(min(size, 2))
            self.returned += len(data)
            return data

    sizes = [None, -(10**9), -2, -1, 0, 1, 2, 3, 4, 5, 6, 7, 8, 9, 10, 11, 10**9, 2**70]
    data = b'ab\ncd\n\nefg'
    n = 0
    for cl in range(0, len(data) + 3):
        for skip in range(0, cl + 1):
            for size in sizes:
                for meth in ('read', 'readline', 'readlines'):
                    ctx = 'clamp(cl=%d,skip=%d,%s(%r))' % (cl, skip, meth, size)
                    raw = RawInput(data, cl, ctx)
                    stream = WsgiStream(raw, cl)
                    model = WsgiModel(data, cl)
                    run_wsgi_history(ctx, stream, raw, model,
                                     [('read', skip), (meth, size), ('read', None)])
                    n += 1

                # short-reading server: the budget must follow what was delivered
                ctx = 'short(cl=%d,skip=%d,read(%r))' % (cl, skip, size)
                raw = ShortRaw(data, cl, ctx)
                stream = WsgiStream(raw, cl)
                out = b''
                for s in (skip, size, 1, size):
                    chunk = stream.read(s)
                    if s is not None and s >= 0 and len(chunk) > s:
                        fail(ctx, 'sized read returned more than its size')
                    out += chunk
                    if stream._bytes_remaining != cl - raw.returned:
                        fail(ctx, 'budget out of sync after a short read')
                    if stream.eof != (raw.returned >= cl):
                        fail(ctx, 'eof out of sync after a short read')
                line = stream.readline(size)
                out += line
                out += b''.join(stream.readlines(size))
                if not data[:cl].startswith(out) or raw.returned > cl:
                    fail(ctx, 'short reads broke the prefix/over-read promise')
                trace('short', cl, skip, size, out, stream.eof, raw.calls)
                n += 1

    # A size of the wrong type is rejected before the server stream is touched
    for bad in ('3', b'3', [], object()):
        for meth in ('read', 'readline', 'readlines'):
            ctx = 'badsize(%s(%r))' % (meth, type(bad).__name__)
            raw = RawInput(data, 5, ctx)
            stream = WsgiStream(raw, 5)
            try:
                getattr(stream, meth)(bad)
            except TypeError:
                trace('badsize', meth, type(bad).__name__, 'TypeError')
            else:
                fail(ctx, 'no TypeError')
            if raw.calls or stream._bytes_remaining != 5 or stream.eof:
                fail(ctx, 'state changed by a rejected call')
            if stream.read() != data[:5] or not stream.eof:
                fail(ctx, 'stream unusable after a rejected call')
            n += 1
    COUNTS['extra'] = n


def main():
    loop = asyncio.new_event_loop()
    try:
        wsgi_direct_cases()
        wsgi_exhaustive_pairs()
        wsgi_request_cases()
        asgi_direct_cases(loop)
        asgi_exhaustive_pairs(loop)
        asgi_request_cases(loop)
        extra_checks(loop)
    finally:
        loop.close()

    digest = TRACE.hexdigest()
    if '--print-digest' in sys.argv:
        print(digest)
    elif digest != EXPECTED_DIGEST:
        fail('trace', 'observable trace digest %s differs from the one recorded on the '
             'unmodified tree (%s)' % (digest, EXPECTED_DIGEST))

    if FAILURES:
        shown = [f for f in FAILURES if f is not None]
        for f in shown:
            print('FAIL', f)
        print('FAIL: %d problem(s); falcon from %s' % (len(FAILURES), falcon.__file__))
        return 1

    print('falcon imported from %s' % falcon.__file__)
    print('cases: %r' % (COUNTS,))
    print('PASS')
    return 0


if __name__ == '__main__':
    sys.exit(main())
