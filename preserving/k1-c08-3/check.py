#!/usr/bin/env python
"""check.py for change 3 (modernisation): Request.get_param_as_date() tests the
intermediate datetime with an explicit "is None" early return and
Request.has_param() returns the membership test directly.

Focus: has_param and get_param_as_date/get_param_as_datetime (default and
custom formats, midnight and year-1 values, required/default/store) on both
the WSGI and the ASGI request class, next to every other typed getter, the
parser and the to_query_str round trip.

Run as:  PYTHONPATH=<falcon tree> /venv/bin/python check.py

The program compares falcon's query-string machinery (parse_query_string,
decode, the Request/asgi.Request parameter mapping, every typed getter and
to_query_str) against an independent, deliberately naive reference model
written below.  It prints PASS and exits 0 when every case agrees.
"""

import itertools
import json
import math
import random
import sys
import uuid
from datetime import date, datetime

import falcon
import falcon.asgi
from falcon import testing
from falcon.util import uri as furi
from falcon.util.misc import to_query_str

FOCUS = 'date'  # which part of the harness gets the larger budget

RNG = random.Random(0xC08)
FAILURES = []
COUNTS = {}


def count(what, n=1):
    COUNTS[what] = COUNTS.get(what, 0) + n


def fail(msg):
    FAILURES.append(msg)
    if len(FAILURES) >= 25:
        finish()


def finish():
    if FAILURES:
        print('FAIL (%d shown)' % len(FAILURES))
        for f in FAILURES:
            print('  ' + f)
        sys.exit(1)
    total = sum(COUNTS.values())
    print('cases: ' + ', '.join('%s=%d' % kv for kv in sorted(COUNTS.items())))
    print('falcon from: ' + falcon.__file__)
    print('PASS (%d cases)' % total)
    sys.exit(0)


# ---------------------------------------------------------------------------
# Reference model
# ---------------------------------------------------------------------------

_HEX = '0123456789abcdefABCDEF'


def ref_decode(s, plus=True):
    """Percent/plus decoding, UTF-8, malformed escapes kept literally."""
    if plus:
        s = s.replace('+', ' ')
    b = s.encode('utf-8')
    out = bytearray()
    i = 0
    n = len(b)
    while i < n:
        c = b[i]
        if c == 0x25 and i + 2 < n and chr(b[i + 1]) in _HEX and chr(b[i + 2]) in _HEX:
            out.append(int(b[i + 1 : i + 3].decode('ascii'), 16))
            i += 3
        else:
            out.append(c)
            i += 1
    return out.decode('utf-8', 'replace')


def ref_parse(qs, keep_blank, csv):
    params = {}
    for field in qs.split('&'):
        if '=' in field:
            idx = field.index('=')
            k, v = field[:idx], field[idx + 1 :]
        else:
            k, v = field, ''
        if v == '':
            if not keep_blank or k == '':
                continue
        name = ref_decode(k)
        if csv and ',' in v:
            single = False
            vals = [ref_decode(e) for e in v.split(',') if keep_blank or e != '']
        else:
            single = True
            vals = [ref_decode(v)]
        if name in params:
            old = params[name]
            if not isinstance(old, list):
                old = [old]
            params[name] = old + vals
        elif single:
            params[name] = vals[0]
        else:
            params[name] = vals
    return params


def same_mapping(a, b):
    """Equality that also distinguishes str from [str] and checks types."""
    if type(a) is not dict or type(b) is not dict:
        return False
    if list(a.keys()) != list(b.keys()):
        return False
    for k in a:
        va, vb = a[k], b[k]
        if type(va) is not type(vb):
            return False
        if va != vb:
            return False
        if type(k) is not str:
            return False
        if isinstance(va, list):
            if any(type(x) is not str for x in va):
                return False
        elif type(va) is not str:
            return False
    return True


# ---------------------------------------------------------------------------
# Request construction (WSGI and ASGI)
# ---------------------------------------------------------------------------

OPTION_COMBOS = [(kb, csv) for kb in (False, True) for csv in (False, True)]


def make_options(keep_blank, csv):
    o = falcon.RequestOptions()
    o.keep_blank_qs_values = keep_blank
    o.auto_parse_qs_csv = csv
    return o


OPTIONS = {combo: make_options(*combo) for combo in OPTION_COMBOS}


async def _receive():  # pragma: no cover - never awaited
    return {'type': 'http.disconnect'}


def wsgi_req(qs, combo):
    env = testing.create_environ()
    env['QUERY_STRING'] = qs
    return falcon.Request(env, options=OPTIONS[combo])


def asgi_req(qs, combo):
    scope = testing.create_scope()
    scope['query_string'] = qs.encode('utf-8')
    return falcon.asgi.Request(scope, _receive, options=OPTIONS[combo])


MAKERS = (('wsgi', wsgi_req), ('asgi', asgi_req))


# ---------------------------------------------------------------------------
# Part A: parse_query_string / decode against the reference
# ---------------------------------------------------------------------------

ALPHABET = ['&', '=', ',', '+', '%', '4', '1', 'a', 'F', 'z', '\x00', 'é']
EXTRA = ['C', '3', 'A', '9', 'e', '2', 'c', 'b', ' ', ';', '€', '\U0001f600', 'G', '-']

CORNERS = [
    '', '&', '&&', '=', '==', '=&=', 'a', 'a=', '=a', 'a==', 'a=b=c', 'a&a', 'a=&a=',
    'a=1&a=2&a=3', 'a=1,2&a=3', 'a=1&a=2,3', 'a=,', 'a=,,', 'a=1,,3', 'a=,&a=,',
    'a=1&a=,', 'a=,&a=1', 'a=%2C', 'a=1%2C2,3', 'a=%2c,%2C', 'a=%', 'a=%%', 'a=%4',
    'a=%41', 'a=%4G', 'a=%G4', 'a=%zz', '%=%', '%41=%42', '%4=%4', 'a=+', '+=+',
    'a=%2B', 'a=%2b+', 'a=%C3%A9', 'a=%c3%a9', 'a=%C3', 'a=%A9', 'a=%E2%82%AC',
    'a=%F0%9F%98%80', 'a=%00', 'a=\x00', '\x00=\x00', 'a=é', 'é=é',
    '%C3%A9=1&é=2', 'a=1&%61=2', 'a=1,2&%61=3,4', 'a+b=c+d', 'a%20b=c%20d',
    'a=1;b=2', 'a=b&c', 'c&a=b', 'a=b&&c=d', '&a=b&', 'A=1&a=2', 'a=,%2C,',
    'a=%2C,%2C&a=x', 'a=1,2,3,4,5,6,7,8,9', 'a=%41%42%43%44%45%46%47%48%49',
    'a=%41%4%43%%45%4G%47%48%49%', 'x=%25', 'x=%2525', 'x=%%32%35', 'a=b,c=d',
    'a,b=c', 'a,b=c&a,b=d', ',=,', ',', '%2C=%2C', 'a=' + 'x' * 300, 'a=' + '%41' * 100,
    'a=' + ',' * 50, '&'.join('k%d=v%d' % (i, i) for i in range(40)),
    '&'.join('k=%d' % i for i in range(40)), '&'.join('k=%d,%d' % (i, i) for i in range(20)),
]


def random_qs(max_len):
    alpha = ALPHABET + EXTRA
    # weighted toward the structural characters
    structural = ['&', '=', ',', '+', '%']
    n = RNG.randint(0, max_len)
    out = []
    for _ in range(n):
        if RNG.random() < 0.45:
            out.append(RNG.choice(structural))
        else:
            out.append(RNG.choice(alpha))
    return ''.join(out)


def check_parse_one(qs):
    for keep_blank, csv in OPTION_COMBOS:
        expected = ref_parse(qs, keep_blank, csv)
        try:
            got = furi.parse_query_string(qs, keep_blank=keep_blank, csv=csv)
        except Exception as ex:  # parsing must never fail
            fail('parse_query_string(%r, %r, %r) raised %r' % (qs, keep_blank, csv, ex))
            continue
        if not same_mapping(got, expected):
            fail(
                'parse_query_string(%r, keep_blank=%r, csv=%r) = %r, reference %r'
                % (qs, keep_blank, csv, got, expected)
            )
        count('parse')
    # positional call form and defaults
    if furi.parse_query_string(qs) != ref_parse(qs, False, False):
        fail('parse_query_string(%r) default-args mismatch' % (qs,))
    if furi.parse_query_string(qs, True, True) != ref_parse(qs, True, True):
        fail('parse_query_string(%r, True, True) positional mismatch' % (qs,))


def part_parse(exhaustive_len, n_random):
    for qs in CORNERS:
        check_parse_one(qs)
    for n in range(0, exhaustive_len + 1):
        for tup in itertools.product(ALPHABET, repeat=n):
            check_parse_one(''.join(tup))
    for _ in range(n_random):
        check_parse_one(random_qs(40))
    # decode on its own, both plus modes
    for qs in CORNERS + [random_qs(30) for _ in range(n_random)]:
        for plus in (True, False):
            got = furi.decode(qs, unquote_plus=plus)
            exp = ref_decode(qs, plus)
            if got != exp or type(got) is not str:
                fail('decode(%r, unquote_plus=%r) = %r, reference %r' % (qs, plus, got, exp))
            count('decode')
    # the input is never mutated and results are independent objects
    qs = 'a=1,2&a=3&b=%41'
    r1 = furi.parse_query_string(qs, True, True)
    r2 = furi.parse_query_string(qs, True, True)
    r1['a'].append('zzz')
    if r2 != ref_parse(qs, True, True):
        fail('results of two parses are aliased')
    # non-str input keeps raising TypeError
    for bad in (b'a=1', None, 5):
        try:
            furi.parse_query_string(bad)
        except TypeError:
            pass
        except AttributeError:
            # None / int have no .split(); the unmodified tree raises TypeError
            # from the "in" test first, so this would be a behaviour change.
            fail('parse_query_string(%r) raised AttributeError, not TypeError' % (bad,))
        else:
            fail('parse_query_string(%r) did not raise' % (bad,))


# ---------------------------------------------------------------------------
# Part B: the request mapping equals the reference (WSGI + ASGI)
# ---------------------------------------------------------------------------


def part_request_mapping(exhaustive_len, n_random):
    cases = list(CORNERS)
    for n in range(0, exhaustive_len + 1):
        cases.extend(''.join(t) for t in itertools.product(ALPHABET, repeat=n))
    cases.extend(random_qs(30) for _ in range(n_random))
    for qs in cases:
        for combo in OPTION_COMBOS:
            expected = ref_parse(qs, *combo)
            for label, maker in MAKERS:
                try:
                    req = maker(qs, combo)
                except Exception as ex:
                    fail('%s Request(%r, %r) raised %r' % (label, qs, combo, ex))
                    continue
                if not same_mapping(req.params, expected):
                    fail(
                        '%s params for %r %r = %r, reference %r'
                        % (label, qs, combo, req.params, expected)
                    )
                if req.query_string != qs:
                    fail('%s query_string changed for %r' % (label, qs))
                for name in list(expected) + ['nope', '']:
                    hp = req.has_param(name)
                    if hp is not (name in expected):
                        fail('%s has_param(%r) on %r = %r' % (label, name, qs, hp))
                    count('has_param')
                count('request-mapping')


# ---------------------------------------------------------------------------
# Part C: typed getters
# ---------------------------------------------------------------------------

MISSING = object()


def ref_last(params, name):
    """Last occurrence; MISSING if absent; IndexError marker if empty list."""
    if name not in params:
        return MISSING
    v = params[name]
    if isinstance(v, list):
        if not v:
            return IndexError
        return v[-1]
    return v


class Outcome:
    """('value', v) | ('missing',) | ('invalid',)"""


def run_getter(fn, name, kwargs, label, qs):
    """Return (kind, value, store) where kind in value/missing/invalid/other."""
    store = {}
    try:
        val = fn(name, store=store, **kwargs)
    except falcon.HTTPMissingParam as ex:
        _check_400(ex, label, qs)
        if ex.title != 'Missing parameter':
            fail('%s %r: wrong title %r' % (label, qs, ex.title))
        return ('missing', None, store)
    except falcon.HTTPInvalidParam as ex:
        _check_400(ex, label, qs)
        if ex.title != 'Invalid parameter':
            fail('%s %r: wrong title %r' % (label, qs, ex.title))
        if not ex.description.startswith('The "%s" parameter is invalid. ' % name):
            fail('%s %r: odd description %r' % (label, qs, ex.description))
        return ('invalid', ex, store)
    except Exception as ex:
        return ('other', ex, store)
    return ('value', val, store)


def _check_400(ex, label, qs):
    if not isinstance(ex, falcon.HTTPBadRequest) or ex.status != falcon.HTTP_400:
        fail('%s %r: %r is not a 400' % (label, qs, ex))
    if getattr(ex, 'status_code', 400) != 400:
        fail('%s %r: status_code %r' % (label, qs, ex.status_code))


def same_value(a, b):
    if type(a) is not type(b):
        return False
    if isinstance(a, float) and math.isnan(a):
        return math.isnan(b)
    return a == b


def expect(label, qs, name, got, kind, value=None, stored=True):
    gkind, gval, gstore = got
    if gkind != kind:
        fail('%s qs=%r name=%r: outcome %s (%r), expected %s (%r)' % (label, qs, name, gkind, gval, kind, value))
        return
    if kind == 'value':
        if not same_value(gval, value):
            fail('%s qs=%r name=%r: value %r, expected %r' % (label, qs, name, gval, value))
        if stored:
            if list(gstore.keys()) != [name] or not same_value(gstore[name], value):
                fail('%s qs=%r name=%r: store %r, expected {%r: %r}' % (label, qs, name, gstore, name, value))
        elif gstore:
            fail('%s qs=%r name=%r: store %r, expected empty' % (label, qs, name, gstore))
    elif gstore:
        fail('%s qs=%r name=%r: store %r written on %s' % (label, qs, name, gstore, kind))


TRUE_S = {'true', 'True', 't', 'yes', 'y', '1', 'on'}
FALSE_S = {'false', 'False', 'f', 'no', 'n', '0', 'off'}

SENTINEL = object()


def check_getters(req, label, qs, expected_params, names, bounds):
    for name in names:
        raw = ref_last(expected_params, name)
        if raw is IndexError:
            # pre-existing quirk of the pinned tree (csv on, blanks dropped,
            # value made of commas only => empty list): scalar getters raise
            # IndexError.  Not in scope; only the list getter is checked.
            got = run_getter(req.get_param_as_list, name, {}, label, qs)
            expect(label + ' list', qs, name, got, 'value', [])
            count('getter')
            continue

        for required in (False, True):
            # ---- absent -------------------------------------------------
            if raw is MISSING:
                getters = [
                    (req.get_param, {}),
                    (req.get_param_as_int, {}),
                    (req.get_param_as_int, {'min_value': 0, 'max_value': 1}),
                    (req.get_param_as_float, {}),
                    (req.get_param_as_float, {'min_value': -1.5}),
                    (req.get_param_as_uuid, {}),
                    (req.get_param_as_bool, {}),
                    (req.get_param_as_bool, {'blank_as_true': False}),
                    (req.get_param_as_list, {}),
                    (req.get_param_as_list, {'transform': int}),
                    (req.get_param_as_datetime, {}),
                    (req.get_param_as_date, {}),
                    (req.get_param_as_date, {'format_string': '%Y%m%d'}),
                    (req.get_param_as_json, {}),
                ]
                for fn, kw in getters:
                    for default in (MISSING, None, SENTINEL, 0, '', False):
                        kw2 = dict(kw, required=required)
                        if default is not MISSING:
                            kw2['default'] = default
                        got = run_getter(fn, name, kw2, label, qs)
                        if required:
                            expect(label + ' ' + fn.__name__, qs, name, got, 'missing')
                        else:
                            gkind, gval, gstore = got
                            want = None if default is MISSING else default
                            if gkind != 'value' or gval is not want or gstore:
                                fail('%s %s qs=%r name=%r absent: got %r, default %r' % (label, fn.__name__, qs, name, got, want))
                        count('getter')
                continue

            # ---- present ------------------------------------------------
            base = {'required': required, 'default': SENTINEL}

            got = run_getter(req.get_param, name, base, label, qs)
            expect(label + ' get_param', qs, name, got, 'value', raw)
            count('getter')

            # int
            try:
                iv = int(raw)
            except ValueError:
                iv = None
            for lo, hi in bounds:
                kw = dict(base)
                if lo is not MISSING:
                    kw['min_value'] = lo
                if hi is not MISSING:
                    kw['max_value'] = hi
                got = run_getter(req.get_param_as_int, name, kw, label, qs)
                lo_ = None if lo is MISSING else lo
                hi_ = None if hi is MISSING else hi
                if iv is None:
                    expect(label + ' int', qs, name, got, 'invalid')
                elif lo_ is not None and iv < lo_:
                    expect(label + ' int', qs, name, got, 'invalid')
                    _check_bound_msg(got, lo_, label, qs)
                elif hi_ is not None and hi_ < iv:
                    expect(label + ' int', qs, name, got, 'invalid')
                    _check_bound_msg(got, hi_, label, qs)
                else:
                    expect(label + ' int', qs, name, got, 'value', iv)
                count('getter')

            # float
            try:
                fv = float(raw)
            except ValueError:
                fv = None
            for lo, hi in bounds:
                kw = dict(base)
                if lo is not MISSING:
                    kw['min_value'] = lo
                if hi is not MISSING:
                    kw['max_value'] = hi
                got = run_getter(req.get_param_as_float, name, kw, label, qs)
                lo_ = None if lo is MISSING else lo
                hi_ = None if hi is MISSING else hi
                if fv is None:
                    expect(label + ' float', qs, name, got, 'invalid')
                elif lo_ is not None and fv < lo_:
                    expect(label + ' float', qs, name, got, 'invalid')
                    _check_bound_msg(got, lo_, label, qs)
                elif hi_ is not None and hi_ < fv:
                    expect(label + ' float', qs, name, got, 'invalid')
                    _check_bound_msg(got, hi_, label, qs)
                else:
                    expect(label + ' float', qs, name, got, 'value', fv)
                count('getter')

            # bool
            for bat in (MISSING, True, False):
                kw = dict(base)
                if bat is not MISSING:
                    kw['blank_as_true'] = bat
                got = run_getter(req.get_param_as_bool, name, kw, label, qs)
                if raw in TRUE_S:
                    expect(label + ' bool', qs, name, got, 'value', True)
                elif raw in FALSE_S:
                    expect(label + ' bool', qs, name, got, 'value', False)
                elif raw == '':
                    expect(label + ' bool', qs, name, got, 'value', True if bat is MISSING else bat)
                else:
                    expect(label + ' bool', qs, name, got, 'invalid')
                count('getter')

            # uuid
            got = run_getter(req.get_param_as_uuid, name, base, label, qs)
            try:
                uv = uuid.UUID(raw)
            except ValueError:
                expect(label + ' uuid', qs, name, got, 'invalid')
            else:
                expect(label + ' uuid', qs, name, got, 'value', uv)
            count('getter')

            # datetime / date
            for fmt in (MISSING, '%Y-%m-%dT%H:%M:%S%z', '%Y-%m-%d', '%Y%m%d', '%H:%M', '%d/%m/%Y %H.%M'):
                kw = dict(base)
                if fmt is not MISSING:
                    kw['format_string'] = fmt
                got = run_getter(req.get_param_as_datetime, name, kw, label, qs)
                try:
                    dv = datetime.strptime(raw, '%Y-%m-%dT%H:%M:%S%z' if fmt is MISSING else fmt)
                except ValueError:
                    expect(label + ' datetime', qs, name, got, 'invalid')
                else:
                    expect(label + ' datetime', qs, name, got, 'value', dv)
                count('getter')

                got = run_getter(req.get_param_as_date, name, kw, label, qs)
                try:
                    dv = datetime.strptime(raw, '%Y-%m-%d' if fmt is MISSING else fmt)
                except ValueError:
                    expect(label + ' date', qs, name, got, 'invalid')
                else:
                    d = dv.date()
                    if type(d) is not date:
                        fail('reference date type')
                    expect(label + ' date', qs, name, got, 'value', d)
                count('getter')

            # list
            full = expected_params[name]
            full = full if isinstance(full, list) else [full]
            got = run_getter(req.get_param_as_list, name, base, label, qs)
            expect(label + ' list', qs, name, got, 'value', list(full))
            for transform in (int, float, str.upper, uuid.UUID):
                got = run_getter(req.get_param_as_list, name, dict(base, transform=transform), label, qs)
                try:
                    tv = [transform(x) for x in full]
                except ValueError:
                    expect(label + ' list/transform', qs, name, got, 'invalid')
                else:
                    gk, gv, gs = got
                    if gk != 'value' or len(gv) != len(tv) or not all(same_value(a, b) for a, b in zip(gv, tv)):
                        fail('%s list/transform qs=%r name=%r: got %r expected %r' % (label, qs, name, got, tv))
                    elif gs.get(name) is not gv:
                        fail('%s list/transform qs=%r name=%r: store %r' % (label, qs, name, gs))
                count('getter')

            # json
            got = run_getter(req.get_param_as_json, name, base, label, qs)
            try:
                if raw == '':
                    raise ValueError('empty')
                jv = json.loads(raw)
            except ValueError:
                expect(label + ' json', qs, name, got, 'invalid')
            else:
                gk, gv, gs = got
                if gk != 'value' or not _json_same(gv, jv) or list(gs) != [name] or not _json_same(gs[name], jv):
                    fail('%s json qs=%r name=%r: got %r expected %r' % (label, qs, name, got, jv))
            count('getter')

            # store=None (the default) must be accepted too
            if req.get_param(name) != raw:
                fail('%s get_param(%r) without store on %r' % (label, name, qs))


def _json_same(a, b):
    return json.dumps(a, sort_keys=True) == json.dumps(b, sort_keys=True) and type(a) is type(b)


def _check_bound_msg(got, bound, label, qs):
    """The description of a range error names the violated bound."""
    if got[0] != 'invalid':
        return
    desc = got[1].description
    if str(bound) not in desc:
        fail('%s %r: range error %r does not mention bound %r' % (label, qs, desc, bound))


BOUNDS_SMALL = [(MISSING, MISSING), (0, MISSING), (MISSING, 10), (-5, 5), (None, None)]
BOUNDS_LARGE = BOUNDS_SMALL + [
    (1, 1), (5, -5), (-1, MISSING), (MISSING, -1), (0, 0), (-10**30, 10**30),
    (0.5, 2.5), (-0.0, 0.0), (float('-inf'), float('inf')), (float('inf'), MISSING),
    (MISSING, float('-inf')), (float('nan'), float('nan')), (None, 3), (3, None),
    (True, MISSING), (MISSING, False), (41, 43), (42, 42), (43, MISSING), (MISSING, 41),
]

VALUE_POOL = [
    '', '0', '1', '-1', '+1', '42', '-42', ' 42 ', '4_2', '042', '0x10', '1e3', '1.5', '-1.5',
    '.5', '5.', 'nan', 'NaN', '-inf', 'inf', 'Infinity', '1e400', '-0', '-0.0', '10', '11', '5', '6',
    '-5', '-6', '٤٢', '99999999999999999999999999', '-99999999999999999999999999',
    'true', 'True', 'TRUE', 't', 'T', 'yes', 'y', 'on', 'On', 'false', 'False', 'FALSE', 'f', 'no',
    'n', 'off', '0 ', ' ', 'null', '[]', '{}', '{"a":1}', '[1,2]', '"x"', '{"a":', 'NaN', '1 2',
    '64be949b-3433-4d36-a4a8-9f19d352fee8', 'BE71ECAA-F719-4D42-87FD-32613C2EEB60',
    '81c8155CD6de443B949539Fa8FB239b5', '{81c8155C-D6de-443B-9495-39Fa8FB239b5}',
    'urn:uuid:64be949b-3433-4d36-a4a8-9f19d352fee8', '64be949b-3433-4d36-a4a8-9f19d352fee',
    '00000000-0000-0000-0000-000000000000',
    '2024-02-29', '2023-02-29', '2024-01-01', '0001-01-01', '9999-12-31', '20240229', '2024-1-1',
    '2024-01-01T00:00:00Z', '2024-01-01T00:00:00+0000', '2024-01-01T23:59:59-05:00',
    '2024-01-01T00:00:00', '0001-01-01T00:00:00Z', '00:00', '23:59', '24:00', '01/02/2024 03.04',
    '1900-01-01', '1970-01-01', 'a', 'A', 'é', '\x00', 'x,y', 'x y', '%', '%41',
]


def encode_for_qs(s):
    """Percent-encode everything so that the value arrives verbatim."""
    return ''.join('%%%02X' % b for b in s.encode('utf-8'))


def part_getters(n_queries, bounds, exhaustive_len):
    queries = []
    # every pool value once as a single occurrence, once as the last of several,
    # and once as a CSV tail
    for v in VALUE_POOL:
        e = encode_for_qs(v)
        queries.append('p=' + e)
        queries.append('p=zzz&p=' + e)
        queries.append('p=1,2,' + e)
        queries.append('p=' + e + '&q=' + e + '&p=' + e)
    for v in VALUE_POOL:
        queries.append('p=' + v.replace('&', '').replace('#', ''))
    queries += CORNERS
    for _ in range(n_queries):
        k = RNG.randint(1, 4)
        fields = []
        for _ in range(k):
            name = RNG.choice(['p', 'q', 'p', '%70', ''])
            vals = [RNG.choice(VALUE_POOL) for _ in range(RNG.randint(1, 3))]
            style = RNG.random()
            if style < 0.4:
                val = ','.join(encode_for_qs(x) for x in vals)
            elif style < 0.7:
                val = encode_for_qs(vals[0])
            else:
                val = vals[0].replace('&', '')
            fields.append(name + '=' + val if RNG.random() < 0.9 else name)
        queries.append('&'.join(fields))
    for n in range(0, exhaustive_len + 1):
        queries.extend(''.join(t) for t in itertools.product(ALPHABET, repeat=n))

    for qs in queries:
        for combo in OPTION_COMBOS:
            expected = ref_parse(qs, *combo)
            names = list(expected)[:4] + ['absent']
            for label, maker in MAKERS:
                req = maker(qs, combo)
                if not same_mapping(req.params, expected):
                    fail('%s params for %r %r = %r, reference %r' % (label, qs, combo, req.params, expected))
                    continue
                check_getters(req, label, qs, expected, names, bounds)
                # getters never modify the mapping
                if not same_mapping(req.params, expected):
                    fail('%s getters mutated params for %r' % (label, qs))


# ---------------------------------------------------------------------------
# Part D: to_query_str round trip
# ---------------------------------------------------------------------------

RT_ATOMS = ['', 'a', 'b', 'A', '1', ' ', '+', '%', '%41', '&', '=', ',', ',,', '?', '#', '/', '~', '-._',
            'é', '€', '\U0001f600', '\x00', 'a b', 'a+b', 'a,b', 'a=b&c=d', '%2C', '%zz', 'true']


def random_text():
    return ''.join(RNG.choice(RT_ATOMS) for _ in range(RNG.randint(0, 3)))


def part_roundtrip(n):
    fixed = [
        {}, {'a': 'b'}, {'a': ''}, {'a': ['1', '2']}, {'a': ['', '']}, {'a': [',', ',']},
        {'a b': ['x y', '&=']}, {'é': ['€', '%']}, {'a': 'b', 'c': ['d', 'e', 'f']},
        {'%41': 'A', 'A': '%41'}, {'a': ['1', '', '3']}, {'+': ['+', ' ']},
    ]
    cases = list(fixed)
    for _ in range(n):
        d = {}
        for _ in range(RNG.randint(0, 4)):
            key = random_text() or RNG.choice(['k', 'key', 'é'])
            if RNG.random() < 0.5:
                d[key] = random_text()
            else:
                d[key] = [random_text() for _ in range(RNG.randint(2, 4))]
        cases.append(d)
    for d in cases:
        for comma in (True, False):
            for prefix in (True, False):
                s = to_query_str(d, comma_delimited_lists=comma, prefix=prefix)
                if not d:
                    if s != '':
                        fail('to_query_str({}) = %r' % (s,))
                    continue
                if prefix:
                    if not s.startswith('?'):
                        fail('to_query_str prefix missing: %r' % (s,))
                    s = s[1:]
                elif s.startswith('?'):
                    fail('to_query_str prefix present: %r' % (s,))
                if any(ord(c) > 127 for c in s):
                    fail('to_query_str produced non-ASCII %r' % (s,))
                back = furi.parse_query_string(s, keep_blank=True, csv=comma)
                if not same_mapping(back, d):
                    fail('round trip %r -> %r -> %r (comma=%r)' % (d, s, back, comma))
                if not same_mapping(ref_parse(s, True, comma), d):
                    fail('reference round trip %r -> %r (comma=%r)' % (d, s, comma))
                # and through real requests
                for label, maker in MAKERS:
                    req = maker(s, (True, comma))
                    if not same_mapping(req.params, d):
                        fail('%s round trip %r -> %r -> %r' % (label, d, s, req.params))
                count('roundtrip')
    # non-string scalars are rendered via str(); booleans lower-case
    s = to_query_str({'i': 5, 'f': 1.5, 't': True, 'x': False, 'n': None, 'l': [1, True, 'a b']}, prefix=False)
    if s != 'i=5&f=1.5&t=true&x=false&n=None&l=1,True,a%20b':
        fail('to_query_str scalars: %r' % (s,))
    s = to_query_str({'l': [1, True, False, 'a b'], 'e': []}, comma_delimited_lists=False)
    if s != '?l=1&l=true&l=false&l=a%20b':
        fail('to_query_str multi: %r' % (s,))
    if to_query_str(None) != '' or to_query_str({}) != '':
        fail('to_query_str empty')


# ---------------------------------------------------------------------------


def main():
    big = FOCUS
    part_parse(exhaustive_len=4 if big == 'parse' else 3, n_random=6000 if big == 'parse' else 1500)
    part_request_mapping(exhaustive_len=3 if big in ('parse', 'date') else 2,
                         n_random=1500 if big in ('parse', 'date') else 400)
    part_getters(
        n_queries=500 if big in ('getters', 'date') else 150,
        bounds=BOUNDS_LARGE if big == 'getters' else BOUNDS_SMALL,
        exhaustive_len=2 if big in ('getters', 'date') else 1,
    )
    part_roundtrip(1500 if big == 'parse' else 500)
    finish()


if __name__ == '__main__':
    main()
