"""Check for change 1 (refactoring of Request.netloc, WSGI + ASGI twins).

Exercises host / port / netloc and the memoised URL composition
(uri, prefix, relative_uri, forwarded_host, forwarded_uri, forwarded_prefix)
against an independent reference model, for requests with and without a
Host header, on every scheme, with default and non-default server ports.

Run as:  PYTHONPATH=<tree> /venv/bin/python check.py
"""

import itertools
import random
import sys

import falcon
import falcon.asgi
from falcon import testing

random.seed(90901)

FAILURES = []
CASES = 0


def fail(msg):
    FAILURES.append(msg)
    if len(FAILURES) > 20:
        finish()


def finish():
    if FAILURES:
        for f in FAILURES[:20]:
            print('FAIL:', f)
        print('FAIL (%d failures, %d cases)' % (len(FAILURES), CASES))
        sys.exit(1)
    print('PASS (%d cases)' % CASES)
    sys.exit(0)


async def _receive():  # pragma: no cover - never awaited
    return {'type': 'http.disconnect'}


def rand_case(name):
    return ''.join(random.choice((c.lower(), c.upper())) for c in name)


# --------------------------------------------------------------------------
# Request factories with full control over Host / server / scheme
# --------------------------------------------------------------------------


def make_wsgi(scheme, server_name, server_port, host_header, path, qs, root, extra):
    env = testing.create_environ(path=path, query_string=qs, scheme=scheme)
    env.pop('HTTP_HOST', None)
    env['SERVER_NAME'] = server_name
    env['SERVER_PORT'] = server_port
    env['SCRIPT_NAME'] = root
    if host_header is not None:
        env['HTTP_HOST'] = host_header
    for name, value in extra:
        env['HTTP_' + name.upper().replace('-', '_')] = value
    return falcon.Request(env)


def make_asgi(
    scheme, server, host_header, path, qs, root, extra, websocket=False, omit_scheme=False
):
    scope = testing.create_scope(path=path, query_string=qs, scheme='http')
    if websocket:
        scope['type'] = 'websocket'
        scope.pop('method', None)
    if omit_scheme:
        scope.pop('scheme', None)
    else:
        scope['scheme'] = scheme
    scope['root_path'] = root
    headers = []
    if host_header is not None:
        headers.append((b'host', host_header.encode('latin1')))
    for name, value in extra:
        headers.append((name.lower().encode('latin1'), value.encode('latin1')))
    scope['headers'] = headers
    if server == 'absent':
        scope.pop('server', None)
    elif server == 'none':
        scope['server'] = None
    elif server == 'iter':
        scope['server'] = iter(['iter.example', 8443])
    else:
        scope['server'] = server
    return falcon.asgi.Request(scope, _receive)


# --------------------------------------------------------------------------
# Structured generation of Host header values: we know the expected
# (host, port) by construction, no parsing involved in the model.
# --------------------------------------------------------------------------

LABEL_CHARS = 'abcdefghijklmnopqrstuvwxyzABCDEFGHIJKLMNOPQRSTUVWXYZ0123456789-'


def gen_regname():
    n = random.randint(1, 4)
    return '.'.join(
        ''.join(random.choice(LABEL_CHARS) for _ in range(random.randint(1, 8)))
        for _ in range(n)
    )


def gen_ipv4():
    return '.'.join(str(random.randint(0, 255)) for _ in range(4))


def gen_ipv6():
    forms = [
        '::1',
        '::',
        '2001:db8::1',
        'fe80::1%25eth0',
        '::ffff:192.0.2.1',
        ':'.join('%x' % random.randint(0, 0xFFFF) for _ in range(8)),
        '2001:db8:' + ':'.join('%x' % random.randint(0, 0xFFFF) for _ in range(6)),
    ]
    return random.choice(forms)


def gen_host_header():
    """Return (header_value, expected_host, expected_port_or_None)."""
    kind = random.choice(('reg', 'reg', 'v4', 'v6'))
    port = random.choice(
        (None, None, 0, 1, 80, 443, 8080, 8000, 65535, random.randint(1, 65535))
    )
    if kind == 'reg':
        name = gen_regname()
        shown = name
    elif kind == 'v4':
        name = gen_ipv4()
        shown = name
    else:
        name = gen_ipv6()
        shown = '[' + name + ']'
    if port is None:
        return shown, name, None
    port_text = random.choice((str(port), '%05d' % port))
    return shown + ':' + port_text, name, port


# Arbitrary (possibly garbage) Host values: netloc/uri never parse them.
GARBAGE_HOSTS = [
    '',
    ' ',
    ':',
    'a:b:c',
    'host:notaport',
    '[::1',
    '[]',
    '[::1]:',
    'xn--nxasmq6b.example',
    'EXAMPLE.com:080',
    'h\xe9llo.example',
    'a' * 300,
    '..',
    'exa mple.com',
    'example.com:-1',
    '[v1.fe80::a+en1]:99',
]


def default_port_for(scheme):
    return 443 if scheme in ('https', 'wss') else 80


def model_relative(root, path, qs):
    return root + path + ('?' + qs if qs else '')


PATHS = ['/', '/a', '/a/b', '/x-y_z.~', '/hello/world/1']
QSS = ['', 'x=1', 'a=1&b=2', 'q=%3F']
ROOTS = ['', '/app', '/v1/api']


def check_common(req, tag, scheme, exp_netloc, path, qs, root):
    global CASES
    CASES += 1
    rel = model_relative(root, path, qs)
    # NOTE: req.path may have been through trailing-slash normalisation; the
    # paths above never end with a slash other than '/', so it is unchanged.
    expected = {
        'netloc': exp_netloc,
        'relative_uri': rel,
        'uri': scheme + '://' + exp_netloc + rel,
        'url': scheme + '://' + exp_netloc + rel,
        'prefix': scheme + '://' + exp_netloc + root,
    }
    for attr, want in expected.items():
        try:
            got1 = getattr(req, attr)
            got2 = getattr(req, attr)
        except Exception as ex:  # noqa: BLE001
            fail('%s: %s raised %r' % (tag, attr, ex))
            continue
        if got1 != want:
            fail('%s: %s = %r, expected %r' % (tag, attr, got1, want))
        if got2 != got1:
            fail('%s: %s not stable: %r then %r' % (tag, attr, got1, got2))


def check_forwarded(req, tag, scheme, exp_netloc, rel, root, xfh, xfp):
    exp_host = xfh if xfh is not None else exp_netloc
    exp_scheme = xfp.lower() if xfp is not None else scheme
    expected = {
        'forwarded_host': exp_host,
        'forwarded_scheme': exp_scheme,
        'forwarded_uri': exp_scheme + '://' + exp_host + rel,
        'forwarded_prefix': exp_scheme + '://' + exp_host + root,
    }
    for attr, want in expected.items():
        try:
            got1 = getattr(req, attr)
            got2 = getattr(req, attr)
        except Exception as ex:  # noqa: BLE001
            fail('%s: %s raised %r' % (tag, attr, ex))
            continue
        if got1 != want or got2 != want:
            fail('%s: %s = %r/%r, expected %r' % (tag, attr, got1, got2, want))


# --------------------------------------------------------------------------
# 1. No Host header: netloc is composed from the server name and port
# --------------------------------------------------------------------------

SERVER_NAMES = ['localhost', 'example.com', 'a.b.c.example', '10.0.0.1', '::1', '']
SERVER_PORTS = [80, 443, 8080, 8000, 0, 1, 65535, 4430, 800, 44380]

for scheme, name, port in itertools.product(('http', 'https'), SERVER_NAMES, SERVER_PORTS):
    path, qs, root = random.choice(PATHS), random.choice(QSS), random.choice(ROOTS)
    sport = str(port)
    exp_netloc = name if port == default_port_for(scheme) else name + ':' + sport
    tag = 'wsgi/nohost %s %r %r' % (scheme, name, sport)
    req = make_wsgi(scheme, name, sport, None, path, qs, root, [])
    check_common(req, tag, scheme, exp_netloc, path, qs, root)
    check_forwarded(
        req, tag, scheme, exp_netloc, model_relative(root, path, qs), root, None, None
    )
    if req.host != name or req.host != name:
        fail('%s: host = %r' % (tag, req.host))
    if req.port != port or req.port != port:
        fail('%s: port = %r' % (tag, req.port))

# WSGI: odd-but-string SERVER_PORT spellings are compared textually
for scheme, sport in itertools.product(
    ('http', 'https'), ('080', '0443', ' 80', '443 ', '+80', '8 0')
):
    name = 'srv.example'
    req = make_wsgi(scheme, name, sport, None, '/', '', '', [])
    check_common(req, 'wsgi/oddport %s %r' % (scheme, sport), scheme, name + ':' + sport, '/', '', '')

# X-Forwarded-* on top of a composed netloc
for scheme, port, xfh, xfp in itertools.product(
    ('http', 'https'),
    (80, 443, 8080),
    (None, 'proxy.example', 'proxy.example:8443', ''),
    (None, 'https', 'HTTP', 'WsS'),
):
    name = 'origin.example'
    path, qs, root = random.choice(PATHS), random.choice(QSS), random.choice(ROOTS)
    extra = []
    if xfh is not None:
        extra.append((rand_case('X-Forwarded-Host'), xfh))
    if xfp is not None:
        extra.append((rand_case('X-Forwarded-Proto'), xfp))
    exp_netloc = name if port == default_port_for(scheme) else '%s:%d' % (name, port)
    rel = model_relative(root, path, qs)
    req = make_wsgi(scheme, name, str(port), None, path, qs, root, extra)
    check_common(req, 'wsgi/xf', scheme, exp_netloc, path, qs, root)
    check_forwarded(req, 'wsgi/xf', scheme, exp_netloc, rel, root, xfh, xfp)
    req = make_asgi(scheme, (name, port), None, path, qs, root, extra)
    check_common(req, 'asgi/xf', scheme, exp_netloc, path, qs, root)
    check_forwarded(req, 'asgi/xf', scheme, exp_netloc, rel, root, xfh, xfp)

# ASGI, no Host header: http/https and ws/wss, server given as list/tuple
for scheme, name, port in itertools.product(
    ('http', 'https', 'ws', 'wss'), SERVER_NAMES, SERVER_PORTS
):
    path, qs, root = random.choice(PATHS), random.choice(QSS), random.choice(ROOTS)
    websocket = scheme in ('ws', 'wss')
    exp_netloc = name if port == default_port_for(scheme) else '%s:%d' % (name, port)
    server = random.choice(((name, port), [name, port]))
    tag = 'asgi/nohost %s %r %r' % (scheme, name, port)
    req = make_asgi(scheme, server, None, path, qs, root, [], websocket=websocket)
    check_common(req, tag, scheme, exp_netloc, path, qs, root)
    check_forwarded(
        req, tag, scheme, exp_netloc, model_relative(root, path, qs), root, None, None
    )
    if req.host != name or req.host != name:
        fail('%s: host = %r' % (tag, req.host))
    if req.port != port or req.port != port:
        fail('%s: port = %r' % (tag, req.port))

# ASGI: server missing / None / one-shot iterator; scheme key missing
for scheme, server, websocket, omit_scheme in itertools.product(
    ('http', 'https', 'ws', 'wss'), ('absent', 'none', 'iter'), (False, True), (False, True)
):
    if omit_scheme:
        eff_scheme = 'ws' if websocket else 'http'
    else:
        eff_scheme = scheme
    if server == 'iter':
        exp_host, exp_port = 'iter.example', 8443
        exp_netloc = 'iter.example:8443'
    else:
        exp_host, exp_port = 'localhost', default_port_for(eff_scheme)
        exp_netloc = 'localhost'
    tag = 'asgi/server=%s %s ws=%s omit=%s' % (server, scheme, websocket, omit_scheme)
    req = make_asgi(
        scheme, server, None, '/p', 'x=1', '/r', [], websocket=websocket, omit_scheme=omit_scheme
    )
    # netloc first, then port/host, then again (memoised server tuple)
    check_common(req, tag, eff_scheme, exp_netloc, '/p', 'x=1', '/r')
    if (req.host, req.port) != (exp_host, exp_port):
        fail('%s: host/port = %r' % (tag, (req.host, req.port)))
    if req.netloc != exp_netloc:
        fail('%s: netloc changed after host/port: %r' % (tag, req.netloc))
    # and in the opposite access order on a fresh request
    req = make_asgi(
        scheme, server, None, '/p', 'x=1', '/r', [], websocket=websocket, omit_scheme=omit_scheme
    )
    if (req.port, req.host) != (exp_port, exp_host):
        fail('%s: port/host (first) = %r' % (tag, (req.port, req.host)))
    check_common(req, tag + ' (2)', eff_scheme, exp_netloc, '/p', 'x=1', '/r')

# ASGI: a server port that is not an int is compared by value and formatted
for scheme, port in itertools.product(('http', 'https'), ('80', '443', 80.0, 443.0, None)):
    req = make_asgi(scheme, ('h.example', port), None, '/', '', '', [])
    if port in (80.0, 443.0) and port == default_port_for(scheme):
        exp = 'h.example'
    else:
        exp = 'h.example:%s' % (port,)
    check_common(req, 'asgi/oddport %s %r' % (scheme, port), scheme, exp, '/', '', '')

# --------------------------------------------------------------------------
# 2. Host header present: netloc is the header verbatim; host/port are parsed
# --------------------------------------------------------------------------

for i in range(400):
    value, exp_host, exp_port = gen_host_header()
    scheme = random.choice(('http', 'https'))
    path, qs, root = random.choice(PATHS), random.choice(QSS), random.choice(ROOTS)
    sname, sport = random.choice(SERVER_NAMES), random.choice(SERVER_PORTS)
    want_port = exp_port if exp_port is not None else default_port_for(scheme)
    rel = model_relative(root, path, qs)
    for side in ('wsgi', 'asgi'):
        tag = '%s/host %s %r' % (side, scheme, value)
        if side == 'wsgi':
            req = make_wsgi(scheme, sname, str(sport), value, path, qs, root, [])
        else:
            req = make_asgi(scheme, (sname, sport), value, path, qs, root, [])
        check_common(req, tag, scheme, value, path, qs, root)
        check_forwarded(req, tag, scheme, value, rel, root, None, None)
        try:
            got = (req.host, req.port, req.host, req.port)
        except Exception as ex:  # noqa: BLE001
            fail('%s: host/port raised %r' % (tag, ex))
            continue
        if got != (exp_host, want_port, exp_host, want_port):
            fail('%s: host/port = %r, expected %r' % (tag, got, (exp_host, want_port)))
        sub = req.subdomain
        head, sep, _ = exp_host.partition('.')
        if sub != (head if sep else None) or req.subdomain != sub:
            fail('%s: subdomain = %r' % (tag, sub))
        # case-insensitive raw lookup agrees with netloc
        if req.get_header(rand_case('Host')) != value:
            fail('%s: get_header(Host) mismatch' % tag)

# ASGI websocket with Host header: default port follows ws/wss
for i in range(100):
    value, exp_host, exp_port = gen_host_header()
    scheme = random.choice(('ws', 'wss'))
    want_port = exp_port if exp_port is not None else default_port_for(scheme)
    req = make_asgi(scheme, ('s', 1234), value, '/', '', '', [], websocket=True)
    check_common(req, 'asgi/ws-host %r' % value, scheme, value, '/', '', '')
    if (req.host, req.port) != (exp_host, want_port):
        fail('asgi/ws-host %r: %r' % (value, (req.host, req.port)))

# Garbage Host values are passed through by netloc / uri untouched
for value in GARBAGE_HOSTS:
    for scheme in ('http', 'https'):
        req = make_wsgi(scheme, 'srv', '81', value, '/x', 'y=1', '/r', [])
        check_common(req, 'wsgi/garbage %r' % value, scheme, value, '/x', 'y=1', '/r')
        req = make_asgi(scheme, ('srv', 81), value, '/x', 'y=1', '/r', [])
        check_common(req, 'asgi/garbage %r' % value, scheme, value, '/x', 'y=1', '/r')
        # host / port either answer or raise a 400-class error / ValueError
        # identically on every access (pre-existing lenient behaviour is kept
        # out of scope here: only stability is asserted)
        for attr in ('host', 'port'):
            outcomes = []
            for _ in range(2):
                try:
                    outcomes.append(('ok', getattr(req, attr)))
                except Exception as ex:  # noqa: BLE001
                    outcomes.append(('err', type(ex).__name__))
            if outcomes[0] != outcomes[1]:
                fail('garbage %r: %s unstable %r' % (value, attr, outcomes))

finish()
