"""Check for change 2 (performance: falcon.util.uri.parse_host slices at the
already-known colon position instead of re-scanning with str.partition).

Compares parse_host() -- directly and through Request.host / Request.port /
Request.access_route on WSGI and ASGI -- against (a) expectations known by
construction from a structured generator of RFC 3986 authority forms and
(b) an independent reference implementation (count/split based) for
arbitrary and mutated strings, including the outcome *kind* when the port
is not a number.

Run as:  PYTHONPATH=<tree> /venv/bin/python check.py
"""

import random
import sys

import falcon
import falcon.asgi
from falcon import testing
from falcon.util.uri import parse_host
from falcon import uri as falcon_uri

random.seed(90902)

FAILURES = []
CASES = 0


def fail(msg):
    FAILURES.append(msg)
    if len(FAILURES) > 20:
        finish()


def finish():
    if FAILURES:
        for f in FAILURES[:20]:
            print('FAIL:', f)
        print('FAIL (%d failures, %d cases)' % (len(FAILURES), CASES))
        sys.exit(1)
    print('PASS (%d cases)' % CASES)
    sys.exit(0)


async def _receive():  # pragma: no cover - never awaited
    return {'type': 'http.disconnect'}


def rand_case(name):
    return ''.join(random.choice((c.lower(), c.upper())) for c in name)


def make_wsgi(scheme, headers):
    env = testing.create_environ(scheme=scheme)
    env.pop('HTTP_HOST', None)
    env['SERVER_NAME'] = 'server.invalid'
    env['SERVER_PORT'] = '8181'
    env['REMOTE_ADDR'] = '192.0.2.200'
    for name, value in headers:
        env['HTTP_' + name.upper().replace('-', '_')] = value
    return falcon.Request(env)


def make_asgi(scheme, headers):
    scope = testing.create_scope(scheme=scheme)
    scope['server'] = ('server.invalid', 8181)
    scope['client'] = ('192.0.2.200', 5555)
    scope['headers'] = [
        (name.lower().encode('latin1'), value.encode('latin1')) for name, value in headers
    ]
    return falcon.asgi.Request(scope, _receive)


# --------------------------------------------------------------------------
# Independent reference implementation (different technique: count + split)
# --------------------------------------------------------------------------


def ref_parse_host(host, default_port=None):
    if host[:1] == '[':
        idx = host.rfind(']:')
        if idx >= 0:
            return host[1:idx], int(host[idx + 2 :])
        return host[1 : len(host) - 1] if len(host) > 1 else '', default_port
    if host.count(':') != 1:
        return host, default_port
    name, port = host.split(':')
    return name, int(port)


def outcome(fn, *args, **kwargs):
    try:
        return ('ok', fn(*args, **kwargs))
    except Exception as ex:  # noqa: BLE001
        return ('err', type(ex).__name__)


# --------------------------------------------------------------------------
# Structured generator: expected answer known by construction
# --------------------------------------------------------------------------

LABEL_CHARS = 'abcdefghijklmnopqrstuvwxyzABCDEFGHIJKLMNOPQRSTUVWXYZ0123456789-_~'


def gen_regname():
    n = random.randint(1, 5)
    return '.'.join(
        ''.join(random.choice(LABEL_CHARS) for _ in range(random.randint(1, 9)))
        for _ in range(n)
    )


def gen_ipv4():
    return '.'.join(str(random.randint(0, 255)) for _ in range(4))


def gen_ipv6():
    forms = [
        '::1',
        '::',
        '2001:db8::1',
        'fe80::1%25eth0',
        '::ffff:192.0.2.1',
        ':'.join('%x' % random.randint(0, 0xFFFF) for _ in range(8)),
        '2001:DB8:' + ':'.join('%X' % random.randint(0, 0xFFFF) for _ in range(6)),
        'v1.fe80::a+en1',
    ]
    return random.choice(forms)


def gen_authority():
    """Return (text, expected_host, expected_port_or_None)."""
    kind = random.choice(('reg', 'reg', 'v4', 'v6', 'v6'))
    port = random.choice(
        (None, None, 0, 1, 80, 443, 8080, 65535, 99999, random.randint(1, 65535))
    )
    if kind == 'reg':
        name = gen_regname()
        shown = name
    elif kind == 'v4':
        name = gen_ipv4()
        shown = name
    else:
        name = gen_ipv6()
        shown = '[' + name + ']'
    if port is None:
        return shown, name, None
    port_text = random.choice((str(port), '%06d' % port))
    return shown + ':' + port_text, name, port


DEFAULTS = (None, 80, 443, 0, 8080)

# 1. parse_host(): valid authorities, every default_port
for i in range(1500):
    text, exp_host, exp_port = gen_authority()
    for default in DEFAULTS:
        CASES += 1
        want = (exp_host, exp_port if exp_port is not None else default)
        if default is None and random.random() < 0.5:
            got = outcome(parse_host, text)
        elif random.random() < 0.5:
            got = outcome(parse_host, text, default)
        else:
            got = outcome(parse_host, text, default_port=default)
        if got != ('ok', want):
            fail('parse_host(%r, %r) -> %r, expected %r' % (text, default, got, want))
        elif type(got[1]) is not tuple or type(got[1][0]) is not str:
            fail('parse_host(%r): wrong types %r' % (text, got))
        ref = outcome(ref_parse_host, text, default)
        if ref != got:
            fail('reference disagrees on %r: %r vs %r' % (text, ref, got))

# the public alias is the very same function
if falcon_uri.parse_host is not parse_host:
    fail('falcon.uri.parse_host is not falcon.util.uri.parse_host')

# 2. parse_host(): hard-coded corner cases (taken from the unmodified tree)
HARD = [
    ('', None, ('ok', ('', None))),
    ('', 80, ('ok', ('', 80))),
    ('example.com', None, ('ok', ('example.com', None))),
    ('example.com', 443, ('ok', ('example.com', 443))),
    ('example.com:80', None, ('ok', ('example.com', 80))),
    ('example.com:080', 1, ('ok', ('example.com', 80))),
    ('example.com: 80 ', 1, ('ok', ('example.com', 80))),
    ('example.com:+80', 1, ('ok', ('example.com', 80))),
    ('example.com:-80', 1, ('ok', ('example.com', -80))),
    ('example.com:8_0', 1, ('ok', ('example.com', 80))),
    ('example.com:８０', 1, ('ok', ('example.com', 80))),
    ('example.com:', 1, ('err', 'ValueError')),
    ('example.com:http', 1, ('err', 'ValueError')),
    ('example.com:80a', 1, ('err', 'ValueError')),
    ('example.com:8.0', 1, ('err', 'ValueError')),
    ('example.com:0x50', 1, ('err', 'ValueError')),
    (':', 1, ('err', 'ValueError')),
    (':80', 1, ('ok', ('', 80))),
    (':80', None, ('ok', ('', 80))),
    ('a:b:c', 7, ('ok', ('a:b:c', 7))),
    ('::1', 7, ('ok', ('::1', 7))),
    ('::', None, ('ok', ('::', None))),
    ('2001:db8::1', 9, ('ok', ('2001:db8::1', 9))),
    ('a::', 9, ('ok', ('a::', 9))),
    ('1:2', 9, ('ok', ('1', 2))),
    ('[::1]', 9, ('ok', ('::1', 9))),
    ('[::1]:81', 9, ('ok', ('::1', 81))),
    ('[::1]:', 9, ('err', 'ValueError')),
    ('[::1]:x', 9, ('err', 'ValueError')),
    ('[::1', 9, ('ok', ('::', 9))),
    ('[', 9, ('ok', ('', 9))),
    ('[]', 9, ('ok', ('', 9))),
    ('[]:5', 9, ('ok', ('', 5))),
    ('[a]:1]:2', 9, ('ok', ('a]:1', 2))),
    ('10.0.0.1:8080', None, ('ok', ('10.0.0.1', 8080))),
    ('10.0.0.1', None, ('ok', ('10.0.0.1', None))),
    ('host :80', None, ('ok', ('host ', 80))),
    (' host:80', None, ('ok', (' host', 80))),
    ('h\xe9llo:80', None, ('ok', ('h\xe9llo', 80))),
    ('x' * 500 + ':1', None, ('ok', ('x' * 500, 1))),
    ('unknown', None, ('ok', ('unknown', None))),
    ('_hidden', None, ('ok', ('_hidden', None))),
    ('_hidden:_port', None, ('err', 'ValueError')),
    ('192.0.2.43:47011', None, ('ok', ('192.0.2.43', 47011))),
]

for text, default, want in HARD:
    CASES += 1
    got = outcome(parse_host, text, default)
    if got != want:
        fail('HARD parse_host(%r, %r) -> %r, expected %r' % (text, default, got, want))
    ref = outcome(ref_parse_host, text, default)
    if ref != want:
        fail('HARD reference(%r, %r) -> %r, expected %r' % (text, default, ref, want))

# 3. parse_host(): random and mutated strings agree with the reference,
#    including the exception class when the port is not a number
ALPHABET = 'abc.:[]019 -_%\t+xyz\xe9'


def mutate(s):
    if not s:
        return random.choice(ALPHABET)
    i = random.randrange(len(s))
    op = random.choice(('del', 'ins', 'sub', 'dup', 'trunc'))
    if op == 'del':
        return s[:i] + s[i + 1 :]
    if op == 'ins':
        return s[:i] + random.choice(ALPHABET) + s[i:]
    if op == 'sub':
        return s[:i] + random.choice(ALPHABET) + s[i + 1 :]
    if op == 'dup':
        return s[:i] + s[i] + s[i:]
    return s[:i]


fuzz = []
for i in range(1500):
    fuzz.append(''.join(random.choice(ALPHABET) for _ in range(random.randint(0, 12))))
for i in range(1500):
    text = gen_authority()[0]
    for _ in range(random.randint(1, 3)):
        text = mutate(text)
    fuzz.append(text)

for text in fuzz:
    default = random.choice(DEFAULTS)
    CASES += 1
    got = outcome(parse_host, text, default)
    ref = outcome(ref_parse_host, text, default)
    if got != ref:
        fail('fuzz parse_host(%r, %r) -> %r, reference %r' % (text, default, got, ref))
    if got[0] == 'err' and got[1] != 'ValueError':
        fail('fuzz parse_host(%r) raised %s' % (text, got[1]))
    if outcome(parse_host, text, default) != got:
        fail('fuzz parse_host(%r) not deterministic' % text)

# 4. Through the request objects: Host header -> host / port (both sides)
for i in range(400):
    text, exp_host, exp_port = gen_authority()
    for side, scheme in (
        ('wsgi', 'http'),
        ('wsgi', 'https'),
        ('asgi', 'http'),
        ('asgi', 'https'),
    ):
        CASES += 1
        default = 443 if scheme == 'https' else 80
        want_port = exp_port if exp_port is not None else default
        make = make_wsgi if side == 'wsgi' else make_asgi
        req = make(scheme, [('Host', text)])
        got = outcome(lambda: (req.host, req.port, req.host, req.port, req.netloc))
        want = ('ok', (exp_host, want_port, exp_host, want_port, text))
        if got != want:
            fail('%s %s Host=%r -> %r, expected %r' % (side, scheme, text, got, want))
        if req.get_header(rand_case('hOsT')) != text:
            fail('%s get_header(Host) mismatch for %r' % (side, text))
        head, sep, _ = exp_host.partition('.')
        if req.subdomain != (head if sep else None):
            fail('%s subdomain for %r: %r' % (side, text, req.subdomain))

# invalid Host ports: same outcome kind as the reference, on every access
for text in [t for t, _, w in HARD if t] + fuzz[:600]:
    try:
        text.encode('latin1')
    except UnicodeEncodeError:
        continue
    for side in ('wsgi', 'asgi'):
        CASES += 1
        make = make_wsgi if side == 'wsgi' else make_asgi
        req = make('http', [('Host', text)])
        ref = outcome(ref_parse_host, text, 80)
        for _ in range(2):
            got_host = outcome(lambda: req.host)
            got_port = outcome(lambda: req.port)
            if ref[0] == 'ok':
                if got_host != ('ok', ref[1][0]) or got_port != ('ok', ref[1][1]):
                    fail('%s Host=%r -> %r %r, ref %r' % (side, text, got_host, got_port, ref))
            else:
                if got_host != ref or got_port != ref:
                    fail('%s Host=%r -> %r %r, ref %r' % (side, text, got_host, got_port, ref))
        if req.netloc != text:
            fail('%s netloc for Host=%r: %r' % (side, text, req.netloc))


# 5. Forwarded: for=<node[:port]> -> access_route strips the port
def quote_if_needed(node):
    if any(c in node for c in ':[]'):
        return '"' + node + '"'
    return random.choice((node, '"' + node + '"'))


for i in range(400):
    hops = []
    expected = []
    for _ in range(random.randint(1, 4)):
        kind = random.choice(('auth', 'unknown', 'obf', 'obfport', 'nofor'))
        if kind == 'auth':
            text, exp_host, _ = gen_authority()
        elif kind == 'unknown':
            text, exp_host = 'unknown', 'unknown'
        elif kind == 'obf':
            text = exp_host = '_' + gen_regname().replace('-', '_').replace('~', '_')
        elif kind == 'obfport':
            exp_host = '_hidden'
            text = '_hidden:%d' % random.randint(0, 65535)
        else:
            hops.append(random.choice(('by=203.0.113.43', 'proto=https', 'host=example.com')))
            continue
        pair = rand_case('for') + '=' + quote_if_needed(text)
        extra = random.choice(('', ';proto=http', ';by=203.0.113.43', ';host=h.example'))
        hops.append(random.choice((pair + extra, extra.lstrip(';') + ';' + pair if extra else pair)))
        expected.append(exp_host)
    header = random.choice((', ', ',', ' , ')).join(hops)
    want = expected + ['192.0.2.200'] if (not expected or expected[-1] != '192.0.2.200') else expected
    for side in ('wsgi', 'asgi'):
        CASES += 1
        make = make_wsgi if side == 'wsgi' else make_asgi
        req = make('http', [('Forwarded', header)])
        got = outcome(lambda: list(req.access_route))
        if got != ('ok', want):
            fail('%s Forwarded=%r -> %r, expected %r' % (side, header, got, want))
        if list(req.access_route) != want or req.access_route is not req.access_route:
            fail('%s Forwarded=%r: access_route not memoised/stable' % (side, header))
        if req.remote_addr != '192.0.2.200':
            fail('%s remote_addr %r' % (side, req.remote_addr))

finish()
