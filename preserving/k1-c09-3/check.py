"""Check for change 3 (typing / explicit ``is None`` cleanup in
falcon.forwarded._parse_forwarded_header).

The Forwarded parser is compared against

  (a) expectations known by construction for headers generated from the
      RFC 7239 ABNF (tokens, quoted-strings with quoted-pairs, quoted IPv6,
      obfuscated nodes/ports, unknown extension parameters, any parameter
      name casing, optional whitespace, empty list members);
  (b) an independent hand-written (regex-free) implementation of the
      documented lenient reading for mutated / random headers;
  (c) hard-coded expectations for corner cases, recorded from the
      unmodified tree;

directly and through Request.forwarded / forwarded_host / forwarded_scheme /
access_route on WSGI and ASGI, with repeated access.

Run as:  PYTHONPATH=<tree> /venv/bin/python check.py
"""

import random
import string
import sys

import falcon
import falcon.asgi
from falcon import testing
from falcon.forwarded import _parse_forwarded_header
from falcon.forwarded import Forwarded

random.seed(90903)

FAILURES = []
CASES = 0


def fail(msg):
    FAILURES.append(msg)
    if len(FAILURES) > 20:
        finish()


def finish():
    if FAILURES:
        for f in FAILURES[:20]:
            print('FAIL:', f)
        print('FAIL (%d failures, %d cases)' % (len(FAILURES), CASES))
        sys.exit(1)
    print('PASS (%d cases)' % CASES)
    sys.exit(0)


async def _receive():  # pragma: no cover - never awaited
    return {'type': 'http.disconnect'}


def rand_case(name):
    return ''.join(random.choice((c.lower(), c.upper())) for c in name)


REMOTE = '192.0.2.200'


def make_wsgi(headers):
    env = testing.create_environ()
    env['REMOTE_ADDR'] = REMOTE
    for name, value in headers:
        env['HTTP_' + name.upper().replace('-', '_')] = value
    return falcon.Request(env)


def make_asgi(headers):
    scope = testing.create_scope()
    scope['client'] = (REMOTE, 5555)
    hdrs = [(b'host', b'falconframework.org')]
    hdrs += [(n.lower().encode('latin1'), v.encode('latin1')) for n, v in headers]
    scope['headers'] = hdrs
    return falcon.asgi.Request(scope, _receive)


def as_tuples(elements):
    return [(e.src, e.dest, e.host, e.scheme) for e in elements]


# --------------------------------------------------------------------------
# Independent reference: regex-free lenient reader
# --------------------------------------------------------------------------

TCHAR = set(string.digits + string.ascii_letters + "!#$%&'*+.^_`|~-")
QDTEXT = set('\t !' + ''.join(chr(c) for c in range(0x23, 0x7F))) - {'\\'}
QP_SECOND = set('\t ' + ''.join(chr(c) for c in range(0x21, 0x7F)))


def ref_scan_token(s, i):
    j = i
    while j < len(s) and s[j] in TCHAR:
        j += 1
    return j


def ref_scan_pair(s, i):
    """Return (name, raw_value, end) or None."""
    j = ref_scan_token(s, i)
    if j == i or j >= len(s) or s[j] != '=':
        return None
    name = s[i:j]
    v0 = j + 1
    k = ref_scan_token(s, v0)
    if k > v0:
        return name, s[v0:k], k
    if v0 >= len(s) or s[v0] != '"':
        return None
    k = v0 + 1
    while k < len(s):
        c = s[k]
        if c == '"':
            return name, s[v0 : k + 1], k + 1
        if c == '\\':
            if k + 1 < len(s) and s[k + 1] in QP_SECOND:
                k += 2
                continue
            return None
        if c in QDTEXT:
            k += 1
            continue
        return None
    return None


def ref_unquote(raw):
    out = []
    body = raw[1:-1]
    i = 0
    while i < len(body):
        if body[i] == '\\' and i + 1 < len(body):
            out.append(body[i + 1])
            i += 2
        else:
            out.append(body[i])
            i += 1
    return ''.join(out)


def ref_parse(header):
    elements = []
    current = None  # dict or None
    need_sep = False
    i = 0
    n = len(header)
    while 0 <= i < n:
        pair = ref_scan_pair(header, i)
        if pair is not None:
            if need_sep:
                i = header.find(',', i)
                continue
            name, raw, i = pair
            need_sep = True
            value = ref_unquote(raw) if raw.startswith('"') else raw
            if current is None:
                current = {'for': None, 'by': None, 'host': None, 'proto': None}
            key = name.lower()
            if key == 'proto':
                current[key] = value.lower()
            elif key in current:
                current[key] = value
            continue
        c = header[i]
        if c == ',':
            need_sep = False
            i += 1
            if current is not None:
                elements.append(current)
                current = None
        elif c == ';':
            need_sep = False
            i += 1
        elif c == ' ' or c == '\t':
            i += 1
        else:
            i = header.find(',', i)
    if current is not None:
        elements.append(current)
    return [(e['for'], e['by'], e['host'], e['proto']) for e in elements]


# --------------------------------------------------------------------------
# Generator of valid RFC 7239 headers with the expected reading
# --------------------------------------------------------------------------

TCHAR_LIST = sorted(TCHAR)
QD_LIST = sorted(QDTEXT)
QP_LIST = sorted(QP_SECOND)


def gen_token(maxlen=10):
    return ''.join(random.choice(TCHAR_LIST) for _ in range(random.randint(1, maxlen)))


def gen_quoted():
    """Return (raw quoted-string, unquoted value)."""
    raw = ['"']
    val = []
    for _ in range(random.randint(0, 12)):
        if random.random() < 0.25:
            c = random.choice(QP_LIST)
            raw.append('\\' + c)
            val.append(c)
        else:
            c = random.choice(QD_LIST)
            raw.append(c)
            val.append(c)
    raw.append('"')
    return ''.join(raw), ''.join(val)


def gen_node():
    kind = random.choice(('v4', 'v4port', 'v6', 'v6port', 'unknown', 'obf', 'obfport', 'name'))
    v4 = '.'.join(str(random.randint(0, 255)) for _ in range(4))
    v6 = random.choice(('::1', '2001:db8:cafe::17', 'fe80::1', '::ffff:192.0.2.1'))
    if kind == 'v4':
        return v4, v4
    if kind == 'v4port':
        return '%s:%d' % (v4, random.randint(0, 65535)), v4
    if kind == 'v6':
        return '[%s]' % v6, v6
    if kind == 'v6port':
        return '[%s]:%d' % (v6, random.randint(0, 65535)), v6
    if kind == 'unknown':
        return 'unknown', 'unknown'
    if kind == 'obf':
        obf = '_' + ''.join(random.choice(string.ascii_letters + '._-') for _ in range(5))
        return obf, obf
    if kind == 'obfport':
        return '_hidden:_p0rt', None  # access_route would choke: see below
    name = 'node%d.example' % random.randint(0, 99)
    return name, name


def render_value(value):
    """Render as token when possible (sometimes), else as a quoted-string."""
    if value and all(c in TCHAR for c in value) and random.random() < 0.6:
        return value
    out = ['"']
    for c in value:
        if c in '"\\' or random.random() < 0.1:
            out.append('\\' + c)
        else:
            out.append(c)
    out.append('"')
    return ''.join(out)


def gen_element(numeric_ports_only):
    """Return (text, (src, dest, host, scheme), route_host or None)."""
    got = {'for': None, 'by': None, 'host': None, 'proto': None}
    route_host = None
    parts = []
    names = random.sample(
        ['for', 'by', 'host', 'proto', 'ext', 'secret'], random.randint(1, 5)
    )
    for name in names:
        if name == 'for' or name == 'by':
            while True:
                node, bare = gen_node()
                if bare is not None or not numeric_ports_only:
                    break
            value = node
            if name == 'for':
                route_host = bare
        elif name == 'host':
            value = random.choice(('example.com', 'Example.COM:8443', '[::1]:80', 'h'))
        elif name == 'proto':
            value = random.choice(('http', 'https', 'HTTPS', 'Http', 'wss'))
        else:
            value = random.choice((gen_token(), gen_quoted()[1]))
        if name in got:
            got[name] = value.lower() if name == 'proto' else value
        parts.append(rand_case(name) + '=' + render_value(value))
    sep = random.choice((';', ';', '; ', ' ;', ' ; ', ';\t'))
    text = sep.join(parts)
    return text, (got['for'], got['by'], got['host'], got['proto']), route_host, 'for' in names


def gen_header(numeric_ports_only=True):
    elements = []
    texts = []
    route = []
    for _ in range(random.randint(1, 5)):
        if random.random() < 0.12:
            texts.append(random.choice(('', ' ', '\t')))  # empty list member
            continue
        text, tup, route_host, has_for = gen_element(numeric_ports_only)
        texts.append(text)
        elements.append(tup)
        if has_for:
            route.append(route_host)
    header = random.choice((',', ', ', ' , ', ',  ')).join(texts)
    if random.random() < 0.1:
        header = random.choice((',', ' ', ', ')) + header
    if random.random() < 0.1:
        header = header + random.choice((',', ' ', ' ,'))
    return header, elements, route


def check_direct(header, want, tag):
    global CASES
    CASES += 1
    try:
        got = _parse_forwarded_header(header)
    except Exception as ex:  # noqa: BLE001
        fail('%s: parser raised %r on %r' % (tag, ex, header))
        return None
    if type(got) is not list or not all(type(e) is Forwarded for e in got):
        fail('%s: wrong result types for %r' % (tag, header))
        return None
    tuples = as_tuples(got)
    if want is not None and tuples != want:
        fail('%s: %r -> %r, expected %r' % (tag, header, tuples, want))
    ref = ref_parse(header)
    if tuples != ref:
        fail('%s: %r -> %r, reference %r' % (tag, header, tuples, ref))
    if as_tuples(_parse_forwarded_header(header)) != tuples:
        fail('%s: %r not deterministic' % (tag, header))
    for t in tuples:
        for v in t:
            if v is not None and type(v) is not str:
                fail('%s: %r non-str attribute %r' % (tag, header, v))
    return tuples


def check_request(header, tuples, route, tag):
    """Through the request objects on both sides."""
    for side in ('wsgi', 'asgi'):
        try:
            header.encode('latin1')
        except UnicodeEncodeError:
            if side == 'asgi':
                continue
        make = make_wsgi if side == 'wsgi' else make_asgi
        extra = [
            ('X-Forwarded-Host', 'xfh.example'),
            ('X-Forwarded-Proto', 'xfp'),
            ('X-Forwarded-For', '198.51.100.1'),
        ]
        random.shuffle(extra)
        req = make([(rand_case('Forwarded'), header)] + extra)
        try:
            first = req.forwarded
            second = req.forwarded
        except Exception as ex:  # noqa: BLE001
            fail('%s/%s: req.forwarded raised %r on %r' % (tag, side, ex, header))
            continue
        if first is not second:
            fail('%s/%s: req.forwarded not memoised for %r' % (tag, side, header))
        if as_tuples(first) != tuples:
            fail('%s/%s: req.forwarded %r != %r' % (tag, side, as_tuples(first), tuples))
        if req.get_header(rand_case('forwarded')) != header:
            fail('%s/%s: get_header(Forwarded) mismatch' % (tag, side))
        # Forwarded wins over X-Forwarded-*; first hop decides host/scheme
        exp_host = (tuples[0][2] if tuples else None) or req.netloc
        exp_scheme = (tuples[0][3] if tuples else None) or req.scheme
        for _ in range(2):
            if req.forwarded_host != exp_host:
                fail('%s/%s: forwarded_host %r != %r' % (tag, side, req.forwarded_host, exp_host))
            if req.forwarded_scheme != exp_scheme:
                fail(
                    '%s/%s: forwarded_scheme %r != %r'
                    % (tag, side, req.forwarded_scheme, exp_scheme)
                )
        if route is not None:
            want_route = list(route)
            if not want_route or want_route[-1] != REMOTE:
                want_route.append(REMOTE)
            try:
                got_route = list(req.access_route)
                again = list(req.access_route)
            except Exception as ex:  # noqa: BLE001
                fail('%s/%s: access_route raised %r on %r' % (tag, side, ex, header))
                continue
            if got_route != want_route or again != want_route:
                fail('%s/%s: access_route %r != %r (%r)' % (tag, side, got_route, want_route, header))


# 1. Valid headers: expectation by construction
for i in range(1200):
    header, want, route = gen_header()
    tuples = check_direct(header, want, 'valid')
    if tuples is not None and i % 2 == 0:
        check_request(header, tuples, route, 'valid')

# 1b. Valid headers with obfuscated ports (direct parser only)
for i in range(300):
    header, want, route = gen_header(numeric_ports_only=False)
    check_direct(header, want, 'valid-obfport')

# 2. Hard-coded corner cases recorded from the unmodified tree
N = None
HARD = [
    ('', []),
    (' ', []),
    (',', []),
    (',,,', []),
    (' , \t, ', []),
    (';', []),
    (';;,;', []),
    ('for=1.2.3.4', [('1.2.3.4', N, N, N)]),
    ('FOR=1.2.3.4', [('1.2.3.4', N, N, N)]),
    ('for=1.2.3.4,', [('1.2.3.4', N, N, N)]),
    (',for=1.2.3.4', [('1.2.3.4', N, N, N)]),
    ('for=1.2.3.4,,for=5.6.7.8', [('1.2.3.4', N, N, N), ('5.6.7.8', N, N, N)]),
    ('for=a;for=b', [('b', N, N, N)]),
    ('for=a for=b', [('a', N, N, N)]),
    ('for=a for=b, for=c', [('a', N, N, N), ('c', N, N, N)]),
    ('ext=1', [(N, N, N, N)]),
    ('ext=1, ext=2', [(N, N, N, N), (N, N, N, N)]),
    ('ext="a,b";for=x', [('x', N, N, N)]),
    ('for="a,b", for=c', [('a,b', N, N, N), ('c', N, N, N)]),
    ('for=""', [('', N, N, N)]),
    ('for="\\""', [('"', N, N, N)]),
    ('for="\\\\"', [('\\', N, N, N)]),
    ('for="a\\\\\\"b"', [('a\\"b', N, N, N)]),
    ('for="unterminated', []),
    ('for="unterminated, for=b', [('b', N, N, N)]),
    ('for="bad\\', []),
    ('for=', []),
    ('for=, for=b', [('b', N, N, N)]),
    ('=x, for=b', [('b', N, N, N)]),
    ('for, for=b', [('b', N, N, N)]),
    ('for = a, for=b', [('b', N, N, N)]),
    ('@@@, for=b', [('b', N, N, N)]),
    ('@@@ for=b', []),
    ('for=a;@;by=b', [('a', N, N, N)]),
    ('for=a;@,by=b', [('a', N, N, N), (N, 'b', N, N)]),
    ('for=a;;by=b', [('a', 'b', N, N)]),
    ('for=a; ;by=b', [('a', 'b', N, N)]),
    ('for=a\t;\tby=b', [('a', 'b', N, N)]),
    ('for=a by=b;host=c', [('a', N, N, N)]),
    ('for=a by=b,host=c', [('a', N, N, N), (N, N, 'c', N)]),
    ('proto=HTTPS;host=H;by=B;for=F', [('F', 'B', 'H', 'https')]),
    ('PROTO="HtTp"', [(N, N, N, 'http')]),
    ('for="[2001:db8::1]:4711";proto=http', [('[2001:db8::1]:4711', N, N, 'http')]),
    ('for=[::1]', []),
    ('for=a:1', [('a', N, N, N)]),
    ('for=\xe9, for=b', [('b', N, N, N)]),
    ('for="\xe9", for=b', [('b', N, N, N)]),
    ('for=a\x00, for=b', [('a', N, N, N), ('b', N, N, N)]),
    ('for=a' + ',' * 50 + 'for=b', [('a', N, N, N), ('b', N, N, N)]),
]

for header, want in HARD:
    tuples = check_direct(header, want, 'hard')
    if tuples is not None:
        check_request(header, tuples, None, 'hard')

# 3. Mutated valid headers and random strings: agreement with the reference,
#    no exception, stable; through the request objects as well
ALPHABET = 'for=by;host,proto" \\\t._:[]a1@\xe9\x7f'


def mutate(s):
    if not s:
        return random.choice(ALPHABET)
    i = random.randrange(len(s))
    op = random.choice(('del', 'ins', 'sub', 'dup', 'trunc', 'swap'))
    if op == 'del':
        return s[:i] + s[i + 1 :]
    if op == 'ins':
        return s[:i] + random.choice(ALPHABET) + s[i:]
    if op == 'sub':
        return s[:i] + random.choice(ALPHABET) + s[i + 1 :]
    if op == 'dup':
        return s[:i] + s[i] + s[i:]
    if op == 'swap' and i + 1 < len(s):
        return s[:i] + s[i + 1] + s[i] + s[i + 2 :]
    return s[:i]


for i in range(2500):
    header = gen_header(numeric_ports_only=False)[0]
    for _ in range(random.randint(1, 4)):
        header = mutate(header)
    tuples = check_direct(header, None, 'mutated')
    if tuples is not None and i % 5 == 0:
        check_request(header, tuples, None, 'mutated')

for i in range(2500):
    header = ''.join(random.choice(ALPHABET) for _ in range(random.randint(0, 24)))
    tuples = check_direct(header, None, 'random')
    if tuples is not None and i % 5 == 0:
        check_request(header, tuples, None, 'random')

# 4. No Forwarded header at all: None (every time), X-Forwarded-* take over
for side in ('wsgi', 'asgi'):
    make = make_wsgi if side == 'wsgi' else make_asgi
    req = make([('X-Forwarded-Host', 'xfh.example'), ('X-Forwarded-Proto', 'HTTPS')])
    CASES += 1
    if req.forwarded is not None or req.forwarded is not None:
        fail('%s: forwarded should be None without the header' % side)
    if (req.forwarded_host, req.forwarded_scheme) != ('xfh.example', 'https'):
        fail('%s: X-Forwarded-* fallback broken' % side)
    if list(req.access_route) != [REMOTE]:
        fail('%s: access_route fallback %r' % (side, req.access_route))

finish()
