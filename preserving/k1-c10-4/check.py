"""Property C10 check: URI encode/decode are total, lossless inverses with
RFC 3986 output; check-escaped encoders are idempotent; parse_host splits
valid authorities; unquote_string follows a left-to-right reference scan.

Run as:  PYTHONPATH=<falcon tree> /venv/bin/python check.py
Prints PASS and exits 0 when every case agrees with the reference model.
"""

import itertools
import os
import pickle
import random
import re
import sys

import falcon
from falcon.util import uri

FOCUS = 'change 4: optional name= keyword of _create_str_encoder sets __name__ and __qualname__'

# --------------------------------------------------------------------------
# Reference model (written independently of falcon's implementation)
# --------------------------------------------------------------------------
UNRESERVED = frozenset(
    'ABCDEFGHIJKLMNOPQRSTUVWXYZabcdefghijklmnopqrstuvwxyz0123456789-._~'
)
RESERVED = frozenset(":/?#[]@!$&'()*+,;=")
HEX = frozenset(b'0123456789abcdefABCDEF')
HEXS = frozenset('0123456789abcdefABCDEF')


def ref_decode(s, unquote_plus=True):
    if unquote_plus:
        s = s.replace('+', ' ')
    data = s.encode('utf-8')
    out = bytearray()
    i = 0
    n = len(data)
    while i < n:
        c = data[i]
        if c == 0x25 and i + 2 < n and data[i + 1] in HEX and data[i + 2] in HEX:
            out.append(int(data[i + 1 : i + 3].decode('ascii'), 16))
            i += 3
        else:
            out.append(c)
            i += 1
    return out.decode('utf-8', 'replace')


def ref_encode_all(s, allowed):
    out = []
    for b in s.encode('utf-8'):
        ch = chr(b)
        if b < 128 and ch in allowed:
            out.append(ch)
        else:
            out.append('%' + '0123456789ABCDEF'[b >> 4] + '0123456789ABCDEF'[b & 15])
    return ''.join(out)


def ref_fully_escaped(s, allowed):
    i = 0
    n = len(s)
    while i < n:
        ch = s[i]
        if ch == '%':
            if i + 2 > n - 1:
                return False
            if s[i + 1] not in HEXS or s[i + 2] not in HEXS:
                return False
            # NOTE: the heuristic only inspects the two characters following
            # each '%'; those characters are then examined as ordinary
            # characters too (they are hex digits, hence unreserved).
            i += 1
        elif ch in allowed:
            i += 1
        else:
            return False
    return True


def ref_encode(s, is_value, check_escaped):
    allowed = UNRESERVED if is_value else (UNRESERVED | RESERVED)
    if check_escaped and ref_fully_escaped(s, allowed):
        return s
    return ref_encode_all(s, allowed)


def ref_unquote_string(q):
    if len(q) < 2 or q[0] != '"' or q[-1] != '"':
        return q
    body = q[1:-1]
    out = []
    i = 0
    while i < len(body):
        if body[i] == '\\':
            if i + 1 < len(body):
                out.append(body[i + 1])
            i += 2
        else:
            out.append(body[i])
            i += 1
    return ''.join(out)


OUT_VALUE_RE = re.compile(r'\A(?:[A-Za-z0-9\-._~]|%[0-9A-F]{2})*\Z')
OUT_URI_RE = re.compile(
    r"\A(?:[A-Za-z0-9\-._~:/?#\[\]@!$&'()*+,;=]|%[0-9A-F]{2})*\Z"
)

# --------------------------------------------------------------------------
# Harness
# --------------------------------------------------------------------------
failures = []
count = 0


def fail(msg):
    failures.append(msg)
    if len(failures) <= 25:
        print('FAIL:', msg)


def same(what, arg, got, want):
    global count
    count += 1
    if got != want or type(got) is not type(want):
        fail('%s(%r): got %r, expected %r' % (what, arg, got, want))


ENCODERS = [
    ('encode', uri.encode, False, False),
    ('encode_value', uri.encode_value, True, False),
    ('encode_check_escaped', uri.encode_check_escaped, False, True),
    ('encode_value_check_escaped', uri.encode_value_check_escaped, True, True),
]


def check_string(s, joiners=False):
    # --- decode equals the reference and never fails
    for up in (True, False):
        try:
            got = uri.decode(s, unquote_plus=up)
        except Exception as ex:  # pragma: no cover
            fail('decode(%r, %r) raised %r' % (s, up, ex))
            continue
        same('decode[unquote_plus=%r]' % up, s, got, ref_decode(s, up))
    same('decode[default]', s, uri.decode(s), ref_decode(s, True))
    # truthy / falsy non-bool flags behave like their bool()
    same('decode[1]', s, uri.decode(s, 1), ref_decode(s, True))
    same('decode[0]', s, uri.decode(s, 0), ref_decode(s, False))
    same('decode[None]', s, uri.decode(s, None), ref_decode(s, False))

    if joiners and '%' in s:
        tokens = s.encode().split(b'%')
        want = ref_decode(s, False)
        snapshot = list(tokens)
        same('_join_tokens_bytearray', s, uri._join_tokens_bytearray(tokens), want)
        same('_join_tokens_list', s, uri._join_tokens_list(tokens), want)
        same('_join_tokens', s, uri._join_tokens(tokens), want)
        if tokens != snapshot:
            fail('token list mutated for %r' % (s,))

    # --- encoders
    for name, fn, is_value, chk in ENCODERS:
        try:
            enc = fn(s)
        except Exception as ex:  # pragma: no cover
            fail('%s(%r) raised %r' % (name, s, ex))
            continue
        same(name, s, enc, ref_encode(s, is_value, chk))
        rx = OUT_VALUE_RE if is_value else OUT_URI_RE
        if not chk:
            if not rx.match(enc):
                fail('%s(%r) -> %r has non RFC 3986 output' % (name, s, enc))
            # lossless round trip
            same('decode(%s(.))' % name, s, uri.decode(enc, unquote_plus=False), s)
            if is_value:
                same('decode+(%s(.))' % name, s, uri.decode(enc), s)
            # encoding an unchanged string returns the very same text
            if enc == s and not s.rstrip(
                ''.join(UNRESERVED if is_value else UNRESERVED | RESERVED)
            ):
                same(name + ' identity', s, enc, s)
        else:
            # idempotent
            same(name + ' idempotent', s, fn(enc), enc)
            # an already fully escaped string (the output of the plain
            # encoder) is left unchanged
            plain = ENCODERS[1 if is_value else 0][1](s)
            same(name + ' of escaped', plain, fn(plain), plain)
            # output is either the input (judged escaped) or fully encoded
            if enc != s and not rx.match(enc):
                fail('%s(%r) -> %r has non RFC 3986 output' % (name, s, enc))


# --------------------------------------------------------------------------
# 1. exhaustive: all strings up to length 4 over the property's alphabet
# --------------------------------------------------------------------------
ALPHABET = [
    '%', '+', '2', '5', 'a', 'F', 'g', '/', '=', '~', '-', ' ', '\x00',
    'é', '€', '\U0001f600',
]
for n in range(0, 5):
    for tup in itertools.product(ALPHABET, repeat=n):
        check_string(''.join(tup), joiners=(n <= 3))

# --------------------------------------------------------------------------
# 2. hard-coded expectations taken from the unmodified tree
# --------------------------------------------------------------------------
HARD_DECODE = [
    ('', True, ''),
    ('%', True, '%'),
    ('%%', True, '%%'),
    ('%4', True, '%4'),
    ('%41', True, 'A'),
    ('%4g', True, '%4g'),
    ('%%41', True, '%A'),
    ('%2541', True, '%41'),
    ('a+b', True, 'a b'),
    ('a+b', False, 'a+b'),
    ('a%2Bb', True, 'a+b'),
    ('%2b%2B', False, '++'),
    ('%C3%A9', True, 'é'),
    ('%c3%a9', True, 'é'),
    ('%C3', True, '�'),
    ('%FF%FE', True, '��'),
    ('%E2%82%AC', True, '€'),
    ('%F0%9F%98%80', True, '\U0001f600'),
    ('%00', True, '\x00'),
    ('é%41', True, 'éA'),
    ('%+1', True, '% 1'),
    ('%+1', False, '%+1'),
    ('%41%42%43%44%45%46%47%48%49', True, 'ABCDEFGHI'),
    ('%41%4%43%zz%45%%47%48%4', True, 'A%4C%zzE%GH%4'),
]
for s, up, want in HARD_DECODE:
    same('decode hard[%r]' % up, s, uri.decode(s, unquote_plus=up), want)

HARD_ENCODE = [
    # (input, encode, encode_value, encode_check_escaped, encode_value_check_escaped)
    ('', '', '', '', ''),
    ('abc', 'abc', 'abc', 'abc', 'abc'),
    ('a b', 'a%20b', 'a%20b', 'a%20b', 'a%20b'),
    ('a/b', 'a/b', 'a%2Fb', 'a/b', 'a%2Fb'),
    ('%', '%25', '%25', '%25', '%25'),
    ('%2', '%252', '%252', '%252', '%252'),
    ('%26', '%2526', '%2526', '%26', '%26'),
    ('%2g', '%252g', '%252g', '%252g', '%252g'),
    ('%26/', '%2526/', '%2526%2F', '%26/', '%2526%2F'),
    ('%26 ', '%2526%20', '%2526%20', '%2526%20', '%2526%20'),
    ('%%26', '%25%2526', '%25%2526', '%25%2526', '%25%2526'),
    ('%26%', '%2526%25', '%2526%25', '%2526%25', '%2526%25'),
    ('%aF%Fa', '%25aF%25Fa', '%25aF%25Fa', '%aF%Fa', '%aF%Fa'),
    ('é', '%C3%A9', '%C3%A9', '%C3%A9', '%C3%A9'),
    ('€', '%E2%82%AC', '%E2%82%AC', '%E2%82%AC', '%E2%82%AC'),
    ('\U0001f600', '%F0%9F%98%80', '%F0%9F%98%80', '%F0%9F%98%80', '%F0%9F%98%80'),
    ('\x00', '%00', '%00', '%00', '%00'),
    ('\x7f', '%7F', '%7F', '%7F', '%7F'),
    ('%26é', '%2526%C3%A9', '%2526%C3%A9', '%2526%C3%A9', '%2526%C3%A9'),
    ("-._~:/?#[]@!$&'()*+,;=", "-._~:/?#[]@!$&'()*+,;=",
     '-._~%3A%2F%3F%23%5B%5D%40%21%24%26%27%28%29%2A%2B%2C%3B%3D',
     "-._~:/?#[]@!$&'()*+,;=",
     '-._~%3A%2F%3F%23%5B%5D%40%21%24%26%27%28%29%2A%2B%2C%3B%3D'),
    ('"<>\\^`{|}', '%22%3C%3E%5C%5E%60%7B%7C%7D', '%22%3C%3E%5C%5E%60%7B%7C%7D',
     '%22%3C%3E%5C%5E%60%7B%7C%7D', '%22%3C%3E%5C%5E%60%7B%7C%7D'),
]
for row in HARD_ENCODE:
    for (name, fn, _v, _c), want in zip(ENCODERS, row[1:]):
        same(name + ' hard', row[0], fn(row[0]), want)

# every single byte value / every BMP-ish sample code point
for cp in list(range(0, 0x300)) + [0x7FF, 0x800, 0xFFFF, 0x10000, 0x10FFFF]:
    if 0xD800 <= cp <= 0xDFFF:
        continue
    check_string(chr(cp))
    check_string('%' + chr(cp))
    check_string('%4' + chr(cp))
    check_string('%' + chr(cp) + '4')

# every two-character escape body
for a in range(32, 127):
    for b in range(32, 127):
        s = '%' + chr(a) + chr(b)
        same('decode pair', s, uri.decode(s, unquote_plus=False), ref_decode(s, False))
        for name, fn, is_value, chk in ENCODERS[2:]:
            same(name + ' pair', s, fn(s), ref_encode(s, is_value, chk))

# --------------------------------------------------------------------------
# 3. random strings, short and several KB (crossing the < 8 tokens switch)
# --------------------------------------------------------------------------
rng = random.Random(0xC10)
POOL = (
    ['%'] * 6 + ['+'] * 2 + list('0123456789abcdefABCDEF') + list('ghXYZ-._~')
    + list(":/?#[]@!$&'()*+,;=") + [' ', '\x00', '"', '<', '\\', '\x7f', '\x80']
    + ['é', '߿', '€', '￿', '\U0001f600', '\U0010ffff']
)
ESCAPES = ['%%%02X' % b for b in range(256)] + ['%%%02x' % b for b in range(256)]


def rand_string(maxlen, p_escape):
    n = rng.randint(0, maxlen)
    parts = []
    for _ in range(n):
        if rng.random() < p_escape:
            parts.append(rng.choice(ESCAPES))
        else:
            parts.append(rng.choice(POOL))
    return ''.join(parts)


for _ in range(1500):
    check_string(rand_string(12, 0.3), joiners=True)
for _ in range(400):
    check_string(rand_string(60, 0.2), joiners=True)
for _ in range(60):
    check_string(rand_string(4000, 0.15), joiners=True)
# exactly around the 8-token switch: k '%' signs for k in 0..12
for k in range(0, 13):
    for _ in range(40):
        pieces = [rand_string(3, 0.0).replace('%', '') for _ in range(k + 1)]
        check_string('%'.join(pieces), joiners=True)
    check_string('%41' * k, joiners=True)
    check_string('%' * k, joiners=True)
    check_string('%4' * k + '+', joiners=True)
# fully escaped long strings must be unchanged by the check-escaped encoders
for _ in range(200):
    raw = rand_string(200, 0.0)
    for plain, chk in ((uri.encode, uri.encode_check_escaped),
                       (uri.encode_value, uri.encode_value_check_escaped)):
        e = plain(raw)
        same('check_escaped(escaped)', e, chk(e), e)
        same('round trip long', raw, uri.decode(e, unquote_plus=False), raw)
# random pure allowed-char strings are returned unchanged
for _ in range(300):
    s = ''.join(rng.choice(sorted(UNRESERVED)) for _ in range(rng.randint(0, 80)))
    for name, fn, _v, _c in ENCODERS:
        same(name + ' allowed', s, fn(s), s)
        if fn(s) is not s:
            fail('%s(%r) did not return the very same object' % (name, s))

# --------------------------------------------------------------------------
# 4. parse_host: all RFC 3986 authority forms
# --------------------------------------------------------------------------
REG_NAMES = ['example.org', 'localhost', 'a', 'xn--bcher-kva.example', 'a-b.c_d~e',
             'sub.domain.example.com', '%41.example', 'EXAMPLE.ORG', '']
IPV4 = ['127.0.0.1', '0.0.0.0', '255.255.255.255', '192.168.1.10']
IPV6 = ['::1', '::', '2001:db8::1', 'fe80::1%25eth0', '::ffff:192.0.2.1',
        '1:2:3:4:5:6:7:8', 'v1.fe:abc', 'vF.a-b:c']
PORTS = [0, 1, 80, 443, 8080, 65535, 99999]
PORT_TEXTS = [(str(p), p) for p in PORTS] + [('0080', 80), ('00', 0), ('007', 7)]
DEFAULTS = [None, 0, 80, 8000]

for d in DEFAULTS:
    for h in REG_NAMES + IPV4:
        same('parse_host d=%r' % d, h, uri.parse_host(h, d), (h, d))
        same('parse_host kw d=%r' % d, h, uri.parse_host(h, default_port=d), (h, d))
        for text, p in PORT_TEXTS:
            same('parse_host d=%r' % d, h + ':' + text,
                 uri.parse_host(h + ':' + text, d), (h, p))
    for h in IPV6:
        same('parse_host d=%r' % d, '[' + h + ']', uri.parse_host('[' + h + ']', d), (h, d))
        # bare (unbracketed) IPv6: returned untouched with the default port
        if h.count(':') >= 2:
            same('parse_host d=%r' % d, h, uri.parse_host(h, d), (h, d))
        for text, p in PORT_TEXTS:
            same('parse_host d=%r' % d, '[' + h + ']:' + text,
                 uri.parse_host('[' + h + ']:' + text, d), (h, p))
same('parse_host default', 'example.org', uri.parse_host('example.org'), ('example.org', None))
same('parse_host default', '[::1]', uri.parse_host('[::1]'), ('::1', None))
for _ in range(400):
    labels = ['', 'a', 'b-c', 'x1', 'Ex', '0', '~', '_']
    h = '.'.join(rng.choice(labels) for _ in range(rng.randint(1, 5)))
    p = rng.randint(0, 10 ** rng.randint(1, 7))
    d = rng.choice(DEFAULTS)
    same('parse_host rnd', h, uri.parse_host(h, d), (h, d))
    same('parse_host rnd', '%s:%d' % (h, p), uri.parse_host('%s:%d' % (h, p), d), (h, p))
    groups = ':'.join('%x' % rng.randint(0, 0xFFFF) for _ in range(rng.randint(3, 8)))
    same('parse_host rnd6', groups, uri.parse_host('[%s]:%d' % (groups, p), d), (groups, p))
    same('parse_host rnd6', groups, uri.parse_host('[%s]' % groups, d), (groups, d))
    same('parse_host rnd6 bare', groups, uri.parse_host(groups, d), (groups, d))
# hard-coded behaviour of the unmodified tree on non-numeric / empty ports
for bad in ['example.org:', 'example.org:http', '[::1]:', '[::1]:x', 'a:b', ':']:
    try:
        r = uri.parse_host(bad)
    except ValueError:
        count += 1
    except Exception as ex:
        fail('parse_host(%r) raised %r, expected ValueError' % (bad, ex))
    else:
        fail('parse_host(%r) returned %r, expected ValueError' % (bad, r))

# --------------------------------------------------------------------------
# 5. unquote_string against the left-to-right reference scan
# --------------------------------------------------------------------------
QALPHA = ['"', '\\', 'a', ' ', 'é']
for n in range(0, 7):
    for tup in itertools.product(QALPHA, repeat=n):
        s = ''.join(tup)
        same('unquote_string', s, uri.unquote_string(s), ref_unquote_string(s))
for s, want in [('', ''), ('"', '"'), ('""', ''), ('"a"', 'a'), ('a', 'a'),
                ('"a', '"a'), ('a"', 'a"'), ('"a\\"b"', 'a"b'), ('"a\\\\b"', 'a\\b'),
                ('"a\\\\\\b"', 'a\\b'), ('"\\"', ''), ('"\\\\"', '\\')]:
    same('unquote_string hard', s, uri.unquote_string(s), want)
for bad in (None, 5, b'"x"'):
    try:
        r = uri.unquote_string(bad)
    except TypeError:
        count += 1
    except Exception as ex:
        fail('unquote_string(%r) raised %r' % (bad, ex))
    else:
        # bytes: hard-coded behaviour of the unmodified tree
        if bad == b'"x"' and r == b'"x"':
            count += 1
        else:
            fail('unquote_string(%r) returned %r' % (bad, r))

# --------------------------------------------------------------------------
# 6. public surface of the encoders (names, docs, argument handling)
# --------------------------------------------------------------------------
for name, fn, _v, _c in ENCODERS:
    same('__name__', name, fn.__name__, name)
    same('falcon.uri attr', name, getattr(falcon.uri, name) is fn, True)
    if not (fn.__doc__ and 'RFC 3986' in fn.__doc__):
        fail('%s lost its docstring' % name)
    same('kw call', name, fn(uri='a b%'), 'a%20b%25')
    for bad in (None, 5, b'a b'):
        try:
            fn(bad)
        except (AttributeError, TypeError):
            count += 1
        except Exception as ex:
            fail('%s(%r) raised %r' % (name, bad, ex))
        else:
            fail('%s(%r) did not raise' % (name, bad))
    if fn.__qualname__ == name:
        # when the encoder advertises a module-level qualified name it must
        # really be reachable (and hence picklable) under that name
        same('pickle', name, pickle.loads(pickle.dumps(fn)) is fn, True)
for bad in (None, 5, b'a+b%41'):
    for up in (True, False):
        try:
            uri.decode(bad, unquote_plus=up)
        except (AttributeError, TypeError):
            count += 1
        except Exception as ex:
            fail('decode(%r, %r) raised %r' % (bad, up, ex))
        else:
            fail('decode(%r, %r) did not raise' % (bad, up))

# --------------------------------------------------------------------------
# 6b. encoders freshly built by the factory (default arguments keep today's
#     behaviour; an optional name, where supported, changes nothing else)
# --------------------------------------------------------------------------
import inspect

_factory_params = inspect.signature(uri._create_str_encoder).parameters
same('factory leading params', '_create_str_encoder',
     list(_factory_params)[:2], ['is_value', 'check_is_escaped'])
same('factory default', 'check_is_escaped',
     _factory_params['check_is_escaped'].default, False)
_samples = [rand_string(10, 0.3) for _ in range(400)] + ['', '%', '%26', '%2g', 'a b']
for is_value in (False, True):
    for chk in (False, True):
        variants = [uri._create_str_encoder(is_value, chk),
                    uri._create_str_encoder(is_value, check_is_escaped=chk)]
        if not chk:
            variants.append(uri._create_str_encoder(is_value))
        for fresh in variants:
            same('fresh __name__', (is_value, chk), fresh.__name__, 'encoder')
        if 'name' in _factory_params:
            same('name default', 'name', _factory_params['name'].default, None)
            named = uri._create_str_encoder(is_value, chk, name='my_encoder')
            same('named __name__', (is_value, chk), named.__name__, 'my_encoder')
            same('named __qualname__', (is_value, chk), named.__qualname__, 'my_encoder')
            variants.append(named)
            variants.append(uri._create_str_encoder(is_value, chk, name=None))
        for fresh in variants:
            for s_ in _samples:
                same('fresh encoder %r' % ((is_value, chk),), s_, fresh(s_),
                     ref_encode(s_, is_value, chk))

# --------------------------------------------------------------------------
# 7. WSGI and ASGI: the decoders/encoders as used by the framework
# --------------------------------------------------------------------------
import falcon.asgi
import falcon.testing as testing


class Res:
    def on_get(self, req, resp, name):
        resp.media = {'name': name, 'q': req.get_param('q'), 'host': req.host,
                      'port': req.port}
        resp.location = req.get_param('loc') or '/x'


class ARes:
    async def on_get(self, req, resp, name):
        resp.media = {'name': name, 'q': req.get_param('q'), 'host': req.host,
                      'port': req.port}
        resp.location = req.get_param('loc') or '/x'


wapp = falcon.App()
wapp.add_route('/r/{name}', Res())
aapp = falcon.asgi.App()
aapp.add_route('/r/{name}', ARes())
for client in (testing.TestClient(wapp), testing.TestClient(aapp)):
    for raw in ['abc', 'a b', 'é+x', '100%', '%41', 'a?b&c=d', '\U0001f600',
                '%zz%4', 'x' * 40 + '%' * 9]:
        r = client.simulate_get(
            '/r/' + uri.encode_value(raw),
            query_string='q=' + uri.encode_value(raw) + '&loc=' + uri.encode_value(raw),
            host='example.org', port=8042,
        )
        same('path param', raw, r.json['name'], raw)
        same('query param', raw, r.json['q'], raw)
        same('host', raw, (r.json['host'], r.json['port']), ('example.org', 8042))
        same('location', raw, r.headers['location'], ref_encode(raw, False, True))

if failures:
    print('%d FAILURES out of %d checks (focus: %s)' % (len(failures), count, FOCUS))
    sys.exit(1)
print('PASS (%d checks; focus: %s)' % (count, FOCUS))
