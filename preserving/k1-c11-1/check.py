"""Property C11 check: content negotiation + media-handler resolution.

Run as:  PYTHONPATH=<falcon tree> /venv/bin/python check.py

The program generates Accept headers / media types from a *structured* form
(so that the reference model never has to parse anything), serialises them
with plenty of syntactic noise, and compares falcon's answers with a small,
independent reference model of the documented RFC 9110 precedence:

    (exact type, exact subtype, exact parameter match, # matching params, q)

It also replays random mutation histories on falcon.media.Handlers against a
plain-dict model, and exercises Request.client_accepts / client_prefers on
both the WSGI and the ASGI request classes, plus the default error serializer
(falcon/app_helpers.py) through both test clients.

Prints PASS and exits 0 when every expectation holds.
"""

import asyncio
import copy
import os
import random
import sys

import falcon
import falcon.asgi
from falcon import errors
from falcon import testing
from falcon.media import BaseHandler
from falcon.media import Handlers
from falcon.util import mediatypes

FOCUS = 'change 1: refactoring of handlers._best_match / resolver not-found branch / client_prefers'

SEED = 20261001
rnd = random.Random(SEED)

failures = []
counters = {}


def count(name, n=1):
    counters[name] = counters.get(name, 0) + n


def fail(msg):
    failures.append(msg)
    if len(failures) > 25:
        report()


def report():
    if failures:
        for f in failures[:25]:
            print('FAIL:', f)
        print('FAILED ({} failures)'.format(len(failures)))
        sys.exit(1)
    print(
        'cases:', ', '.join('{}={}'.format(k, v) for k, v in sorted(counters.items()))
    )
    print('PASS')
    sys.exit(0)


# ---------------------------------------------------------------------------
# Structured media types / ranges and their (noisy) serialisation
# ---------------------------------------------------------------------------

MAIN_TYPES = ['text', 'application', 'image', 'Text', 'x']
SUBTYPES = ['plain', 'html', 'json', 'xml', 'vnd.api+json', 'PLAIN', 'x-yaml']
PNAMES = ['charset', 'level', 'version', 'profile', 'v']
PVALUES_PLAIN = ['utf-8', 'UTF-8', '1', '2', 'a', 'x.y', '']
# Values that need quoting (commas, semicolons, equals signs, blanks, quotes).
PVALUES_QUOTED = ['a,b', 'a;b', 'a=b', ' lead', 'trail ', 'q=0', 'x,y;z=1', 'say "hi"',
                  ',', ';', 'text/html', '"', 'a, b; q=0.0']

VALID_Q = [
    ('0', 0.0), ('1', 1.0), ('0.5', 0.5), ('0.123', 0.123), ('0.1234', 0.1234),
    ('1.0', 1.0), ('1.000', 1.0), ('1.0000', 1.0), ('0.0', 0.0), ('0.000', 0.0),
    ('.5', 0.5), ('0.', 0.0), ('1.', 1.0), ('1e-1', 0.1), ('0.9', 0.9), ('0.8', 0.8),
    ('0.7', 0.7), ('0.001', 0.001), ('0.999', 0.999), ('+0.5', 0.5), ('-0', 0.0),
    ('-0.0', 0.0), ('00.5', 0.5), ('0_1', 1.0), ('5e-1', 0.5), ('1E0', 1.0),
]
INVALID_Q = ['2', '-0.1', 'nan', 'NaN', 'inf', '-inf', 'Infinity', '+inf', 'abc', '',
             '1.1', '1.0001', '0,5', '1e1', '-1', '0x1', '--1', '1_0', '½', 'q',
             '-nan', '1e999', '-1e999', '0.5.1']
INVALID_MEMBERS = ['', ' ', 'text', 'texthtml;q=0.5', ';q=0.5', 'json', '**', 'text;/html',
                   'a b', 'nonsense']


class MT:
    """A structured media type or range."""

    def __init__(self, main, sub, params, q=None):
        self.main = main
        self.sub = sub
        self.params = dict(params)  # name (lowercase) -> value
        self.q = q  # None: absent (=> 1.0); float otherwise

    @property
    def quality(self):
        return 1.0 if self.q is None else self.q


def gen_type(wild=0.25, nparams=None, names=PNAMES):
    r = rnd.random()
    if r < wild / 2:
        main, sub = '*', '*'
    elif r < wild:
        main, sub = rnd.choice(MAIN_TYPES), '*'
    elif r < wild * 1.1:
        # Unusual but accepted by the parser: wildcard main with concrete sub.
        main, sub = '*', rnd.choice(SUBTYPES)
    else:
        main, sub = rnd.choice(MAIN_TYPES[:3] + MAIN_TYPES), rnd.choice(SUBTYPES)
    if nparams is None:
        nparams = rnd.choice([0, 0, 0, 1, 1, 2, 3])
    params = {}
    for name in rnd.sample(names, nparams):
        if rnd.random() < 0.2:
            params[name] = rnd.choice(PVALUES_QUOTED)
        else:
            params[name] = rnd.choice(PVALUES_PLAIN)
    return main, sub, params


def ws():
    return rnd.choice(['', '', '', ' ', '  ', '\t'])


def quote(value):
    return '"' + value.replace('"', '\\"') + '"'


def needs_quote(value):
    return any(c in value for c in ',;"') or value != value.strip()


def ser_param(name, value, force_quote=False):
    # Parameter names are case-insensitive.
    shown = name.upper() if rnd.random() < 0.15 else name
    if force_quote or needs_quote(value) or rnd.random() < 0.1:
        value = quote(value)
    return '{}{}{}={}{}'.format(ws(), shown, ws(), ws(), value)


def serialise(main, sub, params, q_text=None, extra_noise=True):
    """Serialise a structured type; returns the text."""
    if main == '*' and sub == '*' and rnd.random() < 0.2:
        full = '*'  # the Java URLConnection quirk
    else:
        full = '{}{}/{}{}'.format(main, ws() if extra_noise else '', ws() if extra_noise else '', sub)
    parts = [ser_param(n, v) for n, v in params.items()]
    if q_text is not None:
        qname = rnd.choice(['q', 'q', 'q', 'Q'])
        if rnd.random() < 0.1:
            qpart = '{}{}={}'.format(ws(), qname, quote(q_text))
        else:
            qpart = '{}{}{}={}{}'.format(ws(), qname, ws(), ws(), q_text)
        parts.insert(rnd.randint(0, len(parts)), qpart)
    if extra_noise and rnd.random() < 0.1:
        # A parameter without '=' is ignored; an empty one too.
        parts.insert(rnd.randint(0, len(parts)), rnd.choice([' flag', '', ' ']))
    text = ws() + full + ws()
    for part in parts:
        text += ';' + part
    return text + ws()


def gen_range(allow_invalid=True):
    """Returns (text, MT or None if the member is malformed)."""
    r = rnd.random()
    if allow_invalid and r < 0.04:
        return rnd.choice(INVALID_MEMBERS), None
    main, sub, params = gen_type()
    if allow_invalid and r < 0.09:
        q_text = rnd.choice(INVALID_Q)
        if needs_quote(q_text):
            q_text = 'bad'
        return serialise(main, sub, params, q_text), None
    if rnd.random() < 0.55:
        q_text, q = rnd.choice(VALID_Q)
        text = serialise(main, sub, params, q_text)
        if rnd.random() < 0.1:
            # Duplicate q: the last one wins.
            q_text2, q = rnd.choice(VALID_Q)
            text += ';q=' + q_text2
        return text, MT(main, sub, params, q)
    return serialise(main, sub, params), MT(main, sub, params)


def gen_header(allow_invalid=True, maxlen=6):
    n = rnd.choice([1, 1, 2, 2, 3, 4, maxlen])
    members = [gen_range(allow_invalid) for _ in range(n)]
    if rnd.random() < 0.15 and members:
        # duplicates, possibly with a different q
        members.insert(rnd.randint(0, len(members)), rnd.choice(members))
    text = ','.join(m[0] for m in members)
    ranges = [m[1] for m in members]
    return text, ranges


def gen_candidate(related_to=None):
    """Returns (text, MT or None if malformed)."""
    if rnd.random() < 0.03:
        return rnd.choice(['text', '', 'nonsense', ' ']), None
    if related_to and rnd.random() < 0.7:
        base = rnd.choice(related_to)
        main = base.main if base.main != '*' and rnd.random() < 0.9 else rnd.choice(MAIN_TYPES)
        sub = base.sub if base.sub != '*' and rnd.random() < 0.8 else rnd.choice(SUBTYPES)
        params = {}
        for name, value in base.params.items():
            r = rnd.random()
            if r < 0.7:
                params[name] = value
            elif r < 0.8:
                params[name] = rnd.choice(PVALUES_PLAIN)
        if rnd.random() < 0.25:
            params[rnd.choice(PNAMES)] = rnd.choice(PVALUES_PLAIN)
        if rnd.random() < 0.05:
            main, sub = rnd.choice([('*', '*'), (main, '*')])
    else:
        main, sub, params = gen_type(wild=0.08)
    # NOTE: 'q' on a media type (not a range) is an ordinary parameter.
    if rnd.random() < 0.03:
        params['q'] = rnd.choice(['0', '1', '0.5'])
    return serialise(main, sub, params), MT(main, sub, params)


# ---------------------------------------------------------------------------
# Reference model
# ---------------------------------------------------------------------------

class RefInvalidType(Exception):
    pass


class RefInvalidRange(Exception):
    pass


def ref_score(rng, mt):
    if rng.main != '*' and mt.main != '*':
        if rng.main != mt.main:
            return None
        main = 1
    else:
        main = 0
    if rng.sub != '*' and mt.sub != '*':
        if rng.sub != mt.sub:
            return None
        sub = 1
    else:
        sub = 0
    shared = [n for n in rng.params if n in mt.params]
    for n in shared:
        if rng.params[n] != mt.params[n]:
            return None
    exact = 1 if sorted(rng.params) == sorted(mt.params) else 0
    return (main, sub, exact, len(shared), rng.quality)


def ref_quality(mt, ranges):
    if mt is None:
        raise RefInvalidType()
    if any(r is None for r in ranges):
        raise RefInvalidRange()
    best = None
    for r in ranges:
        s = ref_score(r, mt)
        if s is not None and (best is None or s > best):
            best = s
    return 0.0 if best is None else best[4]


def ref_best_match(cands, ranges):
    """cands: list of (text, MT|None). Returns text or ''."""
    best_text, best_q = '', None
    for text, mt in cands:
        q = ref_quality(mt, ranges)  # may raise, in candidate order
        if best_q is None or q > best_q:
            best_text, best_q = text, q
    if best_q is None or not best_q > 0.0:
        return ''
    return best_text


# ---------------------------------------------------------------------------
# Section A: mediatypes.quality / best_match vs the reference
# ---------------------------------------------------------------------------

def falcon_quality(text, header):
    try:
        return ('ok', mediatypes.quality(text, header))
    except errors.InvalidMediaRange as ex:
        return ('range', ex)
    except errors.InvalidMediaType as ex:
        return ('type', ex)


def expect_quality(mt, ranges):
    try:
        return ('ok', ref_quality(mt, ranges))
    except RefInvalidType:
        return ('type', None)
    except RefInvalidRange:
        return ('range', None)


def check_error_instance(kind, ex, where):
    # Documented value errors only.
    if not isinstance(ex, ValueError) or not isinstance(ex, errors.InvalidMediaType):
        fail('{}: not a documented value error: {!r}'.format(where, ex))
    if kind == 'range' and type(ex) is not errors.InvalidMediaRange:
        fail('{}: expected InvalidMediaRange, got {!r}'.format(where, ex))
    if kind == 'type' and type(ex) is not errors.InvalidMediaType:
        fail('{}: expected InvalidMediaType, got {!r}'.format(where, ex))
    if not str(ex):
        fail('{}: empty error message'.format(where))


def section_a(n_headers=900):
    for _ in range(n_headers):
        header, ranges = gen_header()
        valid_ranges = [r for r in ranges if r is not None]
        cands = [gen_candidate(valid_ranges) for _ in range(rnd.choice([0, 1, 2, 3, 5, 8]))]
        if rnd.random() < 0.2 and cands:
            cands.append(rnd.choice(cands))  # duplicate candidates

        for text, mt in cands:
            got = falcon_quality(text, header)
            exp = expect_quality(mt, ranges)
            count('quality')
            if got[0] != exp[0]:
                fail('quality({!r}, {!r}): got {!r}, expected {!r}'.format(text, header, got, exp))
            elif got[0] == 'ok':
                if got[1] != exp[1] or type(got[1]) is not float:
                    fail('quality({!r}, {!r}) = {!r}, expected {!r}'.format(
                        text, header, got[1], exp[1]))
            else:
                check_error_instance(got[0], got[1], 'quality({!r}, {!r})'.format(text, header))

        # best_match, with different iterable kinds
        try:
            exp = ('ok', ref_best_match(cands, ranges))
        except RefInvalidType:
            exp = ('type', None)
        except RefInvalidRange:
            exp = ('range', None)
        texts = [c[0] for c in cands]
        for maker in (list, tuple, iter, lambda t: (x for x in t)):
            count('best_match')
            try:
                got = ('ok', mediatypes.best_match(maker(texts), header))
            except errors.InvalidMediaRange as ex:
                got = ('range', ex)
            except errors.InvalidMediaType as ex:
                got = ('type', ex)
            if got[0] != exp[0] or (got[0] == 'ok' and got[1] != exp[1]):
                fail('best_match({!r}, {!r}): got {!r}, expected {!r}'.format(
                    texts, header, got, exp))
            elif got[0] != 'ok':
                check_error_instance(got[0], got[1], 'best_match({!r}, {!r})'.format(texts, header))
            elif got[1]:
                # A candidate whose best range has q=0 / no match is never chosen.
                chosen = dict(cands)[got[1]]
                if not ref_quality(chosen, ranges) > 0.0:
                    fail('best_match chose unacceptable {!r} for {!r}'.format(got[1], header))


# Hard-coded expectations (documented precedence + corner cases); these values
# were confirmed on the unmodified tree.
LITERAL_QUALITY = [
    ('text/html', 'text/*;q=0.3, text/html;q=0.7, text/html;level=1, */*;q=0.5', 0.7),
    ('text/html;level=1', 'text/*;q=0.3, text/html;q=0.7, text/html;level=1, */*;q=0.5', 1.0),
    ('text/plain', 'text/*;q=0.3, text/html;q=0.7, text/html;level=1, */*;q=0.5', 0.3),
    ('image/jpeg', 'text/*;q=0.3, text/html;q=0.7, text/html;level=1, */*;q=0.5', 0.5),
    ('text/html;level=2', 'text/*;q=0.3, text/html;q=0.7, text/html;level=1, */*;q=0.5', 0.7),
    ('text/html;level=2', 'image/*;q=0.3, text/html;level=1', 0.0),
    ('text/html;level=3', 'text/*;q=0.3, text/html;q=0.7;x=1, text/html;level=1, */*;q=0.5', 0.7),
    ('text/html', 'text/html;q=0, */*', 0.0),
    ('text/html', '*/*, text/html;q=0', 0.0),
    ('text/html', 'text/html;q=0.2, text/html;q=0.6, text/html;q=0.4', 0.6),
    ('text/html', 'image/png', 0.0),
    ('text/html', '*', 1.0),
    ('text/html', '*;q=0.25', 0.25),
    ('text/html', 'text/html;charset=utf-8;q=0.9, text/html;q=0.4', 0.4),
    ('text/html;charset=utf-8', 'text/html;charset=utf-8;q=0.9, text/html;q=1', 0.9),
    ('text/html;charset=utf-8', 'text/html;charset=latin1, */*;q=0.1', 0.1),
    ('text/html;a=1;b=2', 'text/html;a=1;q=0.2, text/html;a=1;b=2;c=3;q=0.3', 0.3),
    ('text/html;a=1;b=2', 'text/html;a=1;b=2;c=3;q=0.3, text/html;b=2;a=1;q=0.2', 0.2),
    ('text/html', 'text/html;title="a,b";q=0.5', 0.5),
    ('text/html;title="a,b"', 'text/html;title="a,b";q=0.5, text/html;q=0.7', 0.5),
    ('text/html', 'text/html;title="q=0, x";q=0.75', 0.75),
    ('text/html', 'Text/HTML', 0.0),
    ('text/html', 'text/html;Q=0.125', 0.125),
    ('text/html', ' text / html ; q = 0.5 ', 0.5),
    ('text/html', 'text/html;q=1.0000', 1.0),
    ('text/html', 'text/html;q=0.33333', 0.33333),
    ('*/*', 'text/html;q=0.5', 0.5),
    ('text/*', 'image/png, text/html;q=0.5', 0.5),
]

LITERAL_ERRORS = [
    ('text/html', 'text/html;q=2', errors.InvalidMediaRange),
    ('text/html', 'text/html;q=-0.5', errors.InvalidMediaRange),
    ('text/html', 'text/html;q=nan', errors.InvalidMediaRange),
    ('text/html', 'text/html;q=NaN', errors.InvalidMediaRange),
    ('text/html', 'text/html;q=inf', errors.InvalidMediaRange),
    ('text/html', 'text/html;q=-inf', errors.InvalidMediaRange),
    ('text/html', 'text/html;q=Infinity', errors.InvalidMediaRange),
    ('text/html', 'text/html;q=1e999', errors.InvalidMediaRange),
    ('text/html', 'text/html;q=', errors.InvalidMediaRange),
    ('text/html', 'text/html;q=high', errors.InvalidMediaRange),
    ('text/html', 'text/html;q="0.5', errors.InvalidMediaRange),
    ('text/html', 'text/html,', errors.InvalidMediaRange),
    ('text/html', ',text/html', errors.InvalidMediaRange),
    ('text/html', 'text/html,,image/png', errors.InvalidMediaRange),
    ('text/html', '', errors.InvalidMediaRange),
    ('text/html', 'text', errors.InvalidMediaRange),
    ('text/html', 'image/png, html;q=0.5', errors.InvalidMediaRange),
    ('text', 'text/html', errors.InvalidMediaType),
    ('', '*/*', errors.InvalidMediaType),
    ('text', 'garbage', errors.InvalidMediaType),
]

LITERAL_BEST = [
    (['application/json', 'text/html'], 'text/html;q=0.9, application/json;q=0.9', 'application/json'),
    (['text/html', 'application/json'], 'text/html;q=0.9, application/json;q=0.9', 'text/html'),
    (['application/json', 'text/html'], 'text/*;q=0.9, application/json;q=0.8', 'text/html'),
    (['application/json', 'text/html'], '*/*;q=0', ''),
    (['application/json', 'text/html'], 'text/html;q=0, */*;q=0.1', 'application/json'),
    (['text/html'], 'text/html;q=0, */*;q=0.1', ''),
    (['text/html'], 'image/png', ''),
    ([], 'image/png', ''),
    ([], 'garbage', ''),
    (['application/json', 'application/xml'], 'application/*', 'application/json'),
    (['text/plain', 'text/plain;format=flowed'], 'text/plain;format=flowed;q=0.5, text/plain;q=0.4',
     'text/plain;format=flowed'),
    (['text/plain;format=fixed', 'text/plain'], 'text/plain;format=flowed, */*;q=0.1', 'text/plain'),
]


def section_a_literals():
    for reps in range(2):  # second round hits the LRU caches
        for mt, header, exp in LITERAL_QUALITY:
            count('literal')
            got = falcon_quality(mt, header)
            if got != ('ok', exp):
                fail('literal quality({!r}, {!r}) = {!r}, expected {!r}'.format(mt, header, got, exp))
        for mt, header, cls in LITERAL_ERRORS:
            count('literal')
            try:
                res = mediatypes.quality(mt, header)
            except ValueError as ex:
                if type(ex) is not cls:
                    fail('literal error quality({!r}, {!r}): {!r}, expected {}'.format(
                        mt, header, ex, cls.__name__))
                if not str(ex):
                    fail('empty message for quality({!r}, {!r})'.format(mt, header))
            else:
                fail('literal error quality({!r}, {!r}) returned {!r}'.format(mt, header, res))
        for cands, header, exp in LITERAL_BEST:
            count('literal')
            got = mediatypes.best_match(cands, header)
            if got != exp:
                fail('literal best_match({!r}, {!r}) = {!r}, expected {!r}'.format(
                    cands, header, got, exp))
        # Malformed header + non-empty candidates => the documented error
        for header in ('garbage', 'text/html;q=5', 'text/html,,'):
            count('literal')
            try:
                res = mediatypes.best_match(['text/html'], header)
            except errors.InvalidMediaRange:
                pass
            else:
                fail('best_match on {!r} returned {!r}'.format(header, res))

    # q-value diagnostics: message must keep naming the q parameter rule.
    for q in INVALID_Q:
        if needs_quote(q):
            continue
        count('literal')
        try:
            mediatypes.quality('a/b', 'a/b;q=' + q)
        except errors.InvalidMediaRange as ex:
            if 'q parameter must be a real number in the range 0 through 1' not in str(ex):
                fail('unexpected q error text: {!r}'.format(str(ex)))
        else:
            fail('q={!r} accepted'.format(q))
    for bad in ('text', '', 'foo;q=1'):
        count('literal')
        try:
            mediatypes.quality('a/b', bad)
        except errors.InvalidMediaRange as ex:
            if 'media range value must contain type/subtype' not in str(ex):
                fail('unexpected range error text: {!r}'.format(str(ex)))
            if not isinstance(ex.__cause__, errors.InvalidMediaType):
                fail('range error lost its cause: {!r}'.format(ex.__cause__))


# Direct checks on the internal scoring function (the 5-tuple itself).
def section_a_scores(n=600):
    for _ in range(n):
        text_r, rng = gen_range(allow_invalid=False)
        text_t, mt = gen_candidate([rng])
        if mt is None:
            continue
        count('score')
        parsed_range = mediatypes._MediaRange.parse(text_r)
        parsed_type = mediatypes._MediaType.parse(text_t)
        params_before = (dict(parsed_range.params), dict(parsed_type.params))
        got = parsed_range.match_score(parsed_type)
        exp = ref_score(rng, mt)
        if exp is None:
            exp = (-1, -1, -1, -1, 0.0)
        if got != exp or not isinstance(got, tuple) or len(got) != 5:
            fail('match_score({!r}, {!r}) = {!r}, expected {!r}'.format(text_r, text_t, got, exp))
        if (parsed_range.params, parsed_type.params) != params_before:
            fail('match_score mutated params for {!r} / {!r}'.format(text_r, text_t))
        if (parsed_range.main_type, parsed_range.subtype, parsed_range.params,
                parsed_range.quality) != (rng.main, rng.sub, rng.params, rng.quality):
            fail('range parse mismatch for {!r}: {!r}'.format(text_r, parsed_range))
        if (parsed_type.main_type, parsed_type.subtype, parsed_type.params) != (
                mt.main, mt.sub, mt.params):
            fail('type parse mismatch for {!r}: {!r}'.format(text_t, parsed_type))


# ---------------------------------------------------------------------------
# Section B: Handlers mutation histories
# ---------------------------------------------------------------------------

class H(BaseHandler):
    def __init__(self, name, sync=False):
        self.name = name
        if sync:
            self._serialize_sync = self.serialize
            self._deserialize_sync = self.deserialize

    def serialize(self, media, content_type):
        return b''

    def deserialize(self, stream, content_type, content_length):
        return None

    def __repr__(self):
        return 'H({})'.format(self.name)


class HandlersSub(Handlers):
    pass


_hcount = [0]


def new_handler():
    _hcount[0] += 1
    return H(_hcount[0], sync=rnd.random() < 0.5)


KEY_POOL = []  # (text, MT)


def build_key_pool():
    fixed = [
        ('application/json', MT('application', 'json', {})),
        ('application/xml', MT('application', 'xml', {})),
        ('text/html', MT('text', 'html', {})),
        ('text/plain', MT('text', 'plain', {})),
        ('text/plain; charset=utf-8', MT('text', 'plain', {'charset': 'utf-8'})),
        ('application/json; version=1', MT('application', 'json', {'version': '1'})),
        ('application/json; version=2', MT('application', 'json', {'version': '2'})),
        ('application/vnd.api+json', MT('application', 'vnd.api+json', {})),
        ('text/*', MT('text', '*', {})),
        ('*/*', MT('*', '*', {})),
        ('image/png', MT('image', 'png', {})),
        ('bogus', None),
    ]
    KEY_POOL.extend(fixed)
    seen = set(k for k, _ in fixed)
    while len(KEY_POOL) < 28:
        text, mt = gen_candidate()
        if text not in seen and text.strip():
            seen.add(text)
            KEY_POOL.append((text, mt))


def gen_content_type(model_keys):
    """Returns (text, [MT|None]): the 'header' for the resolver (a single range,
    though a comma makes it several)."""
    r = rnd.random()
    if r < 0.06:
        return rnd.choice([None, '', '*/*']), 'default'
    if r < 0.45 and model_keys:
        text = rnd.choice(model_keys)
        return text, None  # parsed lazily through pool
    if r < 0.55:
        text, mt = rnd.choice(KEY_POOL)
        return text, None
    if r < 0.62:
        return rnd.choice(['garbage', 'text', 'text/html;q=7', 'text/html,', ' ']), 'invalid'
    header, ranges = gen_header(allow_invalid=False, maxlen=2)
    if rnd.random() < 0.7:
        # make it related to an existing key
        pool = dict(KEY_POOL)
        related = [pool[k] for k in model_keys if pool.get(k) is not None]
        if related:
            base = rnd.choice(related)
            params = dict(base.params)
            if rnd.random() < 0.5:
                params[rnd.choice(PNAMES)] = rnd.choice(PVALUES_PLAIN)
            q_text, q = rnd.choice(VALID_Q + [(None, None)] * 20)
            main = base.main if rnd.random() < 0.9 else '*'
            sub = base.sub if rnd.random() < 0.8 else '*'
            header = serialise(main, sub, params, q_text)
            ranges = [MT(main, sub, params, q)]
    return header, ranges


def model_resolve(model, pool, ctype, ranges, default):
    """Returns the expected handler, or None for 'not found'.
    Also returns the effective media type string."""
    if ctype == '*/*' or not ctype:
        ctype, ranges = default, None
    handler = model.get(ctype)
    if handler is not None:
        return handler, ctype
    if ranges == 'invalid':
        return None, ctype
    if ranges is None:
        ranges = [pool[ctype]]
    cands = [(k, pool[k]) for k in model]
    try:
        matched = ref_best_match(cands, ranges)
    except (RefInvalidRange, RefInvalidType):
        return None, ctype
    if not matched:
        return None, ctype
    return model[matched], ctype


def check_resolve(h, model, pool, where):
    keys = list(model)
    ctype, ranges = gen_content_type(keys)
    if ranges == 'default':
        ranges = None
    default_text, _ = rnd.choice(KEY_POOL[:8])
    if ranges is None and ctype and ctype != '*/*' and ctype not in pool:
        return
    exp, effective = model_resolve(model, pool, ctype, ranges, default_text)
    count('resolve')

    got = h._resolve(ctype, default_text, raise_not_found=False)
    if exp is None:
        if got != (None, None, None):
            fail('{}: _resolve({!r}, {!r}) = {!r}, expected not found; keys={!r}'.format(
                where, ctype, default_text, got, keys))
    else:
        if got[0] is not exp:
            fail('{}: _resolve({!r}, {!r}) -> {!r}, expected {!r}; keys={!r}'.format(
                where, ctype, default_text, got[0], exp, keys))
        elif got[1:] != (getattr(exp, '_serialize_sync', None),
                         getattr(exp, '_deserialize_sync', None)):
            fail('{}: _resolve({!r}) sync attrs mismatch'.format(where, ctype))

    # raise_not_found=True (explicitly, or by default / positionally)
    style = rnd.randrange(3)
    try:
        if style == 0:
            got = h._resolve(ctype, default_text)
        elif style == 1:
            got = h._resolve(ctype, default_text, True)
        else:
            got = h._resolve(ctype, default_text, raise_not_found=True)
    except falcon.HTTPUnsupportedMediaType as ex:
        if exp is not None:
            fail('{}: _resolve({!r}) raised 415, expected {!r}; keys={!r}'.format(
                where, ctype, exp, keys))
        if ex.status != falcon.HTTP_415 or ex.status_code != 415:
            fail('{}: wrong status {!r}'.format(where, ex.status))
        if ex.description != '{} is an unsupported media type.'.format(effective):
            fail('{}: wrong 415 description {!r}'.format(where, ex.description))
    else:
        if exp is None:
            fail('{}: _resolve({!r}) returned {!r}, expected 415; keys={!r}'.format(
                where, ctype, got, keys))
        elif got[0] is not exp:
            fail('{}: _resolve({!r}) -> {!r}, expected {!r}; keys={!r}'.format(
                where, ctype, got[0], exp, keys))


def section_b(n_histories=140, steps=45):
    pool = dict(KEY_POOL)
    for hist in range(n_histories):
        cls = Handlers if hist % 3 else HandlersSub
        model = {}
        for text, _ in rnd.sample(KEY_POOL, rnd.choice([0, 1, 2, 3, 5])):
            model[text] = new_handler()
        h = cls(dict(model)) if hist % 2 else cls(model.copy())
        objs = [(h, model)]  # several live mappings (copies) evolve independently

        for step in range(steps):
            idx = rnd.randrange(len(objs))
            h, model = objs[idx]
            where = 'history {} step {}'.format(hist, step)
            # Warm the cache before mutating, so that staleness would show.
            for _ in range(rnd.choice([0, 1, 2, 3])):
                check_resolve(h, model, pool, where + ' (pre)')

            op = rnd.choice(['set', 'set', 'set', 'replace', 'del', 'update_dict', 'update_kw',
                             'update_pairs', 'pop', 'pop_default', 'popitem', 'clear', 'copy',
                             'copy_copy', 'ior', 'setdefault', 'or'])
            count('mutation')
            key = rnd.choice(KEY_POOL)[0]
            if op == 'set':
                hd = new_handler()
                h[key] = hd
                model[key] = hd
            elif op == 'replace' and model:
                key = rnd.choice(list(model))
                hd = new_handler()
                h[key] = hd
                model[key] = hd
            elif op == 'del':
                if model and rnd.random() < 0.8:
                    key = rnd.choice(list(model))
                if key in model:
                    del h[key]
                    del model[key]
                else:
                    try:
                        del h[key]
                    except KeyError:
                        pass
                    else:
                        fail(where + ': del of a missing key did not raise')
            elif op == 'update_dict':
                upd = {k: new_handler() for k, _ in rnd.sample(KEY_POOL, 2)}
                if model and rnd.random() < 0.5:
                    upd[rnd.choice(list(model))] = new_handler()
                h.update(upd)
                model.update(upd)
            elif op == 'update_kw':
                hd = new_handler()
                h.update(**{'text/plain': hd})
                model.update(**{'text/plain': hd})
            elif op == 'update_pairs':
                upd = [(k, new_handler()) for k, _ in rnd.sample(KEY_POOL, 2)]
                h.update(upd)
                model.update(upd)
            elif op == 'pop' and model:
                key = rnd.choice(list(model))
                if h.pop(key) is not model.pop(key):
                    fail(where + ': pop returned a different handler')
            elif op == 'pop_default':
                sentinel = object()
                a = h.pop(key, sentinel)
                b = model.pop(key, sentinel)
                if a is not b:
                    fail(where + ': pop(default) mismatch')
            elif op == 'popitem' and model:
                k, v = h.popitem()
                if model.get(k) is not v:
                    fail(where + ': popitem returned unknown pair')
                del model[k]
            elif op == 'clear' and rnd.random() < 0.4:
                h.clear()
                model.clear()
            elif op == 'copy':
                h2 = h.copy()
                if type(h2) is not type(h):
                    fail(where + ': copy() changed the type')
                objs.append((h2, dict(model)))
            elif op == 'copy_copy':
                h2 = copy.copy(h)
                if type(h2) is not type(h):
                    fail(where + ': copy.copy() changed the type')
                objs.append((h2, dict(model)))
            elif op == 'ior':
                upd = {k: new_handler() for k, _ in rnd.sample(KEY_POOL, 2)}
                if model and rnd.random() < 0.5:
                    upd[rnd.choice(list(model))] = new_handler()
                h_before = h
                if rnd.random() < 0.5:
                    h |= upd
                else:
                    h |= Handlers(upd)
                if h is not h_before:
                    fail(where + ': |= rebinds')
                model.update(upd)
            elif op == 'setdefault':
                hd = new_handler()
                a = h.setdefault(key, hd)
                b = model.setdefault(key, hd)
                if a is not b:
                    fail(where + ': setdefault mismatch')
            elif op == 'or':
                upd = {k: new_handler() for k, _ in rnd.sample(KEY_POOL, 2)}
                h2 = h | upd
                m2 = dict(model)
                m2.update(upd)
                if isinstance(h2, Handlers):
                    objs.append((h2, m2))

            if list(h.keys()) != list(model.keys()):
                fail('{}: keys diverged after {}: {!r} vs {!r}'.format(
                    where, op, list(h.keys()), list(model.keys())))
            # Resolve on every live mapping after the mutation.
            for h_i, model_i in objs:
                for _ in range(2):
                    check_resolve(h_i, model_i, pool, where + ' (post ' + op + ')')
            if len(objs) > 4:
                del objs[rnd.randrange(len(objs))]

    # Default handlers and literal expectations
    count('resolve')
    d = Handlers()
    if list(d) != [falcon.MEDIA_JSON, falcon.MEDIA_MULTIPART, falcon.MEDIA_URLENCODED]:
        fail('default handlers changed: {!r}'.format(list(d)))
    if d._resolve('application/json; charset=utf-8', falcon.MEDIA_JSON)[0] is not d[falcon.MEDIA_JSON]:
        fail('default JSON handler not resolved')
    if d._resolve(None, falcon.MEDIA_JSON)[0] is not d[falcon.MEDIA_JSON]:
        fail('default type fallback broken')
    try:
        d._resolve('nope/json', falcon.MEDIA_JSON)
    except falcon.HTTPUnsupportedMediaType as ex:
        if ex.description != 'nope/json is an unsupported media type.':
            fail('415 description changed: {!r}'.format(ex.description))
    else:
        fail('nope/json did not raise 415')
    j1 = d[falcon.MEDIA_JSON]
    j2 = H('replacement')
    d[falcon.MEDIA_JSON] = j2
    if d._resolve('application/json', falcon.MEDIA_JSON)[0] is not j2:
        fail('stale handler after replacement')
    del d[falcon.MEDIA_JSON]
    if d._resolve('application/json', falcon.MEDIA_JSON, raise_not_found=False) != (None, None, None):
        fail('stale handler after deletion')
    del j1


# ---------------------------------------------------------------------------
# Section C: Request.client_accepts / client_prefers (WSGI + ASGI)
# ---------------------------------------------------------------------------

def make_requests(accept):
    if accept is None:
        headers = None
    else:
        headers = {'Accept': accept}
    wsgi_req = falcon.Request(testing.create_environ(headers=headers))
    asgi_req = testing.create_asgi_req(headers=headers)
    return [('wsgi', wsgi_req), ('asgi', asgi_req)]


def latin1_safe(text):
    try:
        text.encode('latin1')
    except UnicodeEncodeError:
        return False
    return True


def section_c(n=500):
    specials = [(None, [MT('*', '*', {})]), ('', [MT('*', '*', {})]), ('*/*', [MT('*', '*', {})])]
    for i in range(n):
        if i < len(specials) * 3:
            header, ranges = specials[i % len(specials)]
        else:
            header, ranges = gen_header()
            # Tabs are plain OWS here (never inside a value); the test helpers
            # dislike them, so use blanks instead.
            header = header.replace('\t', ' ')
            if not latin1_safe(header):
                continue
            # NOTE: the testing helpers strip header values; outer whitespace
            #   is insignificant for the first/last member anyway.
            header = header.strip()
            if not header:
                ranges = [MT('*', '*', {})]
        valid_ranges = [r for r in ranges if r is not None]
        cands = [gen_candidate(valid_ranges) for _ in range(rnd.choice([0, 1, 2, 4, 6]))]
        effective = header or '*/*'

        for kind, req in make_requests(header):
            if req.accept != effective:
                fail('{}: accept {!r} != {!r}'.format(kind, req.accept, effective))
                continue
            for text, mt in cands + [(effective, 'same')]:
                count('client_accepts')
                if effective == text or effective == '*/*':
                    exp = True
                else:
                    try:
                        exp = ref_quality(mt, ranges) != 0.0
                    except (RefInvalidRange, RefInvalidType):
                        exp = False
                got = req.client_accepts(text)
                if got is not exp:
                    fail('{}: client_accepts({!r}) with Accept {!r} = {!r}, expected {!r}'.format(
                        kind, text, header, got, exp))
            count('client_prefers')
            try:
                exp = ref_best_match(cands, ranges) or None
            except (RefInvalidRange, RefInvalidType):
                exp = None
            texts = [c[0] for c in cands]
            for maker in (list, tuple, iter):
                got = req.client_prefers(maker(texts))
                if got != exp or (got is not None and type(got) is not str):
                    fail('{}: client_prefers({!r}) with Accept {!r} = {!r}, expected {!r}'.format(
                        kind, texts, header, got, exp))

    # Literal expectations incl. the convenience properties
    for accept, mt, exp in [
        ('application/json', 'application/json', True),
        ('application/*', 'application/json', True),
        ('application/json;q=0', 'application/json', False),
        ('text/html, application/json;q=0', 'application/json', False),
        ('text/html', 'application/json', False),
        ('garbage', 'application/json', False),
        ('garbage', 'garbage', True),
        ('*/*', 'garbage', True),
        ('application/json;q=2', 'application/json', False),
        ('text/*, application/json;q=0.0', 'application/json', False),
        ('*/*;q=0', 'application/json', False),
    ]:
        for kind, req in make_requests(accept):
            count('client_accepts')
            if req.client_accepts(mt) is not exp:
                fail('{}: literal client_accepts({!r}) for {!r} != {!r}'.format(kind, mt, accept, exp))
    for kind, req in make_requests('application/xml;q=0.5, application/json;q=0.4'):
        count('client_prefers')
        if req.client_prefers(['application/json', 'application/xml']) != 'application/xml':
            fail(kind + ': literal client_prefers')
        if req.client_prefers([]) is not None:
            fail(kind + ': client_prefers([])')
        if req.client_prefers(['image/png']) is not None:
            fail(kind + ': client_prefers no match')
        if not (req.client_accepts_json and req.client_accepts_xml and not req.client_accepts_msgpack):
            fail(kind + ': client_accepts_* props')


# ---------------------------------------------------------------------------
# Section D: default error serializer through both apps (app_helpers.py)
# ---------------------------------------------------------------------------

class Boom:
    def on_get(self, req, resp):
        raise falcon.HTTPBadRequest(title='Bad', description='Nope')


class BoomAsync:
    async def on_get(self, req, resp):
        raise falcon.HTTPBadRequest(title='Bad', description='Nope')


def section_d(n=160):
    import warnings

    warnings.simplefilter('ignore')
    wsgi_app = falcon.App()
    wsgi_app.add_route('/', Boom())
    asgi_app = falcon.asgi.App()
    asgi_app.add_route('/', BoomAsync())
    clients = [('wsgi', testing.TestClient(wsgi_app)), ('asgi', testing.TestClient(asgi_app))]

    predefined = [
        ('application/json', MT('application', 'json', {})),
        ('text/xml', MT('text', 'xml', {})),
        ('application/xml', MT('application', 'xml', {})),
        (falcon.MEDIA_MULTIPART, MT('multipart', 'form-data', {})),
        (falcon.MEDIA_URLENCODED, MT('application', 'x-www-form-urlencoded', {})),
    ]
    fixed = [
        'application/json', 'application/xml', 'text/xml', 'text/xml;q=0.5, application/json;q=0.4',
        'application/xml;q=0.3, application/json;q=0.3', '*/*', 'application/*;q=0.1, text/xml',
        'application/json;q=0, application/xml', 'application/json;q=0, */*;q=0',
        'image/png', 'garbage', 'application/json;q=9',
    ]
    for i in range(n):
        if i < len(fixed):
            header = fixed[i]
            ranges = None
        else:
            # restrict to json/xml-ish ranges to keep the expectation simple
            members = []
            ranges = []
            for _ in range(rnd.choice([1, 2, 3])):
                main, sub = rnd.choice([('application', 'json'), ('application', 'xml'),
                                        ('text', 'xml'), ('application', '*'), ('text', '*'),
                                        ('*', '*'), ('image', 'png'), ('text', 'html')])
                q_text, q = rnd.choice(VALID_Q + [(None, None)] * 8)
                members.append(serialise(main, sub, {}, q_text, extra_noise=False))
                ranges.append(MT(main, sub, {}, q))
            header = ','.join(members).replace('\t', ' ')
        results = []
        for kind, client in clients:
            res = client.simulate_get('/', headers={'Accept': header})
            results.append((res.status_code, res.headers.get('content-type'), res.content))
            count('error_serializer')
        if results[0] != results[1]:
            fail('error serializer differs WSGI/ASGI for Accept {!r}: {!r}'.format(header, results))
            continue
        status, ctype, body = results[0]
        if status != 400:
            fail('unexpected status {} for Accept {!r}'.format(status, header))
        if ranges is not None:
            exp = ref_best_match(predefined, ranges) or None
            if exp == 'application/json':
                if ctype != 'application/json' or not body.startswith(b'{'):
                    fail('Accept {!r}: expected a JSON error, got {!r} {!r}'.format(header, ctype, body))
            elif exp in ('text/xml', 'application/xml'):
                if ctype != exp or not body.startswith(b'<?xml'):
                    fail('Accept {!r}: expected {} error, got {!r}'.format(header, exp, ctype))
            elif exp is None:
                if body:
                    fail('Accept {!r}: expected an empty body, got {!r}'.format(header, body))
    # literal
    for kind, client in clients:
        res = client.simulate_get('/', headers={'Accept': 'text/xml;q=0.5, application/json;q=0.4'})
        if res.headers.get('content-type') != 'text/xml':
            fail(kind + ': literal error serializer preference')
        res = client.simulate_get('/', headers={'Accept': 'application/json;q=0, */*;q=0'})
        if res.content:
            fail(kind + ': q=0 types must not be chosen')


def main():
    if os.environ.get('CHECK_VERBOSE'):
        print('falcon from', falcon.__file__)
    build_key_pool()
    section_a_literals()
    section_a()
    section_a_scores()
    section_b()
    section_c()
    section_d()
    extra()
    report()


def extra():
    """Change-specific focus cases (change 1: refactoring of handlers._best_match / resolver not-found branch / client_prefers)."""
    # Focus of change 1: handlers._best_match() (restructured try/except),
    # the resolver's not-found branch, and Request.client_prefers().
    from falcon.media import handlers as hmod

    for ct, keys, exp in [
        ('application/json', ('application/json', 'text/html'), 'application/json'),
        ('text/*', ('application/json', 'text/html'), 'text/html'),
        ('*/*', ('application/json', 'text/html'), 'application/json'),
        ('image/png', ('application/json',), ''),
        ('application/json;q=0', ('application/json',), ''),
        ('garbage', ('application/json',), None),
        ('', ('application/json',), None),
        ('application/json', ('garbage',), None),
        ('application/json', ('application/json', 'garbage'), None),
        ('application/json', (), ''),
        ('garbage', (), ''),
        ('text/html;q=3', ('text/html',), None),
        ('text/html,', ('text/html',), None),
    ]:
        count('focus')
        got = hmod._best_match(ct, keys)
        if got != exp:
            fail('_best_match({!r}, {!r}) = {!r}, expected {!r}'.format(ct, keys, got, exp))

    # Not-found branch: all three call styles, truthy/falsy raise_not_found values.
    h = Handlers({'text/html': H('only')})
    for flag in (True, 1, 'yes'):
        count('focus')
        try:
            h._resolve('image/png', 'text/html', flag)
        except falcon.HTTPUnsupportedMediaType as ex:
            if ex.description != 'image/png is an unsupported media type.':
                fail('415 description: {!r}'.format(ex.description))
        else:
            fail('no 415 for raise_not_found={!r}'.format(flag))
    for flag in (False, 0, ''):
        count('focus')
        if h._resolve('image/png', 'text/html', flag) != (None, None, None):
            fail('not-found tuple for raise_not_found={!r}'.format(flag))
    for ct in ('text/html', 'text/*', 'text/html; charset=utf-8', None, '', '*/*'):
        count('focus')
        if h._resolve(ct, 'text/html')[0] is not h['text/html']:
            fail('resolve {!r}'.format(ct))
    # A falsy handler value is looked up through the matching rule and returned as is.
    h2 = Handlers({'text/html': None})
    count('focus')
    if h2._resolve('text/html', 'text/html') != (None, None, None):
        fail('falsy handler resolution changed')

    # client_prefers: subclasses that override .accept, and a failing .accept.
    class Sub(falcon.Request):
        @property
        def accept(self):
            return 'text/html;q=0.5, application/json'

    class Broken(falcon.Request):
        @property
        def accept(self):
            raise ValueError('boom')

    class Broken2(falcon.Request):
        @property
        def accept(self):
            raise KeyError('boom')

    env = testing.create_environ()
    count('focus', 5)
    if Sub(env).client_prefers(['text/html', 'application/json']) != 'application/json':
        fail('Sub.client_prefers')
    if Sub(env).client_prefers(['image/png']) is not None:
        fail('Sub.client_prefers no match')
    if Sub(env).client_prefers(['garbage']) is not None:
        fail('Sub.client_prefers invalid candidate')
    if Broken(env).client_prefers(['text/html']) is not None:
        fail('ValueError from .accept must be swallowed as before')
    try:
        Broken2(env).client_prefers(['text/html'])
    except KeyError:
        pass
    else:
        fail('KeyError from .accept must propagate as before')


if __name__ == '__main__':
    main()
