"""Property C12 check: media round-trips unchanged; request media parsed at most once.

Run as:  PYTHONPATH=<falcon tree> /venv/bin/python check.py
Prints PASS and exits 0 when every generated case matches the reference model.
"""

import asyncio
import io
import json
import random
import sys
from urllib.parse import urlencode

import falcon
import falcon.asgi
import falcon.media
from falcon import errors, testing
from falcon.request import RequestOptions
from falcon.response import ResponseOptions

SEED = 0xC12
rng = random.Random(SEED)
CASES = {'n': 0}


def count(n=1):
    CASES['n'] += n


def fail(msg):
    print('FAIL:', msg)
    sys.exit(1)


def expect(cond, msg):
    count()
    if not cond:
        fail(msg)


def run(coro):
    loop = asyncio.new_event_loop()
    try:
        return loop.run_until_complete(coro)
    finally:
        loop.close()


# ---------------------------------------------------------------------------
# Generators
# ---------------------------------------------------------------------------

ALPHABETS = [
    'abcXYZ019 _-',
    '"\\/\b\f\n\r\t\x00\x01\x1f\x7f',
    'éßłЖ中文あאا  ﻿￿',
    '\U0001f600\U0001f40d\U00010000\U0010ffff\U0001d11e',
    '&=+%#?;, \'<>{}[]:',
]


def rand_str(maxlen=12):
    n = rng.choice([0, 1, 1, 2, 3, 5, maxlen])
    alpha = rng.choice(ALPHABETS + [''.join(ALPHABETS)])
    return ''.join(rng.choice(alpha) for _ in range(n))


def rand_scalar():
    k = rng.randrange(10)
    if k == 0:
        return None
    if k == 1:
        return rng.choice([True, False])
    if k == 2:
        return rng.choice([0, 1, -1, 2**31, -(2**31), 2**63, -(2**63) - 1, 2**64])
    if k == 3:
        return rng.choice([1, -1]) * rng.getrandbits(rng.choice([8, 70, 200]))
    if k == 4:
        return rng.choice(
            [0.0, -0.0, 1.0, -1.5, 1e-300, 1e300, 5e-324, 1.7976931348623157e308, 0.1]
        )
    if k == 5:
        return rng.uniform(-1e6, 1e6)
    return rand_str()


def rand_doc(depth=0):
    k = rng.randrange(10)
    if depth >= 4 or k < 4:
        return rand_scalar()
    if k < 7:
        return [rand_doc(depth + 1) for _ in range(rng.randrange(0, 5))]
    return {rand_str(): rand_doc(depth + 1) for _ in range(rng.randrange(0, 5))}


FIXED_DOCS = [
    0,
    1,
    -1,
    0.0,
    False,
    True,
    '',
    ' ',
    'null',
    [],
    {},
    [[]],
    [{}],
    {'': ''},
    {'': None},
    [None],
    [None, None],
    {'a': [1, 2, {'b': [True, False, None, 'x', 1.5, 10**40]}]},
    '\U0001f600',
    '"quoted" \\ back / slash',
    '\x00\x1f\x7f  ',
    {'é': '中文', '\U0001f40d': ['\U0010ffff']},
    10**100,
    -(10**100),
    [[[[[[[[[[1]]]]]]]]]],
    'x' * 10000,
    list(range(300)),
]


def gen_docs(n):
    docs = list(FIXED_DOCS)
    while len(docs) < n:
        d = rand_doc()
        if d is None:
            # NOTE: resp.media = None means "no media", it is not a document.
            continue
        docs.append(d)
    return docs


def strict_eq(a, b):
    """Equality that distinguishes bool/int/float and compares recursively."""
    if type(a) is not type(b):
        return False
    if isinstance(a, list):
        return len(a) == len(b) and all(strict_eq(x, y) for x, y in zip(a, b))
    if isinstance(a, dict):
        return list(a.keys()) == list(b.keys()) and all(
            strict_eq(a[k], b[k]) for k in a
        )
    if isinstance(a, float):
        return a == b and str(a) == str(b)
    return a == b


def rand_form():
    form = {}
    for _ in range(rng.randrange(0, 5)):
        key = rand_str(6)
        if not key:
            # NOTE: An empty key with an empty value ("=") is dropped by the
            #   query string parser of the unmodified tree; keep keys non-empty.
            key = 'k'
        if rng.randrange(3) == 0:
            value = [rand_str(6) for _ in range(rng.randrange(2, 4))]
        else:
            value = rand_str(6)
        form[key] = value
    return form


FIXED_FORMS = [
    {},
    {'a': 'b'},
    {'a': ''},
    {'': 'v'},
    {'a': ['1', '2']},
    {'a': ['', '']},
    {'k': 'x,y', 'l': ['p,q', 'r']},
    {'sp ace': 'pl+us', 'amp&': 'eq=', 'pct%': '%41', 'h#': '?;'},
    {'é': '中文', '\U0001f40d': ['\U0010ffff', '\U0001f600']},
    {'nul\x00': '\n\r\t'},
]


def gen_forms(n):
    forms = list(FIXED_FORMS)
    while len(forms) < n:
        forms.append(rand_form())
    return forms


JSON_TYPES = [
    'application/json',
    'application/json; charset=utf-8',
    'application/json;charset=UTF-8',
    'application/json; version="1,2"',
    'application/json; q=0.5',
]
FORM_TYPES = [
    'application/x-www-form-urlencoded',
    'application/x-www-form-urlencoded; charset=utf-8',
]
CHUNKS = [1, 2, 3, 7, 64, 4096, 10**6]

# ---------------------------------------------------------------------------
# Part A: full round trip through WSGI and ASGI apps
# ---------------------------------------------------------------------------

STORE = {}
SENTINEL = object()


class WSGIResource:
    def on_get(self, req, resp):
        resp.content_type = STORE['ct']
        resp.media = STORE['doc']

    def on_post(self, req, resp):
        first = req.get_media()
        second = req.media
        third = req.get_media(default_when_empty=SENTINEL)
        STORE['same'] = first is second and second is third
        STORE['got'] = first
        # Echo once more, so that the document crosses the wire twice.
        resp.content_type = req.content_type
        resp.media = first

    def on_put(self, req, resp):
        STORE['default'] = req.get_media(default_when_empty=SENTINEL)
        resp.media = {'ok': True}


class ASGIResource:
    async def on_get(self, req, resp):
        resp.content_type = STORE['ct']
        resp.media = STORE['doc']

    async def on_post(self, req, resp):
        first = await req.get_media()
        second = await req.media
        third = await req.get_media(default_when_empty=SENTINEL)
        STORE['same'] = first is second and second is third
        STORE['got'] = first
        resp.content_type = req.content_type
        resp.media = first

    async def on_put(self, req, resp):
        STORE['default'] = await req.get_media(default_when_empty=SENTINEL)
        resp.media = {'ok': True}


def make_clients():
    wsgi_app = falcon.App()
    wsgi_app.add_route('/', WSGIResource())
    asgi_app = falcon.asgi.App()
    asgi_app.add_route('/', ASGIResource())
    return [
        ('wsgi', testing.TestClient(wsgi_app)),
        ('asgi', testing.TestClient(asgi_app)),
    ]


def json_reference_body(doc):
    return json.dumps(doc, ensure_ascii=False).encode('utf-8')


def form_reference(form):
    """What the documented parser gives back for a form mapping."""
    out = {}
    for key, value in form.items():
        if isinstance(value, list):
            out[key] = list(value)
        else:
            out[key] = value
    return out


def roundtrip_apps(n_docs, n_forms):
    clients = make_clients()
    docs = gen_docs(n_docs)
    forms = gen_forms(n_forms)

    for idx, doc in enumerate(docs):
        for name, client in clients:
            ct = JSON_TYPES[idx % len(JSON_TYPES)]
            chunk = CHUNKS[(idx // 2) % len(CHUNKS)]
            STORE.clear()
            STORE.update(doc=doc, ct=ct)
            r1 = client.simulate_get('/')
            expect(r1.status_code == 200, f'{name} GET status {r1.status} for {doc!r}')
            expect(
                r1.content == json_reference_body(doc),
                f'{name} body mismatch for {doc!r}: {r1.content!r}',
            )
            expect(r1.headers['content-type'] == ct, f'{name} content type {ct}')
            r2 = client.simulate_post(
                '/',
                body=r1.content,
                headers={'Content-Type': r1.headers['content-type']},
                asgi_chunk_size=chunk,
            )
            expect(r2.status_code == 200, f'{name} POST status {r2.status} {doc!r}')
            expect(STORE.get('same') is True, f'{name} media not cached for {doc!r}')
            expect(
                strict_eq(STORE['got'], doc),
                f'{name} round trip changed {doc!r} into {STORE["got"]!r}',
            )
            expect(
                r2.content == r1.content,
                f'{name} second serialization differs for {doc!r}',
            )

    for idx, form in enumerate(forms):
        for name, client in clients:
            ct = FORM_TYPES[idx % len(FORM_TYPES)]
            chunk = CHUNKS[(idx // 2) % len(CHUNKS)]
            STORE.clear()
            STORE.update(doc=form, ct=ct)
            r1 = client.simulate_get('/')
            if not form:
                # An empty mapping renders as an empty body.
                expect(r1.content == b'', f'{name} empty form body {r1.content!r}')
            expect(r1.status_code == 200, f'{name} GET form status {r1.status}')
            expect(
                r1.content == urlencode(form, doseq=True).encode(),
                f'{name} form body mismatch for {form!r}',
            )
            r2 = client.simulate_post(
                '/',
                body=r1.content,
                headers={'Content-Type': ct},
                asgi_chunk_size=chunk,
            )
            expect(r2.status_code == 200, f'{name} POST form status {r2.status}')
            expect(STORE.get('same') is True, f'{name} form not cached')
            expect(
                strict_eq(STORE['got'], form_reference(form)),
                f'{name} form round trip changed {form!r} into {STORE["got"]!r}',
            )
            expect(r2.content == r1.content, f'{name} form re-serialization differs')

    # Empty and undecodable bodies seen from the outside.
    bad_json = bad_json_bodies()
    for name, client in clients:
        for ct in JSON_TYPES:
            r = client.simulate_post('/', body=b'', headers={'Content-Type': ct})
            expect(r.status_code == 400, f'{name} empty JSON body gave {r.status}')
            expect('title' in r.json, f'{name} empty JSON error body {r.text!r}')
            STORE.clear()
            r = client.simulate_put('/', body=b'', headers={'Content-Type': ct})
            expect(r.status_code == 200, f'{name} default_when_empty gave {r.status}')
            expect(STORE.get('default') is SENTINEL, f'{name} default not returned')
        for i, body in enumerate(bad_json):
            ct = JSON_TYPES[i % len(JSON_TYPES)]
            chunk = CHUNKS[i % len(CHUNKS)]
            for method in ('POST', 'PUT'):
                r = client.simulate_request(
                    method,
                    '/',
                    body=body,
                    headers={'Content-Type': ct},
                    asgi_chunk_size=chunk,
                )
                expect(
                    r.status_code == 400,
                    f'{name} {method} bad JSON {body!r} gave {r.status}',
                )
        for i, body in enumerate(bad_form_bodies()):
            ct = FORM_TYPES[i % len(FORM_TYPES)]
            r = client.simulate_post(
                '/', body=body, headers={'Content-Type': ct}, asgi_chunk_size=3
            )
            expect(r.status_code == 400, f'{name} bad form {body!r} gave {r.status}')
        for ct in FORM_TYPES:
            STORE.clear()
            r = client.simulate_post('/', body=b'', headers={'Content-Type': ct})
            expect(r.status_code == 200, f'{name} empty form gave {r.status}')
            expect(
                strict_eq(STORE.get('got'), {}), f'{name} empty form parsed as {STORE}'
            )


def bad_json_bodies():
    out = [
        b'{',
        b'[',
        b'"',
        b'{"a":',
        b'{"a": 1,}',
        b'[1 2]',
        b'nul',
        b'tru',
        b"{'a': 1}",
        b'\xff',
        b'\xfe\xff',
        b'\x80abc',
        b'"\xc3"',
        b'"\xed\xa0\x80"',
        b'"\xf4\x90\x80\x80"',
        b'\x00',
        b' ',
        b'\n',
        b'1 2',
        b'{"a": 1} x',
        '"é"'.encode('latin-1'),
        '{"k": "中"}'.encode('utf-16'),
        '{"k": "中"}'.encode('utf-16-le'),
        '[1]'.encode('utf-32'),
        b'"\\ud800',
        b'"\\x"',
        b'"\t"',
        b'01',
        b'+1',
        b'.5',
        b'1.',
    ]
    # Truncations of valid documents.
    for doc in gen_docs(60)[10:]:
        body = json_reference_body(doc)
        if len(body) < 2:
            continue
        cut = body[: rng.randrange(1, len(body))]
        try:
            json.loads(cut.decode())
        except ValueError:
            out.append(cut)
    # Random bytes.
    for _ in range(40):
        blob = bytes(rng.randrange(256) for _ in range(rng.randrange(1, 12)))
        try:
            json.loads(blob.decode())
        except ValueError:
            out.append(blob)
    return out


def bad_form_bodies():
    return [
        b'\xff',
        b'a=\xe9',
        'a=é'.encode('utf-8'),
        'k=中'.encode('utf-16'),
        b'\x80=\x80',
        b'a=1&b=\xc3\xa9',
        b'\x00\xff',
        'ключ=1'.encode('utf-8'),
        'a=\U0001f600'.encode('utf-8'),
    ]


# ---------------------------------------------------------------------------
# Part B: call histories on bare Request objects with counting streams
# ---------------------------------------------------------------------------


class CountingInput(io.BytesIO):
    def __init__(self, data):
        super().__init__(data)
        self.touches = 0

    def read(self, *a):
        self.touches += 1
        return super().read(*a)

    def readline(self, *a):
        self.touches += 1
        return super().readline(*a)

    def readinto(self, *a):
        self.touches += 1
        return super().readinto(*a)


class CountingReceive:
    def __init__(self, body, chunk_size):
        self._emit = testing.ASGIRequestEventEmitter(body, chunk_size=chunk_size)
        self.touches = 0

    async def __call__(self):
        self.touches += 1
        return await self._emit()


def body_cases():
    """(content_type, body, kind, expected) tuples; kind in value/notfound/malformed."""
    cases = []
    for i, doc in enumerate(gen_docs(70)):
        ct = JSON_TYPES[i % len(JSON_TYPES)]
        cases.append((ct, json_reference_body(doc), 'value', doc))
    for i, body in enumerate(bad_json_bodies()):
        cases.append((JSON_TYPES[i % len(JSON_TYPES)], body, 'malformed', None))
    for ct in JSON_TYPES + [None, '', '*/*']:
        cases.append((ct, b'', 'notfound', None))
    for i, form in enumerate(gen_forms(40)):
        ct = FORM_TYPES[i % len(FORM_TYPES)]
        cases.append(
            (ct, urlencode(form, doseq=True).encode(), 'value', form_reference(form))
        )
    for i, body in enumerate(bad_form_bodies()):
        cases.append((FORM_TYPES[i % len(FORM_TYPES)], body, 'malformed', None))
    for ct in FORM_TYPES:
        cases.append((ct, b'', 'value', {}))
    return cases


OPS = ['get', 'media', 'default', 'default2']


def rand_history():
    return [rng.choice(OPS) for _ in range(rng.randrange(2, 7))]


def check_outcome(tag, op, kind, expected, outcome, memo, default):
    """Compare one observed outcome with the reference model.

    memo holds the first parsed object / first raised error of this request.
    """
    what, obj = outcome
    if kind == 'value':
        expect(what == 'ret', f'{tag}: {op} raised {obj!r}')
        if 'value' in memo:
            expect(obj is memo['value'], f'{tag}: {op} returned a different object')
        else:
            memo['value'] = obj
            expect(strict_eq(obj, expected), f'{tag}: parsed {obj!r} != {expected!r}')
    elif kind == 'notfound':
        if op.startswith('default'):
            expect(what == 'ret' and obj is default, f'{tag}: {op} gave {outcome!r}')
        else:
            expect(what == 'exc', f'{tag}: {op} returned {obj!r} for an empty body')
            expect(
                type(obj) is errors.MediaNotFoundError,
                f'{tag}: {op} raised {type(obj).__name__}',
            )
            expect(obj.status_code == 400, f'{tag}: status {obj.status}')
            if 'error' in memo:
                expect(obj is memo['error'], f'{tag}: {op} raised a different error')
            else:
                memo['error'] = obj
    else:
        expect(what == 'exc', f'{tag}: {op} returned {obj!r} for a malformed body')
        expect(
            type(obj) is errors.MediaMalformedError,
            f'{tag}: {op} raised {type(obj).__name__}: {obj!r}',
        )
        expect(obj.status_code == 400, f'{tag}: status {obj.status}')
        expect(isinstance(obj, falcon.HTTPBadRequest), f'{tag}: not a 400-class error')
        if 'error' in memo:
            expect(obj is memo['error'], f'{tag}: {op} raised a different error')
        else:
            memo['error'] = obj


def wsgi_histories(repeat=2):
    for ct, body, kind, expected in body_cases():
        for _ in range(repeat):
            history = rand_history()
            headers = {} if ct is None else {'Content-Type': ct}
            env = testing.create_environ(method='POST', body=body, headers=headers)
            if ct == '':
                env['CONTENT_TYPE'] = ''
            source = CountingInput(body)
            env['wsgi.input'] = source
            req = falcon.Request(env)
            memo = {}
            touches_after_first = None
            tag = f'wsgi ct={ct!r} body={body[:40]!r} history={history}'
            for op in history:
                default = object()
                try:
                    if op == 'get':
                        outcome = ('ret', req.get_media())
                    elif op == 'media':
                        outcome = ('ret', req.media)
                    elif op == 'default':
                        outcome = ('ret', req.get_media(default_when_empty=default))
                    else:
                        outcome = ('ret', req.get_media(default))
                except Exception as ex:
                    outcome = ('exc', ex)
                check_outcome(tag, op, kind, expected, outcome, memo, default)
                if touches_after_first is None:
                    touches_after_first = source.touches
                    expect(
                        source.tell() == len(body),
                        f'{tag}: body not consumed by first parse',
                    )
                else:
                    expect(
                        source.touches == touches_after_first,
                        f'{tag}: stream touched again by {op}',
                    )


async def asgi_histories(repeat=2):
    for idx, (ct, body, kind, expected) in enumerate(body_cases()):
        for rep in range(repeat):
            history = rand_history()
            chunk = CHUNKS[(idx + rep) % len(CHUNKS)]
            headers = {} if ct is None else {'Content-Type': ct}
            scope = testing.create_scope(method='POST', headers=headers)
            receive = CountingReceive(body, chunk)
            req = falcon.asgi.Request(scope, receive)
            memo = {}
            touches_after_first = None
            tag = f'asgi ct={ct!r} chunk={chunk} body={body[:40]!r} history={history}'
            for op in history:
                default = object()
                try:
                    if op == 'get':
                        outcome = ('ret', await req.get_media())
                    elif op == 'media':
                        outcome = ('ret', await req.media)
                    elif op == 'default':
                        outcome = (
                            'ret',
                            await req.get_media(default_when_empty=default),
                        )
                    else:
                        outcome = ('ret', await req.get_media(default))
                except Exception as ex:
                    outcome = ('exc', ex)
                check_outcome(tag, op, kind, expected, outcome, memo, default)
                if touches_after_first is None:
                    touches_after_first = receive.touches
                else:
                    expect(
                        receive.touches == touches_after_first,
                        f'{tag}: receive() called again by {op}',
                    )


def base_checks(n_docs=150, n_forms=60, repeat=2):
    roundtrip_apps(n_docs, n_forms)
    wsgi_histories(repeat)
    run(asgi_histories(repeat))


# ---------------------------------------------------------------------------
# Part C (change 3): handler resolution and its diagnostics
# ---------------------------------------------------------------------------

from falcon.media.handlers import MissingDependencyHandler  # noqa: E402

# NOTE: Expectations below were recorded from the unmodified tree.
RESOLVES_TO = {
    'application/json': 'JSONHandler',
    'application/json; charset=utf-8': 'JSONHandler',
    'application/json;charset=UTF-8': 'JSONHandler',
    'application/json;': 'JSONHandler',
    'application/json; q=0.5': 'JSONHandler',
    'application/json;version="1,2"': 'JSONHandler',
    'application/*': 'JSONHandler',
    '*/*': 'JSONHandler',
    '': 'JSONHandler',
    None: 'JSONHandler',
    'application/x-www-form-urlencoded': 'URLEncodedFormHandler',
    'application/x-www-form-urlencoded; charset=utf-8': 'URLEncodedFormHandler',
    'multipart/form-data; boundary=x': 'MultipartFormHandler',
}
UNSUPPORTED_TYPES = [
    'text/plain',
    'text/plain; charset=utf-8',
    'application/xml',
    'application/yaml',
    'garbage',
    'text/{0}',
    'a/{b}',
    'x/{',
    'x/}',
    'x/%s',
    'x/{media_type}',
    'x/{0!r:>10}',
    'text/é中\U0001f600',
    'image/png',
    'application/octet-stream',
]


def resolver_checks():
    for rounds in range(3):
        handlers = falcon.media.Handlers()
        for ct, cls_name in RESOLVES_TO.items():
            for _ in range(2):  # second time from the LRU cache
                handler, ser, deser = handlers._resolve(ct, 'application/json')
                expect(
                    type(handler).__name__ == cls_name, f'{ct!r} resolved to {handler}'
                )
                expect(handler is handlers[
                    {'JSONHandler': 'application/json',
                     'URLEncodedFormHandler': 'application/x-www-form-urlencoded',
                     'MultipartFormHandler': 'multipart/form-data'}[cls_name]
                ], f'{ct!r}: not the registered instance')
                if cls_name == 'MultipartFormHandler':
                    expect(ser is None and deser is None, 'multipart fast path')
                else:
                    expect(ser == handler.serialize, f'{ct!r}: sync serializer')
                    expect(deser == handler._deserialize, f'{ct!r}: sync deserializer')
        for ct in UNSUPPORTED_TYPES:
            for default in ('application/json', 'text/plain'):
                for _ in range(2):
                    try:
                        handlers._resolve(ct, default)
                    except falcon.HTTPUnsupportedMediaType as ex:
                        expect(ex.status_code == 415, 'status of 415 error')
                        expect(
                            ex.description == ct + ' is an unsupported media type.',
                            f'description {ex.description!r} for {ct!r}',
                        )
                        expect(type(ex.description) is str, 'description type')
                    else:
                        fail(f'{ct!r} unexpectedly resolved')
                    expect(
                        handlers._resolve(ct, default, False) == (None, None, None),
                        f'{ct!r}: raise_not_found=False',
                    )
        # An empty or wildcard type falls back to the default, which may be bad.
        for ct in (None, '', '*/*'):
            try:
                handlers._resolve(ct, 'text/x-default')
            except falcon.HTTPUnsupportedMediaType as ex:
                expect(
                    ex.description == 'text/x-default is an unsupported media type.',
                    f'default description {ex.description!r}',
                )
            else:
                fail('bad default resolved')

    for handler_name, library in [
        ('MessagePackHandler', 'msgpack'),
        ('', ''),
        ('{0}', '{1}'),
        ('a b', 'é\U0001f600'),
        ('{', '}'),
        ('%s', '%(x)s'),
    ]:
        missing = MissingDependencyHandler(handler_name, library)
        message = (
            'The ' + handler_name + ' requires the ' + library
            + ' library, which is not installed.'
        )
        for method in (missing.serialize, missing.deserialize):
            try:
                method({'a': 1})
            except RuntimeError as ex:
                expect(str(ex) == message, f'message {str(ex)!r} != {message!r}')
            else:
                fail('MissingDependencyHandler did not raise')


def unsupported_via_apps():
    for name, client in make_clients():
        for i, ct in enumerate(UNSUPPORTED_TYPES):
            try:
                ct.encode('latin-1')
            except UnicodeEncodeError:
                continue
            doc = FIXED_DOCS[i % len(FIXED_DOCS)]
            r = client.simulate_post(
                '/', body=json_reference_body(doc), headers={'Content-Type': ct}
            )
            expect(r.status_code == 415, f'{name} {ct!r} request gave {r.status}')
            expect(
                r.json['description'] == ct + ' is an unsupported media type.',
                f'{name} {ct!r} description {r.json!r}',
            )
            # The same applies to rendering response media of an unknown type.
            STORE.clear()
            STORE.update(doc=doc, ct=ct)
            r = client.simulate_get('/')
            expect(r.status_code == 415, f'{name} {ct!r} response gave {r.status}')


def replaced_handler_checks():
    """Round trips keep working when handlers are replaced/removed at runtime."""
    docs = gen_docs(60)
    handlers = falcon.media.Handlers()
    for i, doc in enumerate(docs):
        handler, ser, deser = handlers._resolve(
            JSON_TYPES[i % len(JSON_TYPES)], 'application/json'
        )
        body = ser(doc)
        expect(body == json_reference_body(doc), 'sync serializer body')
        expect(strict_eq(deser(body), doc), 'sync deserializer round trip')
        if i % 10 == 0:
            replacement = falcon.media.JSONHandler()
            handlers['application/json'] = replacement
            got, _, _ = handlers._resolve('application/json; charset=utf-8', 'x/y')
            expect(got is replacement, 'stale handler resolved after replacement')
        if i % 25 == 24:
            del handlers['application/json']
            try:
                handlers._resolve('application/json', 'application/json')
            except falcon.HTTPUnsupportedMediaType as ex:
                expect(
                    ex.description == 'application/json is an unsupported media type.',
                    'description after removal',
                )
            else:
                fail('removed handler still resolved')
            handlers['application/json'] = falcon.media.JSONHandler()


if __name__ == '__main__':
    base_checks()
    resolver_checks()
    unsupported_via_apps()
    replaced_handler_checks()
    print(f'{CASES["n"]} assertions checked')
    print('PASS')
