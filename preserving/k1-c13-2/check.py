#!/usr/bin/env python
"""Property C13 check: multipart forms parse to exactly the parts that were
encoded, however consumed (WSGI and ASGI parsers, all chunkings, limits at
their thresholds, corrupt bodies -> MultipartParseError only).

Run as:  PYTHONPATH=<falcon tree> /venv/bin/python check.py
Prints PASS and exits 0 when every case agrees with the reference model.
"""

import asyncio
import io
import json
import random
import signal
import sys
import urllib.parse

import falcon
import falcon.asgi
from falcon.asgi.reader import BufferedReader as AsyncReader
from falcon.errors import MultipartParseError
from falcon.media.multipart import MultipartFormHandler
from falcon.media.multipart import MultipartParseOptions
import falcon.testing
from falcon.util.reader import BufferedReader as SyncReader

BCHARS = (
    '0123456789abcdefghijklmnopqrstuvwxyzABCDEFGHIJKLMNOPQRSTUVWXYZ' "'()+_,-./:=?"
)
NAME_CHARS = 'abcxyzABC019 -_.' + 'é€日本'
CASES = {'n': 0}


class Failure(Exception):
    pass


def fail(msg):
    raise Failure(msg)


def expect(cond, msg):
    CASES['n'] += 1
    if not cond:
        fail(msg)


# --------------------------------------------------------------------------
# Reference encoder
# --------------------------------------------------------------------------


def gen_boundary(rng):
    kind = rng.random()
    if kind < 0.15:
        n = 1
    elif kind < 0.25:
        n = 70
    elif kind < 0.35:
        n = rng.choice([2, 69])
    else:
        n = rng.randint(1, 70)
    b = ''.join(rng.choice(BCHARS) for _ in range(n))
    if n > 2 and rng.random() < 0.1:
        # a space is legal inside a boundary (not at the end)
        i = rng.randint(1, n - 2)
        b = b[:i] + ' ' + b[i + 1 :]
    if rng.random() < 0.2:
        b = '-' * min(n, 3) + b[min(n, 3) :]
    return b


def content_type_header(rng, boundary):
    needs_quote = not boundary.replace('-', '').replace('_', '').isalnum()
    if needs_quote or rng.random() < 0.3:
        value = 'multipart/form-data; boundary="{}"'.format(boundary)
    else:
        value = 'multipart/form-data; boundary={}'.format(boundary)
    if rng.random() < 0.2:
        value = value.replace('; boundary', '; charset=utf-8; boundary')
    if rng.random() < 0.2:
        value = value.replace('multipart/form-data', 'Multipart/Form-Data')
    return value


def gen_content(rng, boundary_bytes, maxlen=200):
    delim = b'\r\n--' + boundary_bytes
    mode = rng.choice(['empty', 'short', 'tricky', 'tricky', 'random', 'big'])
    if mode == 'empty':
        data = b''
    elif mode == 'short':
        data = bytes(rng.choice(b'ab\r\n-') for _ in range(rng.randint(1, 4)))
    elif mode == 'random':
        data = bytes(rng.randrange(256) for _ in range(rng.randint(0, maxlen)))
    elif mode == 'big':
        data = bytes(
            rng.choice(b'\r\n-xyz' + boundary_bytes)
            for _ in range(rng.randint(maxlen, maxlen * 4))
        )
    else:
        tokens = [
            b'\r',
            b'\n',
            b'\r\n',
            b'\r\n\r\n',
            b'-',
            b'--',
            b'\r\n-',
            b'\r\n--',
            boundary_bytes,
            b'--' + boundary_bytes,
            b'--' + boundary_bytes + b'--',
            b'\n--' + boundary_bytes,
            b'\r--' + boundary_bytes,
            delim[: rng.randint(1, len(delim) - 1)],
            delim[: rng.randint(1, len(delim) - 1)],
            delim[:-1],
            delim[1:],
            bytes(rng.randrange(256) for _ in range(rng.randint(1, 9))),
            b'x',
        ]
        data = b''.join(rng.choice(tokens) for _ in range(rng.randint(1, 12)))
    while delim in data:
        data = data.replace(delim, delim[:-1] + b'\r\n-')
    return data


def gen_name(rng, allow_unicode=True):
    chars = NAME_CHARS if allow_unicode else NAME_CHARS[:16]
    n = rng.randint(1, 12)
    name = ''.join(rng.choice(chars) for _ in range(n)).strip()
    return name or 'f'


def gen_part(rng, boundary_bytes):
    """Return (spec, header_lines) for one part."""
    part = {}
    part['name'] = gen_name(rng)
    fkind = rng.choice(['none', 'none', 'plain', 'ext', 'both'])
    part['filename'] = None
    ckind = rng.choice(
        ['absent', 'text', 'text-utf8', 'text-latin1', 'octet', 'json', 'urlenc', 'png']
    )
    obj = None
    text = None
    if ckind == 'json':
        obj = rng.choice(
            [
                {'a': 1, 'b': [1, 2, 'x\r\n--']},
                [],
                'str€',
                12.5,
                None,
                {'k': '--' + boundary_bytes.decode()},
            ]
        )
        content = json.dumps(obj).encode()
        ctype = rng.choice(['application/json', 'application/json; charset=utf-8'])
    elif ckind == 'urlenc':
        obj = rng.choice([{'a': '1', 'b': 'x y'}, {'q': 'é'}, {}])
        content = urllib.parse.urlencode(obj).encode()
        ctype = 'application/x-www-form-urlencoded'
    elif ckind in ('absent', 'text', 'text-utf8', 'text-latin1'):
        if rng.random() < 0.5:
            text = ''.join(
                rng.choice('ab\r\n- éü') for _ in range(rng.randint(0, 40))
            )
        else:
            text = gen_content(rng, boundary_bytes, 60).decode('latin-1')
        charset = 'latin-1' if ckind == 'text-latin1' else 'utf-8'
        content = text.encode(charset)
        if (b'\r\n--' + boundary_bytes) in content:
            text = 'plain'
            content = b'plain'
        ctype = {
            'absent': None,
            'text': 'text/plain',
            'text-utf8': rng.choice(
                ['text/plain; charset=utf-8', 'text/plain;charset=UTF-8']
            ),
            'text-latin1': 'text/plain; charset=latin-1',
        }[ckind]
    else:
        content = gen_content(rng, boundary_bytes)
        ctype = {'octet': 'application/octet-stream', 'png': 'image/png'}[ckind]

    part.update(content=content, ctype=ctype, obj=obj, text=text, ckind=ckind)

    # --- Content-Disposition
    simple = all(c.isalnum() and c.isascii() for c in part['name'])
    token_form = simple and fkind in ('none', 'ext') and rng.random() < 0.4
    if token_form:
        disp = 'form-data; name={}'.format(part['name'])
    else:
        disp = 'form-data; name="{}"'.format(part['name'])
    if fkind in ('plain', 'both'):
        plain = gen_name(rng) + rng.choice(['.txt', '.tar.gz', '', '.é'])
        disp += '; filename="{}"'.format(plain)
        part['filename'] = plain
    if fkind in ('ext', 'both'):
        ext = gen_name(rng) + rng.choice(['.txt', ' €.bin', '%41', "it's", ''])
        charset = rng.choice(['UTF-8', 'utf-8', 'ISO-8859-1'])
        try:
            raw = ext.encode(charset)
        except UnicodeEncodeError:
            charset = 'UTF-8'
            raw = ext.encode(charset)
        lang = rng.choice(['', '', 'en'])
        disp += "; filename*={}'{}'{}".format(
            charset, lang, urllib.parse.quote(raw, safe='')
        )
        part['filename'] = ext
    if rng.random() < 0.1:
        disp = disp.replace('form-data; ', 'form-data;')

    def hname(name):
        return rng.choice([name, name.lower(), name.upper()])

    lines = [hname('Content-Disposition') + ': ' + disp]
    if ctype is not None:
        lines.append(hname('Content-Type') + ': ' + ctype)
    if rng.random() < 0.15:
        lines.append(hname('Content-Transfer-Encoding') + ': binary')
    if rng.random() < 0.2:
        lines.append('X-Ignored: content-type: text/html')
    if rng.random() < 0.1:
        lines.append('Content-Length: {}'.format(len(content)))
    if rng.random() < 0.1:
        lines.append('Content-TypeX:no-space')
    rng.shuffle(lines)
    part['header_block'] = '\r\n'.join(lines).encode('utf-8')
    part['expected_ctype'] = ctype if ctype is not None else 'text/plain'
    return part


def encode_form(parts, boundary_bytes, preamble=b'', epilogue=b'', final_crlf=True):
    dash = b'--' + boundary_bytes
    out = []
    if preamble:
        out.append(preamble + b'\r\n')
    for i, part in enumerate(parts):
        if i:
            out.append(b'\r\n')
        out.append(dash + b'\r\n')
        out.append(part['header_block'] + b'\r\n\r\n')
        out.append(part['content'])
    if parts:
        out.append(b'\r\n')
    out.append(dash + b'--')
    if final_crlf:
        out.append(b'\r\n')
        out.append(epilogue)
    return b''.join(out)


def gen_form(rng, nparts=None, boundary=None):
    boundary = boundary if boundary is not None else gen_boundary(rng)
    bb = boundary.encode()
    if nparts is None:
        nparts = rng.choice([0, 1, 1, 2, 3, 4, 7])
    parts = [gen_part(rng, bb) for _ in range(nparts)]
    preamble = b''
    if rng.random() < 0.3:
        preamble = rng.choice(
            [b'This is the preamble.', b'-', b'--', b'\r\n', b'--' + bb[:-1], b'x' * 90]
        )
        if (b'--' + bb) in preamble + b'\r\n--' + bb[:-1]:
            preamble = b'pre'
    final_crlf = rng.random() < 0.7
    epilogue = b''
    if final_crlf and rng.random() < 0.4:
        epilogue = rng.choice(
            [b'epilogue', b'\r\n--' + bb + b'\r\n', b'--', b'\r\n' * 3, b'e' * 100]
        )
    body = encode_form(parts, bb, preamble, epilogue, final_crlf)
    return {
        'boundary': boundary,
        'bb': bb,
        'parts': parts,
        'body': body,
        'content_type': content_type_header(rng, boundary),
    }


# --------------------------------------------------------------------------
# Transports
# --------------------------------------------------------------------------


class ChunkedStream:
    """WSGI-ish input: read(size) returns at most the next transport chunk."""

    def __init__(self, data, sizes):
        self._data = data
        self._pos = 0
        self._sizes = sizes
        self._i = 0

    def read(self, size=-1):
        k = self._sizes[self._i % len(self._sizes)]
        self._i += 1
        if size is None or size < 0:
            size = len(self._data)
        n = min(size, k)
        chunk = self._data[self._pos : self._pos + n]
        self._pos += len(chunk)
        return chunk


async def chunked_source(data, sizes):
    pos = 0
    i = 0
    while pos < len(data):
        k = sizes[i % len(sizes)]
        i += 1
        yield data[pos : pos + k]
        pos += k
        if i % 7 == 3:
            yield b''


def gen_transport(rng, delim_len):
    sizes = rng.choice(
        [
            [1],
            [2],
            [3],
            [5],
            [7],
            [13],
            [64],
            [100000],
            [rng.randint(1, 9) for _ in range(11)],
            [rng.randint(1, 40) for _ in range(5)],
        ]
    )
    reader_chunk = rng.choice(
        [
            None,
            None,
            delim_len + 1,
            delim_len + 2,
            delim_len + rng.randint(3, 9),
            2 * delim_len,
            2 * delim_len + 1,
            64 + delim_len,
            257 + delim_len,
        ]
    )
    return sizes, reader_chunk


def make_sync_form(form, opts, sizes, reader_chunk):
    body = form['body']
    handler = MultipartFormHandler(opts)
    stream = ChunkedStream(body, sizes)
    if reader_chunk:
        stream = SyncReader(stream.read, len(body), reader_chunk)
    return handler.deserialize(stream, form['content_type'], len(body))


async def make_async_form(form, opts, sizes, reader_chunk):
    body = form['body']
    handler = MultipartFormHandler(opts)
    stream = chunked_source(body, sizes)
    if reader_chunk:
        stream = AsyncReader(stream, chunk_size=reader_chunk)
    return await handler.deserialize_async(stream, form['content_type'], len(body))


# --------------------------------------------------------------------------
# Consumption plans
# --------------------------------------------------------------------------


def gen_plan(rng, part):
    content = part['content']
    choices = ['skip', 'partial', 'full', 'pieces', 'get_data', 'read_until', 'pipe']
    choices += ['partial_then_data', 'get_text', 'linewise']
    if part['ckind'] in ('json', 'urlenc'):
        choices += ['get_media', 'get_media']
    if part['text'] is not None:
        choices += ['get_text', 'get_text']
    op = rng.choice(choices)
    plan = {'op': op, 'meta_first': rng.random() < 0.5}
    if op in ('partial', 'partial_then_data'):
        plan['n'] = rng.choice([0, 1, len(content), rng.randint(0, len(content))])
    if op == 'pieces':
        plan['k'] = rng.choice([1, 2, 3, 7, 50])
    if op == 'read_until':
        cands = [b'\n', b'-', b'\r\n', b'--', b'x', b'\r\n--', b'\r\n-' + b'q']
        if content:
            i = rng.randrange(len(content))
            cands.append(content[i : i + rng.randint(1, 3)])
        plan['delim'] = rng.choice(cands)
        plan['size'] = rng.choice([-1, -1, 0, 1, rng.randint(0, len(content) + 2)])
        plan['consume'] = False
        plan['rest'] = rng.random() < 0.6
    return plan


def read_until_model(content, delim, size):
    idx = content.find(delim)
    end = len(content) if idx < 0 else idx
    if size is not None and size >= 0:
        end = min(end, size)
    return content[:end], content[end:]


def check_meta(part, spec, where):
    expect(part.name == spec['name'], '{}: name {!r}'.format(where, part.name))
    expect(
        part.filename == spec['filename'],
        '{}: filename {!r} != {!r}'.format(where, part.filename, spec['filename']),
    )
    expect(
        part.content_type == spec['expected_ctype'],
        '{}: content_type {!r}'.format(where, part.content_type),
    )
    # cached accessors are stable
    expect(part.name == spec['name'], where + ': name (2nd)')
    expect(part.filename == spec['filename'], where + ': filename (2nd)')


def text_expect(spec):
    if spec['text'] is not None:
        return spec['text']
    return None


def consume_sync(part, spec, plan, where):
    content = spec['content']
    op = plan['op']
    if plan['meta_first']:
        check_meta(part, spec, where)
    if op == 'skip':
        pass
    elif op == 'partial':
        got = part.stream.read(plan['n'])
        expect(got == content[: plan['n']], where + ': partial read')
    elif op == 'full':
        expect(part.stream.read() == content, where + ': full read')
        expect(part.stream.read() == b'', where + ': read after EOF')
    elif op == 'pieces':
        got = []
        while True:
            chunk = part.stream.read(plan['k'])
            if not chunk:
                break
            expect(len(chunk) <= plan['k'], where + ': piece too long')
            got.append(chunk)
        expect(b''.join(got) == content, where + ': pieces')
    elif op == 'get_data':
        expect(part.get_data() == content, where + ': get_data')
        expect(part.data == content, where + ': data (cached)')
    elif op == 'partial_then_data':
        got = part.stream.read(plan['n'])
        expect(got == content[: plan['n']], where + ': partial read')
        expect(part.get_data() == content[plan['n'] :], where + ': rest via get_data')
    elif op == 'get_text':
        if spec['text'] is not None:
            expect(part.get_text() == spec['text'], where + ': get_text')
            expect(part.text == spec['text'], where + ': text (cached data)')
        elif spec['expected_ctype'].startswith('text/plain'):
            pass
        else:
            expect(part.get_text() is None, where + ': get_text non-text')
            expect(part.stream.read() == content, where + ': read after get_text')
    elif op == 'get_media':
        expect(part.get_media() == spec['obj'], where + ': get_media')
        expect(part.media == spec['obj'], where + ': media (cached)')
    elif op == 'read_until':
        head, tail = read_until_model(content, plan['delim'], plan['size'])
        got = part.stream.read_until(plan['delim'], plan['size'])
        expect(got == head, where + ': read_until {!r}'.format(plan))
        if plan['rest']:
            expect(part.stream.read() == tail, where + ': rest after read_until')
    elif op == 'pipe':
        sink = io.BytesIO()
        part.stream.pipe(sink)
        expect(sink.getvalue() == content, where + ': pipe')
    elif op == 'linewise':
        got = []
        while True:
            line = part.stream.readline()
            if not line:
                break
            got.append(line)
        expect(b''.join(got) == content, where + ': readline')
        expect(
            all(ln.endswith(b'\n') for ln in got[:-1]), where + ': readline split'
        )
    else:
        fail('unknown op ' + op)
    if not plan['meta_first']:
        check_meta(part, spec, where)


class AsyncSink:
    def __init__(self):
        self.chunks = []

    async def write(self, data):
        self.chunks.append(data)


async def consume_async(part, spec, plan, where):
    content = spec['content']
    op = plan['op']
    if plan['meta_first']:
        check_meta(part, spec, where)
    if op == 'skip':
        pass
    elif op == 'partial':
        got = await part.stream.read(plan['n'])
        expect(got == content[: plan['n']], where + ': partial read')
    elif op == 'full':
        expect(await part.stream.read() == content, where + ': full read')
        expect(await part.stream.read() == b'', where + ': read after EOF')
    elif op == 'pieces':
        got = []
        while True:
            chunk = await part.stream.read(plan['k'])
            if not chunk:
                break
            expect(len(chunk) <= plan['k'], where + ': piece too long')
            got.append(chunk)
        expect(b''.join(got) == content, where + ': pieces')
    elif op == 'get_data':
        expect(await part.get_data() == content, where + ': get_data')
        expect(await part.data == content, where + ': data (cached)')
    elif op == 'partial_then_data':
        got = await part.stream.read(plan['n'])
        expect(got == content[: plan['n']], where + ': partial read')
        expect(
            await part.get_data() == content[plan['n'] :],
            where + ': rest via get_data',
        )
    elif op == 'get_text':
        if spec['text'] is not None:
            expect(await part.get_text() == spec['text'], where + ': get_text')
            expect(await part.text == spec['text'], where + ': text (cached data)')
        elif spec['expected_ctype'].startswith('text/plain'):
            pass
        else:
            expect(await part.get_text() is None, where + ': get_text non-text')
            expect(await part.stream.read() == content, where + ': read after text')
    elif op == 'get_media':
        expect(await part.get_media() == spec['obj'], where + ': get_media')
        expect(await part.media == spec['obj'], where + ': media (cached)')
    elif op == 'read_until':
        head, tail = read_until_model(content, plan['delim'], plan['size'])
        got = await part.stream.read_until(plan['delim'], plan['size'])
        expect(got == head, where + ': read_until {!r}'.format(plan))
        if plan['rest']:
            expect(await part.stream.read() == tail, where + ': rest after read_until')
    elif op == 'pipe':
        sink = AsyncSink()
        await part.stream.pipe(sink)
        expect(b''.join(sink.chunks) == content, where + ': pipe')
    elif op == 'linewise':
        got = []
        async for chunk in part.stream:
            got.append(chunk)
        expect(b''.join(got) == content, where + ': async iteration')
    else:
        fail('unknown op ' + op)
    if not plan['meta_first']:
        check_meta(part, spec, where)


# --------------------------------------------------------------------------
# Section A: valid forms x chunkings x consumption patterns
# --------------------------------------------------------------------------


def run_valid_case(rng, tag):
    form = gen_form(rng)
    sizes, reader_chunk = gen_transport(rng, len(form['bb']) + 4)
    plans = [gen_plan(rng, p) for p in form['parts']]
    where = '{} sizes={} rc={} boundary={!r}'.format(
        tag, sizes[:4], reader_chunk, form['boundary']
    )

    opts = MultipartParseOptions()
    sform = make_sync_form(form, opts, sizes, reader_chunk)
    count = 0
    for i, part in enumerate(sform):
        expect(i < len(form['parts']), where + ': too many parts (sync)')
        consume_sync(part, form['parts'][i], plans[i], '{} sync part{}'.format(where, i))
        count += 1
    expect(count == len(form['parts']), where + ': part count (sync) {}'.format(count))

    async def arun():
        aform = await make_async_form(form, MultipartParseOptions(), sizes, reader_chunk)
        acount = 0
        async for part in aform:
            expect(acount < len(form['parts']), where + ': too many parts (async)')
            await consume_async(
                part,
                form['parts'][acount],
                plans[acount],
                '{} async part{}'.format(where, acount),
            )
            acount += 1
        expect(
            acount == len(form['parts']),
            where + ': part count (async) {}'.format(acount),
        )

    asyncio.run(arun())


# --------------------------------------------------------------------------
# Section B: limits exactly at their thresholds
# --------------------------------------------------------------------------


def collect_sync(form, opts, sizes, reader_chunk, how='get_data'):
    """Parse everything; return ('ok'|'err', description, parts)."""
    got = []
    try:
        sform = make_sync_form(form, opts, sizes, reader_chunk)
        for part in sform:
            if how == 'get_data':
                data = part.get_data()
            elif how == 'stream':
                data = part.stream.read()
            else:
                data = None
            got.append((part.name, part.filename, part.content_type, data))
    except MultipartParseError as err:
        return ('err', err.description, got)
    return ('ok', None, got)


def collect_async(form, opts, sizes, reader_chunk, how='get_data'):
    async def arun():
        got = []
        try:
            aform = await make_async_form(form, opts, sizes, reader_chunk)
            async for part in aform:
                if how == 'get_data':
                    data = await part.get_data()
                elif how == 'stream':
                    data = await part.stream.read()
                else:
                    data = None
                got.append((part.name, part.filename, part.content_type, data))
        except MultipartParseError as err:
            return ('err', err.description, got)
        return ('ok', None, got)

    return asyncio.run(arun())


def model_parts(form, upto=None, how='get_data'):
    parts = form['parts'] if upto is None else form['parts'][:upto]
    return [
        (
            p['name'],
            p['filename'],
            p['expected_ctype'],
            p['content'] if how != 'skip' else None,
        )
        for p in parts
    ]


def run_limit_case(rng, tag):
    nparts = rng.choice([1, 2, 3, 5])
    form = gen_form(rng, nparts=nparts)
    sizes, reader_chunk = gen_transport(rng, len(form['bb']) + 4)
    where = '{} sizes={} rc={}'.format(tag, sizes[:4], reader_chunk)
    collectors = (('sync', collect_sync), ('async', collect_async))

    # (1) max_body_part_count
    for limit in (0, nparts - 1, nparts, nparts + 1):
        for how in ('get_data', 'skip'):
            for side, collect in collectors:
                opts = MultipartParseOptions()
                opts.max_body_part_count = limit
                res = collect(form, opts, sizes, reader_chunk, how)
                w = '{} {} count-limit={} how={}'.format(where, side, limit, how)
                if limit == 0 or limit >= nparts:
                    expect(res == ('ok', None, model_parts(form, how=how)), w + ' ok')
                else:
                    expect(
                        res
                        == (
                            'err',
                            'maximum number of form body parts exceeded',
                            model_parts(form, limit, how),
                        ),
                        w + ' exceeded: {!r}'.format(res[:2]),
                    )

    # (2) max_body_part_buffer_size, relative to part j
    j = rng.randrange(nparts)
    size_j = len(form['parts'][j]['content'])
    for limit in (size_j - 1, size_j, size_j + 1):
        if limit < 0:
            continue
        for side, collect in collectors:
            opts = MultipartParseOptions()
            opts.max_body_part_buffer_size = limit
            res = collect(form, opts, sizes, reader_chunk)
            too_big = [
                i for i, p in enumerate(form['parts']) if len(p['content']) > limit
            ]
            w = '{} {} buffer-limit={} size_j={}'.format(where, side, limit, size_j)
            if not too_big:
                expect(res == ('ok', None, model_parts(form)), w + ' ok')
            else:
                expect(
                    res
                    == ('err', 'body part is too large', model_parts(form, too_big[0])),
                    w + ' too large: {!r}'.format(res[:2]),
                )
            # streaming is never subject to the buffer limit
            res = collect(form, opts, sizes, reader_chunk, 'stream')
            expect(res == ('ok', None, model_parts(form)), w + ' stream ok')

    # (3) max_body_part_headers_size, relative to part j
    hsize_j = len(form['parts'][j]['header_block'])
    for limit in (hsize_j - 1, hsize_j, hsize_j + 1):
        if limit < 1:
            continue
        for side, collect in collectors:
            opts = MultipartParseOptions()
            opts.max_body_part_headers_size = limit
            res = collect(form, opts, sizes, reader_chunk)
            too_big = [
                i for i, p in enumerate(form['parts']) if len(p['header_block']) > limit
            ]
            w = '{} {} headers-limit={} hsize_j={}'.format(where, side, limit, hsize_j)
            if not too_big:
                expect(res == ('ok', None, model_parts(form)), w + ' ok')
            else:
                expect(
                    res
                    == (
                        'err',
                        'incomplete body part headers',
                        model_parts(form, too_big[0]),
                    ),
                    w + ' headers too large: {!r}'.format(res[:2]),
                )


# --------------------------------------------------------------------------
# Section C: corrupt bodies -> MultipartParseError or a clean parse, both sides
# --------------------------------------------------------------------------


def structural_spans(form):
    """Byte ranges of the body that are boundary lines (not headers/content)."""
    body = form['body']
    dash = b'--' + form['bb']
    spans = []
    pos = body.find(dash)
    first = True
    for part in form['parts']:
        start = pos if first else pos  # pos points at "--B" (first) or CRLF--B
        length = len(dash) + 2 if first else len(dash) + 4
        spans.append((start, start + length))
        pos = start + length + len(part['header_block']) + 4 + len(part['content'])
        first = False
    return spans, pos


def run_corruption_case(rng, tag):
    form = gen_form(rng, nparts=rng.choice([1, 2, 3]))
    body = form['body']
    sizes, reader_chunk = gen_transport(rng, len(form['bb']) + 4)
    where = '{} sizes={} rc={}'.format(tag, sizes[:4], reader_chunk)
    spans, closing_pos = structural_spans(form)
    kind = rng.choice(['replace', 'delete', 'insert', 'truncate', 'struct', 'struct'])
    if kind == 'struct':
        # edit inside a boundary line
        lo, hi = rng.choice(spans)
        pos = rng.randrange(lo, hi)
        kind2 = rng.choice(['replace', 'delete', 'insert'])
    else:
        pos = rng.randrange(len(body))
        kind2 = kind
    if kind2 == 'replace':
        new = bytes([(body[pos] + rng.randint(1, 255)) % 256])
        mutated = body[:pos] + new + body[pos + 1 :]
    elif kind2 == 'delete':
        mutated = body[:pos] + body[pos + 1 :]
    elif kind2 == 'insert':
        mutated = body[:pos] + bytes([rng.randrange(256)]) + body[pos:]
    else:
        mutated = body[:pos]

    bad = dict(form, body=mutated)
    try:
        sres = collect_sync(bad, MultipartParseOptions(), sizes, reader_chunk)
        ares = collect_async(bad, MultipartParseOptions(), sizes, reader_chunk)
    except Failure:
        raise
    except Exception as ex:
        fail('{} {}@{}: unexpected {!r}'.format(where, kind, pos, ex))
    w = '{} {}@{} of {}'.format(where, kind, pos, len(body))
    expect(sres[0] in ('ok', 'err'), w)
    expect(
        sres == ares, w + ': sync/async disagree: {!r} vs {!r}'.format(sres, ares)
    )
    closing_end = closing_pos + (2 if form['parts'] else 0) + len(form['bb']) + 4
    if kind == 'truncate' and pos < closing_end:
        # the closing delimiter is incomplete: this can never be a valid form
        expect(sres[0] == 'err', w + ': truncated form accepted')
    if kind == 'struct' and kind2 in ('replace', 'delete'):
        # a damaged boundary line can never yield the original parts
        expect(
            not (sres[0] == 'ok' and sres[2] == model_parts(form)),
            w + ': damaged boundary line went unnoticed',
        )
    if sres[0] == 'ok' and kind != 'struct' and kind != 'truncate':
        expect(len(sres[2]) <= len(form['parts']) + 1, w + ': part count')


# --------------------------------------------------------------------------
# Section D: handler-level validation and end-to-end WSGI/ASGI agreement
# --------------------------------------------------------------------------


def run_boundary_validation(rng):
    handler = MultipartFormHandler()

    def try_both(content_type):
        results = []
        try:
            handler.deserialize(io.BytesIO(b''), content_type, 0)
            results.append('ok')
        except falcon.HTTPInvalidHeader as ex:
            results.append(('invalid', ex.status, ex.description))

        async def arun():
            try:
                await handler.deserialize_async(chunked_source(b'', [1]), content_type, 0)
                return 'ok'
            except falcon.HTTPInvalidHeader as ex:
                return ('invalid', ex.status, ex.description)

        results.append(asyncio.run(arun()))
        expect(results[0] == results[1], 'boundary validation sync/async differ')
        return results[0]

    for n in list(range(0, 75)) + [100, 1000]:
        b = ''.join(rng.choice(BCHARS[:62]) for _ in range(n))
        for pad in ('', ' ', '  \t'):
            res = try_both('multipart/form-data; boundary="{}{}"'.format(b, pad))
            if 1 <= n <= 70:
                expect(res == 'ok', 'boundary len {} rejected'.format(n))
            else:
                expect(
                    res != 'ok'
                    and res[1] == falcon.HTTP_400
                    and 'must consist of 1 to 70 characters' in res[2],
                    'boundary len {} accepted: {!r}'.format(n, res),
                )
    for ct in ('multipart/form-data', 'multipart/form-data; charset=utf-8'):
        res = try_both(ct)
        expect(
            res != 'ok'
            and res[1] == falcon.HTTP_400
            and 'No boundary specifier found in {!r}'.format(ct) in res[2],
            'missing boundary: {!r}'.format(res),
        )


class SyncResource:
    def on_post(self, req, resp):
        out = []
        for part in req.get_media():
            out.append(
                [part.name, part.filename, part.content_type, part.get_data().hex()]
            )
        resp.media = out


class AsyncResource:
    async def on_post(self, req, resp):
        out = []
        async for part in await req.get_media():
            data = await part.get_data()
            out.append([part.name, part.filename, part.content_type, data.hex()])
        resp.media = out


def run_end_to_end(rng, n):
    wsgi = falcon.App()
    wsgi.add_route('/', SyncResource())
    asgi = falcon.asgi.App()
    asgi.add_route('/', AsyncResource())
    clients = [falcon.testing.TestClient(wsgi), falcon.testing.TestClient(asgi)]
    for i in range(n):
        form = gen_form(rng)
        # (media handler lookup by the app is not the subject here)
        form['content_type'] = form['content_type'].replace(
            'Multipart/Form-Data', 'multipart/form-data'
        )
        body = form['body']
        broken = i % 3 == 2 and form['parts']
        if broken:
            # drop the closing delimiter
            body = body[: body.rfind(b'--' + form['bb'] + b'--') - 1]
        results = []
        for client in clients:
            resp = client.simulate_post(
                '/', body=body, headers={'Content-Type': form['content_type']}
            )
            results.append((resp.status_code, resp.json))
        expect(results[0] == results[1], 'e2e #{}: WSGI/ASGI differ'.format(i))
        status, doc = results[0]
        if broken:
            expect(status == 400, 'e2e #{}: status {}'.format(i, status))
            expect(
                doc.get('title') == 'Malformed multipart/form-data request media',
                'e2e #{}: title {!r}'.format(i, doc),
            )
        else:
            expect(status == 200, 'e2e #{}: status {} {!r}'.format(i, status, doc))
            want = [
                [p['name'], p['filename'], p['expected_ctype'], p['content'].hex()]
                for p in form['parts']
            ]
            expect(doc == want, 'e2e #{}: parts differ'.format(i))


def run_core(seed=1302, valid=500, limits=90, corrupt=400, e2e=45):
    for i in range(valid):
        run_valid_case(random.Random(seed * 1000003 + i), 'valid#{}'.format(i))
    for i in range(limits):
        run_limit_case(random.Random(seed * 2000003 + i), 'limit#{}'.format(i))
    for i in range(corrupt):
        run_corruption_case(random.Random(seed * 3000017 + i), 'corrupt#{}'.format(i))
    run_boundary_validation(random.Random(seed))
    run_end_to_end(random.Random(seed + 5), e2e)


# --------------------------------------------------------------------------
# Change-specific section: the synchronous BufferedReader (_read and
# _fill_buffer are on every read/peek/read_until/delimit path) against a
# trivial "bytes + position" reference model, for random operation sequences,
# internal chunk sizes and transport chunkings.
# --------------------------------------------------------------------------


class ModelReader:
    def __init__(self, data, chunk_size):
        self.data = data
        self.pos = 0
        self.chunk_size = chunk_size

    def read(self, size=-1):
        if size is None or size < 0:
            size = len(self.data)
        out = self.data[self.pos : self.pos + size]
        self.pos += len(out)
        return out

    def peek(self, size=-1):
        if size < 0 or size > self.chunk_size:
            size = self.chunk_size
        return self.data[self.pos : self.pos + size]

    def read_until(self, delim, size=-1, consume=False):
        idx = self.data.find(delim, self.pos)
        end = len(self.data) if idx < 0 else idx
        if size is not None and size >= 0:
            end = min(end, self.pos + size)
        out = self.data[self.pos : end]
        self.pos = end
        if consume:
            if self.data[end : end + len(delim)] != delim:
                return out, False
            self.pos += len(delim)
        return out, True

    def readline(self, size=-1):
        idx = self.data.find(b'\n', self.pos)
        end = len(self.data) if idx < 0 else idx + 1
        if size is not None and size >= 0:
            end = min(end, self.pos + size)
        out = self.data[self.pos : end]
        self.pos = end
        return out


def run_reader_case(rng, tag):
    from falcon.errors import DelimiterError

    alphabet = rng.choice([b'ab\r\n-', b'\r\n-', bytes(range(256)), b'a\n'])
    data = bytes(rng.choice(alphabet) for _ in range(rng.choice([0, 1, 7, 40, 300, 900])))
    chunk_size = rng.choice([4, 5, 8, 16, 31, 64, 1000])
    sizes = rng.choice([[1], [2], [3], [7], [1000], [rng.randint(1, 9) for _ in range(5)]])
    declared = len(data) + rng.choice([0, 0, 5])  # Content-Length may overshoot
    real = SyncReader(ChunkedStream(data, sizes).read, declared, chunk_size)
    model = ModelReader(data, chunk_size)
    where = '{} cs={} sizes={} len={}'.format(tag, chunk_size, sizes, len(data))
    delims = [b'\n', b'\r\n', b'-', b'--', b'\r\n-', b'a', b'ab', b'zz']
    delims = [d for d in delims if len(d) < chunk_size]

    def run_ops(real, model, depth, nops):
        for step in range(nops):
            op = rng.choice(
                ['read', 'read', 'peek', 'read_until', 'read_until', 'pipe_until']
                + ['readline', 'delimit', 'readlines', 'exhaust_rarely']
            )
            w = '{} step{} d{} {}'.format(where, step, depth, op)
            if op == 'read':
                size = rng.choice([-1, None, 0, 1, 2, chunk_size - 1, chunk_size])
                if rng.random() < 0.5:
                    size = rng.randint(0, 3 * chunk_size)
                if rng.random() < 0.9 and (size is None or size < 0):
                    size = rng.randint(0, 50)
                expect(real.read(size) == model.read(size), w + ' {}'.format(size))
            elif op == 'peek':
                size = rng.choice([-1, 0, 1, 2, chunk_size, chunk_size + 1])
                expect(real.peek(size) == model.peek(size), w + ' {}'.format(size))
            elif op == 'read_until':
                delim = rng.choice(delims)
                size = rng.choice([-1, 0, 1, chunk_size, 2 * chunk_size])
                if rng.random() < 0.5:
                    size = rng.randint(0, 3 * chunk_size)
                consume = rng.random() < 0.4
                want, ok = model.read_until(delim, size, consume)
                try:
                    got = real.read_until(delim, size, consume)
                except DelimiterError:
                    expect(not ok, w + ' spurious DelimiterError')
                    return False
                expect(ok, w + ' missing DelimiterError {!r} {}'.format(delim, size))
                expect(got == want, w + ' {!r} {} {}'.format(delim, size, consume))
            elif op == 'pipe_until':
                delim = rng.choice(delims)
                consume = rng.random() < 0.4
                want, ok = model.read_until(delim, -1, consume)
                sink = io.BytesIO()
                try:
                    real.pipe_until(delim, sink, consume)
                except DelimiterError:
                    expect(not ok, w + ' spurious DelimiterError')
                    return False
                expect(ok, w + ' missing DelimiterError')
                expect(sink.getvalue() == want, w + ' {!r}'.format(delim))
            elif op == 'readline':
                size = rng.choice([-1, -1, 0, 1, rng.randint(0, 2 * chunk_size)])
                expect(real.readline(size) == model.readline(size), w)
            elif op == 'readlines':
                if rng.random() < 0.2:
                    want = []
                    while True:
                        line = model.readline()
                        if not line:
                            break
                        want.append(line)
                    expect(real.readlines() == want, w)
            elif op == 'exhaust_rarely':
                if rng.random() < 0.1:
                    real.exhaust()
                    model.read()
                    expect(real.read() == b'', w)
            elif op == 'delimit' and depth < 2:
                delim = rng.choice(delims)
                sub = real.delimit(delim)
                idx = model.data.find(delim, model.pos)
                end = len(model.data) if idx < 0 else idx
                submodel = ModelReader(model.data[model.pos : end], chunk_size)
                alive = run_ops(sub, submodel, depth + 1, rng.randint(0, 6))
                if not alive:
                    return False
                if rng.random() < 0.5:
                    sub.exhaust()
                else:
                    # what the multipart form does with a part that was only
                    # partially consumed by the application
                    real.pipe_until(delim)
                model.pos = end
                expect(real.peek(len(delim)) == model.peek(len(delim)), w + ' end')
        return True

    alive = run_ops(real, model, 0, rng.randint(1, 25))
    if alive:
        expect(real.read() == model.read(), where + ' final read')
        expect(real.read(1) == b'' and real.peek(1) == b'', where + ' EOF')


def run_specific():
    for i in range(1500):
        run_reader_case(random.Random(991 * 7919 + i), 'reader#{}'.format(i))


def main():
    signal.alarm(600)  # a hang is a failure
    try:
        run_core()
        run_specific()
    except Failure as ex:
        print('FAIL:', ex)
        return 1
    print('PASS ({} checks)'.format(CASES['n']))
    return 0


if __name__ == '__main__':
    sys.exit(main())
