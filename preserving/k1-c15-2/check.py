#!/usr/bin/env python
"""Model-based check of falcon property C15.

Response headers act as a case-insensitive map; cookies get separate lines.

Run as:  PYTHONPATH=<falcon tree> /venv/bin/python check.py

The program drives random histories of header/cookie/link operations against
both falcon.Response (WSGI) and falcon.asgi.Response (ASGI), mirrors every
operation in a tiny independent reference model, and compares
  * every read (get_header in arbitrary letter case, the typed properties),
  * the exception class raised by every operation,
  * the final header list handed to the server (WSGI str / ASGI bytes),
  * every Set-Cookie line (attributes + request-side round trip),
  * URI-bearing helpers (ASCII only, decode() returns the original),
and finally replays a subset of the histories through the testing client
(WSGI and ASGI apps).  Prints PASS and exits 0 when everything agrees.
"""

import datetime as dt
import email.utils
import random
import re
import sys
import unicodedata
import urllib.parse

import falcon
import falcon.asgi
from falcon import testing
from falcon.errors import HeaderNotSupported
from falcon.response import ResponseOptions
from falcon.util import uri as furi

SEED = 0xC15
N_HISTORIES = 400  # x2 response classes
N_CLIENT = 40  # histories replayed through the testing client (x2 app kinds)
CHECKS = 0
STATS = __import__('collections').Counter()
UTC = dt.timezone.utc


def ok(cond, *info):
    global CHECKS
    CHECKS += 1
    if not cond:
        print('FAIL:', *[repr(i) for i in info])
        sys.exit(1)


# --------------------------------------------------------------------------
# Independent reference helpers
# --------------------------------------------------------------------------

UNRESERVED = (
    'ABCDEFGHIJKLMNOPQRSTUVWXYZabcdefghijklmnopqrstuvwxyz0123456789-._~'
)
ALL_ALLOWED = UNRESERVED + ":/?#[]@!$&'()*+,;="
_ESCAPED_OK = re.compile(r'(?:[^%]|%[0-9A-Fa-f]{2})*')


def ref_uri_encode(s, value=False):
    """Reference for falcon.util.uri.encode[_value]_check_escaped."""
    allowed = UNRESERVED if value else ALL_ALLOWED
    if all(c in allowed for c in s):
        return s
    if all(c in allowed + '%' for c in s) and _ESCAPED_OK.fullmatch(s):
        return s
    return urllib.parse.quote(s, safe=allowed)


def ref_uri_encode_value_plain(s):
    """Reference for falcon.util.uri.encode_value (no escaped check)."""
    return urllib.parse.quote(s, safe=UNRESERVED)


def ref_http_date(d):
    return email.utils.format_datetime(d.replace(tzinfo=UTC), usegmt=True)


def ref_secure_filename(name):
    name = unicodedata.normalize('NFKD', name)
    if name.startswith('.'):
        name = '_' + name[1:]
    return re.sub(r'[^a-zA-Z0-9.-]', '_', name)


def ref_content_disposition(kind, filename):
    if all(ord(c) < 128 for c in filename):
        return kind + '; filename="' + filename + '"'
    return (
        kind
        + '; filename='
        + ref_secure_filename(filename)
        + "; filename*=UTF-8''"
        + ref_uri_encode_value_plain(filename)
    )


def ref_etag(v):
    return v if v.endswith('"') else '"' + v + '"'


def ref_range(t):
    unit = t[3] if len(t) == 4 else 'bytes'
    return '%s %s-%s/%s' % (unit, t[0], t[1], t[2])


COOKIE_FMT = '%a, %d %b %Y %H:%M:%S GMT'
LEGAL_KEY = re.compile(r"[A-Za-z0-9!#$%&'*+\-.^_`|~:]+")
RESERVED_KEYS = {
    'expires',
    'path',
    'comment',
    'domain',
    'max-age',
    'secure',
    'httponly',
    'version',
    'samesite',
    'partitioned',
}
PAST = object()  # marker: "expires" relative to now, in the past


class Model:
    """Case-insensitive header map + raw cookie lines + cookie jar."""

    def __init__(self, secure_default):
        self.h = {}
        self.extra = []
        self.cookies = None  # name -> {'value': str, 'attrs': {...}}
        self.secure_default = secure_default

    # -- plain headers -----------------------------------------------------
    def get(self, name, default):
        n = name.lower()
        if n == 'set-cookie':
            raise HeaderNotSupported('x')
        return self.h.get(n, default)

    def set(self, name, value):
        n = name.lower()
        if n == 'set-cookie':
            raise HeaderNotSupported('x')
        self.h[n] = str(value)

    def delete(self, name):
        n = name.lower()
        if n == 'set-cookie':
            raise HeaderNotSupported('x')
        self.h.pop(n, None)

    def append(self, name, value):
        n = name.lower()
        if n == 'set-cookie':
            self.extra.append(str(value))
        elif n in self.h:
            self.h[n] = self.h[n] + ', ' + str(value)
        else:
            self.h[n] = str(value)

    def set_many(self, items):
        for name, value in items:
            n = name.lower()
            if n == 'set-cookie':
                raise HeaderNotSupported('x')
            self.h[n] = str(value)

    def prop_set(self, lname, rendered):
        if rendered is None:
            self.h.pop(lname, None)
        else:
            self.h[lname] = rendered

    def prop_del(self, lname):
        del self.h[lname]  # KeyError when absent

    # -- cookies -----------------------------------------------------------
    def set_cookie(
        self,
        name,
        value,
        expires=None,
        max_age=None,
        domain=None,
        path=None,
        secure=None,
        http_only=True,
        same_site=None,
        partitioned=False,
    ):
        if not isinstance(name, str) or not name.isascii():
            raise KeyError('name')
        if not isinstance(value, str) or not value.isascii():
            raise ValueError('value')
        if self.cookies is None:
            self.cookies = {}
        if name.lower() in RESERVED_KEYS or not LEGAL_KEY.fullmatch(name):
            raise KeyError('illegal')
        c = self.cookies.setdefault(name, {'value': None, 'attrs': {}})
        c['value'] = value
        a = c['attrs']
        if expires:
            if expires.tzinfo is not None:
                expires = expires.astimezone(UTC)
            a['expires'] = expires.strftime(COOKIE_FMT)
        if max_age is not None:
            a['max-age'] = str(int(max_age))  # may raise ValueError
        if domain:
            a['domain'] = domain
        if path:
            a['path'] = path
        if self.secure_default if secure is None else secure:
            a['secure'] = True
        if http_only:
            a['httponly'] = True
        if same_site:
            if same_site.lower() not in ('lax', 'strict', 'none'):
                raise ValueError('same_site')
            a['samesite'] = same_site.lower().capitalize()
        if partitioned:
            a['partitioned'] = True

    def unset_cookie(self, name, samesite='Lax', domain=None, path=None):
        if self.cookies is None:
            self.cookies = {}
        c = self.cookies.setdefault(name, {'value': None, 'attrs': {}})
        c['value'] = ''
        a = c['attrs']
        a['expires'] = PAST
        a['samesite'] = samesite
        if domain:
            a['domain'] = domain
        if path:
            a['path'] = path


# --------------------------------------------------------------------------
# Generators
# --------------------------------------------------------------------------

HEADER_NAMES = [
    'X-Custom',
    'x-other',
    'Content-Type',
    'Content-Length',
    'Cache-Control',
    'Vary',
    'ETag',
    'Location',
    'Content-Location',
    'Link',
    'Content-Disposition',
    'Retry-After',
    'Accept-Ranges',
    'Expires',
    'Last-Modified',
    'Content-Range',
    'X-A',
    'Set-Cookie',
]


def rand_case(rng, s):
    mode = rng.randrange(4)
    if mode == 0:
        return s.lower()
    if mode == 1:
        return s.upper()
    if mode == 2:
        return s
    return ''.join(c.upper() if rng.random() < 0.5 else c.lower() for c in s)


PRINTABLE = ''.join(chr(i) for i in range(0x20, 0x7F))
LATIN1 = PRINTABLE + ''.join(chr(i) for i in range(0xA1, 0x100))


def rand_value(rng, latin1=True):
    if rng.random() < 0.1:
        return rng.choice([0, 7, -3, 12345, 2.5])
    alphabet = LATIN1 if (latin1 and rng.random() < 0.3) else PRINTABLE
    n = rng.choice([0, 1, 2, 5, 12])
    return ''.join(rng.choice(alphabet) for _ in range(n))


UNI_POOL = (
    'abcXYZ019-._~:/?#[]@!$&\'()*+,;= "<>\\^`{|}'
    'éüßЖ中文\U0001f600\U0001d7cfÅ  '
)


def rand_unicode(rng, allow_percent=False, nonempty=False):
    pool = UNI_POOL + ('%' if allow_percent else '')
    n = rng.choice([1, 2, 3, 6, 10, 20] if nonempty else [0, 1, 2, 3, 6, 10, 20])
    s = ''.join(rng.choice(pool) for _ in range(n))
    if allow_percent and rng.random() < 0.3:
        s += rng.choice(['%41', '%zz', '%', '%4', '%e9%FF', '%2f'])
    return s


def rand_datetime(rng, aware=None):
    d = dt.datetime(
        rng.randrange(1971, 2100),
        rng.randrange(1, 13),
        rng.randrange(1, 29),
        rng.randrange(24),
        rng.randrange(60),
        rng.randrange(60),
    )
    if aware is None:
        aware = rng.random() < 0.5
    if aware:
        off = dt.timedelta(minutes=rng.choice([0, 60, -300, 330, 765, -720]))
        d = d.replace(tzinfo=dt.timezone(off))
    return d


# NOTE: ':' is a legal SimpleCookie key char but is not an RFC 6265 token char
#   and the (unmodified) request-side parser drops such a pair, so it is left
#   out of the round-trip name pool.
COOKIE_NAMES_OK = ['a', 'B', 'sid', 'foo.bar', 'x_y-z', "!#$%&'*+^`|~", 'a1', 'A']
COOKIE_NAMES_BAD_KEY = ['path', 'Expires', 'max-age', 'a b', 'a=b', 'a;b', '', 'a,b']
COOKIE_NAMES_NONASCII = ['né', '中']
COOKIE_VALUE_POOL = PRINTABLE


def rand_cookie_value(rng):
    r = rng.random()
    if r < 0.1:
        return ''
    if r < 0.5:
        return ''.join(
            rng.choice('abcdefXYZ0189-_.~') for _ in range(rng.randrange(1, 10))
        )
    if r < 0.95:
        return ''.join(
            rng.choice(COOKIE_VALUE_POOL) for _ in range(rng.randrange(1, 12))
        )
    return 'vé'  # not ASCII -> ValueError


def rand_set_cookie_kwargs(rng):
    kw = {}
    if rng.random() < 0.4:
        kw['expires'] = rand_datetime(rng)
    if rng.random() < 0.5:
        kw['max_age'] = rng.choice(
            [0, 1, 3600, -1, -100, 2.9, -2.9, 0.0, '15', ' 20 ', '-7', 'abc', '1.5', None]
        )
    if rng.random() < 0.4:
        kw['domain'] = rng.choice(['example.com', '.example.org', '', None, 'EX.com'])
    if rng.random() < 0.4:
        kw['path'] = rng.choice(['/', '/a/b', '', None, '/x y'])
    if rng.random() < 0.6:
        kw['secure'] = rng.choice([True, False, None])
    if rng.random() < 0.5:
        kw['http_only'] = rng.choice([True, False])
    if rng.random() < 0.6:
        kw['same_site'] = rng.choice(
            [
                'Lax',
                'lax',
                'LAX',
                'Strict',
                'sTrIcT',
                'None',
                'none',
                'NONE',
                None,
                '',
                'bogus',
                'laxx',
                ' lax',
                'Lax ',
            ]
        )
    if rng.random() < 0.4:
        kw['partitioned'] = rng.choice([True, False])
    return kw


TYPED_PROPS = [
    # (attribute, lower header name, generator, renderer)
    (
        'cache_control',
        'cache-control',
        lambda r: r.sample(['no-cache', 'no-store', 'max-age=3', 'private'], r.randrange(0, 4)),
        ', '.join,
    ),
    ('content_location', 'content-location', lambda r: rand_unicode(r, True), ref_uri_encode),
    ('location', 'location', lambda r: rand_unicode(r, True), ref_uri_encode),
    ('content_length', 'content-length', lambda r: r.choice([0, 1, 1024, '77', -1]), str),
    (
        'content_range',
        'content-range',
        lambda r: r.choice([(0, 9, 100), (5, 5, '*'), (1, 2, 3, 'items'), (0, 0, 0, '')]),
        ref_range,
    ),
    (
        'content_type',
        'content-type',
        lambda r: r.choice(['text/plain', 'application/json; charset=UTF-8', '', 'X/Y']),
        str,
    ),
    (
        'downloadable_as',
        'content-disposition',
        lambda r: rand_unicode(r, True, nonempty=True),
        lambda v: ref_content_disposition('attachment', v),
    ),
    (
        'viewable_as',
        'content-disposition',
        lambda r: rand_unicode(r, True, nonempty=True),
        lambda v: ref_content_disposition('inline', v),
    ),
    ('etag', 'etag', lambda r: r.choice(['abc', '"abc"', 'W/"x"', 'q"', '"', 'a b']), ref_etag),
    ('expires', 'expires', lambda r: rand_datetime(r, aware=False), ref_http_date),
    ('last_modified', 'last-modified', lambda r: rand_datetime(r, aware=False), ref_http_date),
    ('retry_after', 'retry-after', lambda r: r.choice([0, 120, '30', -5, 1.5]), str),
    ('vary', 'vary', lambda r: r.sample(['*', 'Accept', 'Cookie', 'X-A'], r.randrange(0, 4)), ', '.join),
    ('accept_ranges', 'accept-ranges', lambda r: r.choice(['bytes', 'none', '']), str),
]


def ref_link(
    target,
    rel,
    title=None,
    title_star=None,
    anchor=None,
    hreflang=None,
    type_hint=None,
    crossorigin=None,
    link_extension=None,
):
    if '//' in rel:
        if ' ' in rel:
            rel = '"' + ' '.join(ref_uri_encode(r) for r in rel.split()) + '"'
        else:
            rel = '"' + ref_uri_encode(rel) + '"'
    v = '<' + ref_uri_encode(target) + '>; rel=' + rel
    if title is not None:
        v += '; title="' + title + '"'
    if title_star is not None:
        v += "; title*=UTF-8'" + title_star[0] + "'" + ref_uri_encode(title_star[1], value=True)
    if type_hint is not None:
        v += '; type="' + type_hint + '"'
    if hreflang is not None:
        if isinstance(hreflang, str):
            v += '; hreflang=' + hreflang
        else:
            v += '; ' + '; '.join('hreflang=' + x for x in hreflang)
    if anchor is not None:
        v += '; anchor="' + ref_uri_encode(anchor) + '"'
    if crossorigin is not None:
        c = crossorigin.lower()
        if c not in ('anonymous', 'use-credentials'):
            raise ValueError('crossorigin')
        v += '; crossorigin' if c == 'anonymous' else '; crossorigin="use-credentials"'
    if link_extension is not None:
        v += '; ' + '; '.join('%s=%s' % (p, q) for p, q in link_extension)
    return v


def rand_link_kwargs(rng):
    kw = {}
    if rng.random() < 0.3:
        kw['title'] = rng.choice(['Next page', 'x', ''])
    if rng.random() < 0.3:
        kw['title_star'] = (rng.choice(['', 'en', 'fr-CA']), rand_unicode(rng, True))
    if rng.random() < 0.3:
        kw['anchor'] = rand_unicode(rng)
    if rng.random() < 0.3:
        kw['hreflang'] = rng.choice(['en', ['en', 'fr'], ('de',), []])
    if rng.random() < 0.3:
        kw['type_hint'] = rng.choice(['text/html', 'application/json'])
    if rng.random() < 0.3:
        kw['crossorigin'] = rng.choice(
            ['anonymous', 'Anonymous', 'use-credentials', 'USE-CREDENTIALS', 'bogus']
        )
    if rng.random() < 0.2:
        kw['link_extension'] = rng.choice([[('a', 'b')], [('x', '1'), ('y', '"z"')]])
    return kw


RELS = [
    'next',
    'prev',
    'http://example.com/ext-type',
    'alternate http://example.com/éxt',
    'https://example.com/a b',
    'http://example.com/ext-type  alternate',
]


def gen_history(rng, n_ops):
    """Return a list of (opname, args, kwargs) tuples."""
    ops = []
    raw_n = 0
    for _ in range(n_ops):
        r = rng.random()
        name = rand_case(rng, rng.choice(HEADER_NAMES))
        if r < 0.14:
            ops.append(('set_header', (name, rand_value(rng)), {}))
        elif r < 0.28:
            if name.lower() == 'set-cookie':
                raw_n += 1
                val = 'raw%d=%s; Path=/r' % (raw_n, rng.choice(['1', 'zz', '']))
            else:
                val = rand_value(rng)
            ops.append(('append_header', (name, val), {}))
        elif r < 0.36:
            ops.append(('delete_header', (name,), {}))
        elif r < 0.44:
            items = [
                (rand_case(rng, rng.choice(HEADER_NAMES[: rng.choice([17, 18])])), rand_value(rng))
                for _ in range(rng.randrange(0, 5))
            ]
            form = rng.randrange(3)
            if form == 0:
                arg = items
            elif form == 1:
                arg = dict(items)
            else:
                arg = tuple([list(i) for i in items])
            ops.append(('set_headers', (arg,), {}))
        elif r < 0.56:
            ops.append(
                ('get_header', (name,), {'default': rng.choice([None, 'dflt'])})
            )
        elif r < 0.70:
            attr, lname, gen, render = rng.choice(TYPED_PROPS)
            mode = rng.random()
            if mode < 0.65:
                ops.append(('prop_set', (attr, gen(rng)), {}))
            elif mode < 0.8:
                ops.append(('prop_set', (attr, None), {}))
            elif mode < 0.9:
                ops.append(('prop_del', (attr,), {}))
            else:
                ops.append(('prop_get', (attr,), {}))
        elif r < 0.78:
            ops.append(
                (
                    'append_link',
                    (rand_unicode(rng, True), rng.choice(RELS)),
                    rand_link_kwargs(rng),
                )
            )
        elif r < 0.93:
            q = rng.random()
            if q < 0.85:
                cname = rng.choice(COOKIE_NAMES_OK)
            elif q < 0.95:
                cname = rng.choice(COOKIE_NAMES_BAD_KEY)
            else:
                cname = rng.choice(COOKIE_NAMES_NONASCII)
            ops.append(
                ('set_cookie', (cname, rand_cookie_value(rng)), rand_set_cookie_kwargs(rng))
            )
        else:
            kw = {}
            if rng.random() < 0.4:
                kw['samesite'] = rng.choice(['Lax', 'Strict', 'None'])
            if rng.random() < 0.3:
                kw['domain'] = rng.choice(['example.com', '', None])
            if rng.random() < 0.3:
                kw['path'] = rng.choice(['/', '/a', '', None])
            ops.append(('unset_cookie', (rng.choice(COOKIE_NAMES_OK),), kw))
    return ops


PROP_BY_ATTR = {p[0]: p for p in TYPED_PROPS}


def apply_model(model, op):
    kind, args, kw = op
    if kind == 'set_header':
        return model.set(*args)
    if kind == 'append_header':
        return model.append(*args)
    if kind == 'delete_header':
        return model.delete(*args)
    if kind == 'set_headers':
        arg = args[0]
        return model.set_many(arg.items() if isinstance(arg, dict) else arg)
    if kind == 'get_header':
        return model.get(args[0], kw['default'])
    if kind == 'prop_set':
        attr, lname, _gen, render = PROP_BY_ATTR[args[0]]
        return model.prop_set(lname, None if args[1] is None else render(args[1]))
    if kind == 'prop_del':
        return model.prop_del(PROP_BY_ATTR[args[0]][1])
    if kind == 'prop_get':
        return model.h.get(PROP_BY_ATTR[args[0]][1])
    if kind == 'append_link':
        return model.append('link', ref_link(*args, **kw))
    if kind == 'set_cookie':
        return model.set_cookie(*args, **kw)
    if kind == 'unset_cookie':
        return model.unset_cookie(*args, **kw)
    raise AssertionError(kind)


def apply_real(resp, op):
    kind, args, kw = op
    if kind == 'prop_set':
        return setattr(resp, args[0], args[1])
    if kind == 'prop_del':
        return delattr(resp, args[0])
    if kind == 'prop_get':
        return getattr(resp, args[0])
    return getattr(resp, kind)(*args, **kw)


def outcome(fn, *a, **kw):
    try:
        return ('ok', fn(*a, **kw))
    except Exception as ex:  # noqa: BLE001
        return ('exc', type(ex))


def same_outcome(real, model):
    if real[0] != model[0]:
        return False
    if real[0] == 'ok':
        return real[1] == model[1]
    # HeaderNotSupported must stay a ValueError subclass; KeyError/ValueError
    # must be exactly what the model predicts.
    return real[1] is model[1]


# --------------------------------------------------------------------------
# Final header list checks
# --------------------------------------------------------------------------


def parse_set_cookie(line):
    parts = line.split('; ')
    name, _, coded = parts[0].partition('=')
    attrs = {}
    for p in parts[1:]:
        k, sep, v = p.partition('=')
        attrs[k.lower()] = v if sep else True
    return name, coded, attrs, [p.partition('=')[0] for p in parts[1:]]


CANON_ATTR = {
    'expires': 'expires',
    'max-age': 'Max-Age',
    'domain': 'Domain',
    'path': 'Path',
    'secure': 'Secure',
    'httponly': 'HttpOnly',
    'samesite': 'SameSite',
    'partitioned': 'Partitioned',
}


def check_cookie_lines(lines, model, t0, asgi):
    expected = [] if model.cookies is None else list(model.cookies.items())
    ok(len(lines) == len(expected), 'cookie line count', lines, expected)
    pairs = []
    for line, (name, c) in zip(lines, expected):
        pname, coded, attrs, raw_keys = parse_set_cookie(line)
        ok(pname == name, 'cookie name', line, name)
        want = dict(c['attrs'])
        if want.get('expires') is PAST:
            got = attrs.pop('expires', None)
            want.pop('expires')
            ok(isinstance(got, str), 'unset cookie needs expires', line)
            when = dt.datetime.strptime(got, COOKIE_FMT).replace(tzinfo=UTC)
            now = dt.datetime.now(UTC)
            ok(when < now + dt.timedelta(seconds=0), 'unset cookie is expired', line)
            ok(when >= t0 - dt.timedelta(seconds=3), 'expires close to now', line)
        ok(attrs == want, 'cookie attributes', line, want)
        # spelling of the attribute names on the wire
        ok(
            all(k == CANON_ATTR[k.lower()] for k in raw_keys),
            'attribute spelling',
            line,
        )
        ok(line.isascii(), 'cookie ascii', line)
        pairs.append((name, coded, c['value']))
    # Echo all cookies back in a Cookie header: request API must give the same
    # name and value.
    if pairs:
        header = '; '.join('%s=%s' % (n, coded) for n, coded, _ in pairs)
        if asgi:
            req = falcon.asgi.Request(
                testing.create_scope(headers={'Cookie': header}), None
            )
        else:
            req = falcon.Request(testing.create_environ(headers={'Cookie': header}))
        for n, _coded, value in pairs:
            ok(req.cookies.get(n) == value, 'round trip cookies', header, n, value)
            ok(
                req.get_cookie_values(n) == [value],
                'round trip get_cookie_values',
                header,
                n,
                value,
            )


def check_final(resp, model, asgi, media_type, t0):
    if asgi:
        try:
            items = resp._asgi_headers(media_type)
        except ValueError:
            # non latin-1 value: only possible if the model holds one too
            bad = any(
                not all(ord(c) < 256 for c in k + v) for k, v in model.h.items()
            ) or (media_type and not all(ord(c) < 256 for c in media_type))
            ok(bad, 'unexpected ValueError from _asgi_headers', model.h)
            return
        ok(all(type(k) is bytes and type(v) is bytes for k, v in items), 'bytes', items)
        ok(all(k == k.lower() for k, _ in items), 'lower-case ASGI names', items)
        items = [(k.decode('latin-1'), v.decode('latin-1')) for k, v in items]
    else:
        items = resp._wsgi_headers(media_type)
        ok(all(type(k) is str and type(v) is str for k, v in items), 'str', items)
    if media_type is not None and 'content-type' not in model.h:
        model.h['content-type'] = media_type
    n_plain = len(model.h)
    plain, rest = items[:n_plain], items[n_plain:]
    ok(plain == list(model.h.items()), 'plain headers', plain, model.h)
    names = [k for k, _ in plain]
    ok(len(set(names)) == len(names), 'each plain header once', names)
    ok('set-cookie' not in names, 'no set-cookie among plain', names)
    ok(all(k == 'set-cookie' for k, _ in rest), 'tail is set-cookie only', rest)
    n_extra = len(model.extra)
    ok([v for _, v in rest[:n_extra]] == model.extra, 'raw cookie lines', rest, model.extra)
    check_cookie_lines([v for _, v in rest[n_extra:]], model, t0, asgi)
    # reads in any case agree with the final state
    for k, v in model.h.items():
        ok(resp.get_header(k.upper()) == v, 'final read upper', k)
        ok(resp.get_header(k.title()) == v, 'final read title', k)


def check_uri_op(resp, op):
    """After a successful URI-bearing op, check ASCII + decodability."""
    kind, args, kw = op
    if kind == 'prop_set' and args[1] is not None:
        attr = args[0]
        if attr in ('location', 'content_location'):
            got = getattr(resp, attr)
            ok(got.isascii(), 'uri ascii', attr, args[1], got)
            if '%' not in args[1]:
                ok(furi.decode(got, unquote_plus=False) == args[1], 'uri decode', args[1], got)
        elif attr in ('downloadable_as', 'viewable_as'):
            got = getattr(resp, attr)
            ok(got.isascii(), 'cd ascii', args[1], got)
            kind_ = 'attachment' if attr == 'downloadable_as' else 'inline'
            ok(got.startswith(kind_ + '; filename='), 'cd prefix', got)
            if not args[1].isascii():
                enc = got.split("filename*=UTF-8''", 1)[1]
                ok(
                    furi.decode(enc, unquote_plus=False) == args[1],
                    'filename* decode',
                    args[1],
                    got,
                )
            else:
                ok(got == kind_ + '; filename="' + args[1] + '"', 'cd plain', got)
    elif kind == 'append_link':
        got = resp.get_header('LINK')
        expected_tail = ref_link(*args, **kw)
        ok(got.endswith(expected_tail), 'link tail', got, expected_tail)
        # what this call appended is pure ASCII (titles in the pool are ASCII)
        ok(expected_tail.isascii(), 'link ascii', expected_tail)
        if '%' not in args[0]:
            enc = expected_tail[1 : expected_tail.index('>; rel=')]
            ok(enc.isascii(), 'link target ascii', enc)
            ok(furi.decode(enc, unquote_plus=False) == args[0], 'link decode', args[0], enc)


# --------------------------------------------------------------------------
# Drivers
# --------------------------------------------------------------------------


def make_resp(asgi, secure_default):
    opts = ResponseOptions()
    opts.secure_cookies_by_default = secure_default
    cls = falcon.asgi.Response if asgi else falcon.Response
    return cls(options=opts)


def run_history(ops, asgi, secure_default, media_type):
    t0 = dt.datetime.now(UTC).replace(microsecond=0)
    resp = make_resp(asgi, secure_default)
    model = Model(secure_default)
    for i, op in enumerate(ops):
        real = outcome(apply_real, resp, op)
        want = outcome(apply_model, model, op)
        ok(same_outcome(real, want), 'op outcome', asgi, i, op, real, want)
        STATS[(op[0], real[0] if real[0] == 'ok' else real[1].__name__)] += 1
        if real[0] == 'exc' and real[1] is HeaderNotSupported:
            ok(issubclass(real[1], ValueError), 'HeaderNotSupported is a ValueError')
        if real[0] == 'ok':
            check_uri_op(resp, op)
        # state agrees after every step (reads in random case)
        ok(resp._headers == model.h, 'state after op', i, op, resp._headers, model.h)
    # Set-Cookie can never be read/overwritten/deleted through plain calls
    for call in (
        lambda: resp.get_header('sEt-CoOkIe'),
        lambda: resp.set_header('SET-COOKIE', 'a=b'),
        lambda: resp.delete_header('set-cookie'),
        lambda: resp.set_headers([('Set-Cookie', 'a=b')]),
        lambda: resp.set_headers({'set-COOKIE': 'a=b'}),
    ):
        o = outcome(call)
        ok(o == ('exc', HeaderNotSupported), 'Set-Cookie guard', o)
    check_final(resp, model, asgi, media_type, t0)
    # the final list is stable when produced twice
    again = resp._asgi_headers(media_type) if asgi and all(
        ord(c) < 256 for k, v in model.h.items() for c in k + v
    ) else (None if asgi else resp._wsgi_headers(media_type))
    if again is not None:
        first = resp._asgi_headers(media_type) if asgi else resp._wsgi_headers(media_type)
        ok(again == first, 'stable final list')
    return model


def client_replay(ops, asgi, secure_default):
    """Run the history inside a responder and look at what a client sees."""
    model = Model(secure_default)
    model_outcomes = [outcome(apply_model, model, op) for op in ops]
    seen = {}

    def body(resp):
        seen['outcomes'] = [outcome(apply_real, resp, op) for op in ops]
        # keep the transport happy: latin-1 values would be fine, but the
        # simulated client re-decodes; drop non-ASCII plain headers.
        for k in [k for k, v in resp._headers.items() if not (k + v).isascii()]:
            resp.delete_header(k)
            model.h.pop(k, None)
        for k in ('content-length', 'content-range'):
            resp.delete_header(k)
            model.h.pop(k, None)
        resp.text = 'ok'

    if asgi:

        class Res:
            async def on_get(self, req, resp):
                body(resp)

        app = falcon.asgi.App()
    else:

        class Res:
            def on_get(self, req, resp):
                body(resp)

        app = falcon.App()
    app.resp_options.secure_cookies_by_default = secure_default
    app.add_route('/', Res())
    result = testing.TestClient(app).simulate_get('/')
    ok(result.status_code == 200, 'client status', result.status, result.text)
    for real, want in zip(seen['outcomes'], model_outcomes):
        ok(same_outcome(real, want), 'client op outcome', real, want)
    for k, v in model.h.items():
        for name in (k, k.upper(), k.title()):
            ok(result.headers.get(name) == v, 'client header', name, v, result.headers)
    plain_names = [k.lower() for k, _ in result.headers.items() if k.lower() != 'set-cookie']
    ok(
        sorted(plain_names) == sorted(set(model.h) | {'content-type', 'content-length'}),
        'client header names',
        plain_names,
        list(model.h),
    )
    for name, c in (model.cookies or {}).items():
        ck = result.cookies.get(name)
        ok(ck is not None, 'client cookie present', name)
        ok(ck.value == c['value'], 'client cookie value', name, ck.value, c['value'])
        a = c['attrs']
        ok(bool(ck.secure) == bool(a.get('secure')), 'client secure', name)
        ok(bool(ck.http_only) == bool(a.get('httponly')), 'client httponly', name)
        ok(ck.same_site == a.get('samesite'), 'client samesite', name, ck.same_site)
        ok(ck.domain == a.get('domain'), 'client domain', name)
        ok(ck.path == a.get('path'), 'client path', name)
        if 'max-age' in a:
            ok(ck.max_age == int(a['max-age']), 'client max-age', name)
        else:
            ok(ck.max_age is None, 'client no max-age', name)
        if a.get('expires') is PAST:
            ok(
                ck.expires.replace(tzinfo=UTC) < dt.datetime.now(UTC),
                'client expired',
                name,
            )
    for raw in model.extra:
        rname = raw.split('=', 1)[0]
        ok(rname in result.cookies, 'client raw cookie', raw)


def core_main():
    rng = random.Random(SEED)
    histories = []
    for i in range(N_HISTORIES):
        ops = gen_history(rng, rng.choice([3, 8, 15, 30]))
        secure_default = rng.choice([True, False])
        media_type = rng.choice([None, 'application/json', 'text/plain; charset=utf-8'])
        histories.append((ops, secure_default, media_type))
    for ops, secure_default, media_type in histories:
        for asgi in (False, True):
            run_history(ops, asgi, secure_default, media_type)
    crng = random.Random(SEED + 1)
    for i in range(N_CLIENT):
        ops = gen_history(crng, crng.choice([5, 12, 25]))
        secure_default = crng.choice([True, False])
        for asgi in (False, True):
            client_replay(ops, asgi, secure_default)
    return len(histories) * 2 + N_CLIENT * 2


# --------------------------------------------------------------------------
# Change-specific part: set_cookie attribute writing (one morsel per name)
# --------------------------------------------------------------------------

import itertools  # noqa: E402


def ref_set_cookie_line(name, c):
    """Independent rendering of a Set-Cookie value (sorted attribute keys)."""
    value = c['value']
    if value and re.fullmatch(r"[A-Za-z0-9!#$%&'*+\-.^_`|~:]+", value):
        coded = value
    else:
        coded = None  # quoting is left to the jar; compared structurally
    out = []
    for key in sorted(c['attrs']):
        v = c['attrs'][key]
        if v is True:
            out.append(CANON_ATTR[key])
        else:
            out.append('%s=%s' % (CANON_ATTR[key], v))
    return coded, out


def final_cookie_lines(resp, asgi):
    if asgi:
        items = [(k.decode('ascii'), v.decode('ascii')) for k, v in resp._asgi_headers()]
    else:
        items = resp._wsgi_headers()
    ok(all(k == 'set-cookie' for k, _ in items), 'only cookies', items)
    return [v for _, v in items]


def extra_main():
    cases = 0
    naive = dt.datetime(2031, 2, 3, 4, 5, 6)
    aware = dt.datetime(2031, 2, 3, 4, 5, 6, tzinfo=dt.timezone(dt.timedelta(hours=5, minutes=30)))
    ok(aware.astimezone(UTC).strftime(COOKIE_FMT) == 'Sun, 02 Feb 2031 22:35:06 GMT', 'sanity')
    grid = itertools.product(
        [None, naive, aware],  # expires
        [None, 0, 2.9, '15', 'abc'],  # max_age
        [None, '', 'example.com'],  # domain
        [None, '/a'],  # path
        [None, True, False],  # secure
        [True, False],  # http_only
        [None, 'LAX', 'strict', 'None', 'bogus'],  # same_site
        [False, True],  # partitioned
        [True, False],  # secure_cookies_by_default
    )
    t0 = dt.datetime.now(UTC).replace(microsecond=0)
    for n, combo in enumerate(grid):
        expires, max_age, domain, path, secure, http_only, same_site, part, sdef = combo
        kw = dict(
            expires=expires,
            max_age=max_age,
            domain=domain,
            path=path,
            secure=secure,
            http_only=http_only,
            same_site=same_site,
            partitioned=part,
        )
        asgi = bool(n % 2)
        cases += 1
        resp = make_resp(asgi, sdef)
        model = Model(sdef)
        # a small history around the call: a sibling cookie first, then the
        # cookie under test (possibly failing half-way), then -- every third
        # case -- the same name again with bare defaults, which must keep the
        # attributes written before (the jar reuses the morsel of a name).
        ops = [
            ('set_cookie', ('sib', 'one'), {'secure': False, 'http_only': False}),
            ('set_cookie', ('k', 'v w'), kw),
        ]
        if n % 3 == 0:
            ops.append(('set_cookie', ('k', 'again'), {'secure': False, 'http_only': False}))
        if n % 7 == 0:
            ops.append(('unset_cookie', ('k',), {'path': '/z'}))
        if n % 11 == 0:
            ops.append(('set_cookie', ('k', 'third'), {'max_age': 9}))
        for op in ops:
            real = outcome(apply_real, resp, op)
            want = outcome(apply_model, model, op)
            ok(same_outcome(real, want), 'grid outcome', op, real, want)
        lines = final_cookie_lines(resp, asgi)
        check_cookie_lines(lines, model, t0, asgi)
        # exact wire text of the attribute part, in the jar's sorted order
        for line, (name, c) in zip(lines, model.cookies.items()):
            if c['attrs'].get('expires') is PAST:
                continue
            coded, attrs = ref_set_cookie_line(name, c)
            parts = line.split('; ')
            ok(parts[1:] == attrs, 'exact attribute text', line, attrs)
            if coded is not None:
                ok(parts[0] == name + '=' + coded, 'exact name=value', line)

    # hard-coded expectations (taken from the unmodified tree)
    for asgi in (False, True):
        cases += 1
        resp = make_resp(asgi, True)
        resp.set_cookie('a', '1', path='/x', max_age=2.9, same_site='nOnE', partitioned=True)
        m0 = resp._cookies['a']
        ok(
            final_cookie_lines(resp, asgi)
            == ['a=1; HttpOnly; Max-Age=2; Partitioned; Path=/x; SameSite=None; Secure'],
            'hard-coded 1',
        )
        resp.set_cookie('a', '2', secure=False, http_only=False, expires=aware)
        ok(resp._cookies['a'] is m0, 'the jar keeps the same morsel for a name')
        ok(
            final_cookie_lines(resp, asgi)
            == [
                'a=2; expires=Sun, 02 Feb 2031 22:35:06 GMT; HttpOnly; Max-Age=2; '
                'Partitioned; Path=/x; SameSite=None; Secure'
            ],
            'hard-coded 2 (attributes persist)',
        )
        resp.set_cookie('b', 'x y', secure=False, http_only=False, domain='d.example')
        ok(
            final_cookie_lines(resp, asgi)[1] == 'b="x y"; Domain=d.example',
            'hard-coded 3',
        )
        ok(outcome(resp.set_cookie, 'c', 'v', max_age='abc', domain='late.example')[1] is ValueError, 'bad max_age')
        ok(final_cookie_lines(resp, asgi)[2] == 'c=v', 'nothing after the failing attribute')
        ok(outcome(resp.set_cookie, 'c', 'w', domain='d', same_site='bogus', partitioned=True)[1] is ValueError, 'bad same_site')
        ok(
            final_cookie_lines(resp, asgi)[2] == 'c=w; Domain=d; HttpOnly; Secure',
            'attributes before same_site are kept, none after',
        )
        resp.unset_cookie('a')
        ok(resp._cookies['a'] is m0, 'unset keeps the morsel')
        ok(list(resp._cookies) == ['a', 'b', 'c'], 'jar order')

        # re-entrancy: an attribute value whose conversion sets the same
        # cookie again (same morsel -> same outcome on either tree)
        resp2 = make_resp(asgi, False)

        class Reenter:
            def __int__(self_inner, resp2=resp2):
                resp2.set_cookie('r', 'inner', path='/inner', secure=False, http_only=False)
                return 5

        resp2.set_cookie('r', 'outer', max_age=Reenter(), domain='o.example')
        ok(
            final_cookie_lines(resp2, asgi)
            == ['r=inner; Domain=o.example; HttpOnly; Max-Age=5; Path=/inner'],
            're-entrant set_cookie',
            final_cookie_lines(resp2, asgi),
        )
    return cases


if __name__ == '__main__':
    print('falcon imported from', falcon.__file__)
    n_core = core_main()
    n_extra = extra_main()
    print(
        'histories: %d, change-specific cases: %d, assertions: %d'
        % (n_core, n_extra, CHECKS)
    )
    print('PASS')
    sys.exit(0)
