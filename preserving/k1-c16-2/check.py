"""Check of property C16 (static routes: containment + exact bytes/ranges/304).

Run as:  PYTHONPATH=<falcon tree> /venv/bin/python check.py

The program builds a real directory tree (regular files and directories, no
symlinks) with a "secret" file outside of the served directory, registers a
number of static routes (with/without fallback, downloadable, overlapping
prefixes in LIFO order) on a WSGI and an ASGI app, and then fires several
thousand generated requests at them.  For every request it

  * records every file opened through ``io.open`` and verifies that its real
    path lies inside the served directory (or is the configured fallback);
  * compares status, body, Content-Length, Content-Range, Content-Type,
    Content-Disposition, Last-Modified and Accept-Ranges against a simple,
    independent reference model (sanitisation rules + Python slicing).

It also drives ``_set_range`` / ``_BoundedFile`` directly over every
(size, first, last) triple for small sizes with different read patterns.

Prints PASS and exits 0 on success; prints the failures and exits 1 otherwise.
"""

import datetime
import io
import os
import posixpath
import random
import re
import shutil
import sys
import tempfile
import urllib.parse
import warnings

import falcon
import falcon.asgi
from falcon.routing import static as static_mod
import falcon.testing as testing

# NOTE: The framework leaves it to the garbage collector to close the file on
#   its 304/400 paths (that is so in the unmodified tree, too, and it is not
#   what this check is about); keep the interpreter from reporting that.
warnings.simplefilter('ignore', ResourceWarning)

FAILURES = []
COUNTS = {}


def fail(msg):
    FAILURES.append(msg)
    if len(FAILURES) > 40:
        finish()


def count(key, n=1):
    COUNTS[key] = COUNTS.get(key, 0) + n


def finish():
    if FAILURES:
        for f in FAILURES[:40]:
            print('FAIL:', f)
        print('FAILED (%d failures)' % len(FAILURES))
        sys.exit(1)
    print('cases:', ', '.join('%s=%d' % kv for kv in sorted(COUNTS.items())))
    print('PASS')
    sys.exit(0)


# ---------------------------------------------------------------------------
# Directory tree
# ---------------------------------------------------------------------------

ROOT = os.path.realpath(tempfile.mkdtemp(prefix='c16chk'))
assert '..' not in ROOT and '//' not in ROOT
PUBLIC = os.path.join(ROOT, 'public')
OTHER = os.path.join(ROOT, 'other')  # second served directory (LIFO tests)
SIBLING = os.path.join(ROOT, 'public-secret')  # shares a string prefix with PUBLIC
FBDIR = os.path.join(ROOT, 'fallbacks')
MTIME = 1700000000.75  # fractional on purpose

FILES = {
    'a.txt': b'hello static world\n',
    'index.html': b'<html>index</html>',
    'empty.bin': b'',
    'one.bin': b'Z',
    'two.bin': b'xy',
    'five.bin': b'01234',
    'data.bin': bytes(range(37)),
    'UPPER.TXT': b'upper',
    'noext': b'no extension',
    'file.tar.gz': b'\x1f\x8b not really',
    'name with space.txt': b'spaced',
    '.hidden': b'hidden but inside',
    'we..ird.txt': b'double dot inside a name',
    'sub/inner.html': b'<p>inner</p>',
    'sub/deep/x.json': b'{"x": 1}',
    'sub/a.txt': b'another a',
    'secret.txt': b'a PUBLIC file which merely shares the name',
}
OTHER_FILES = {
    'a.txt': b'a.txt from OTHER',
    'only-other.css': b'body{}',
    'sub/inner.html': b'other inner',
}
SECRET = b'TOP-SECRET-OUTSIDE'


def _write(path, data):
    os.makedirs(os.path.dirname(path), exist_ok=True)
    with open(path, 'wb') as f:
        f.write(data)
    os.utime(path, (MTIME, MTIME))


for _name, _data in FILES.items():
    _write(os.path.join(PUBLIC, _name), _data)
for _name, _data in OTHER_FILES.items():
    _write(os.path.join(OTHER, _name), _data)
_write(os.path.join(ROOT, 'secret.txt'), SECRET)
_write(os.path.join(SIBLING, 's.txt'), SECRET)
_write(os.path.join(FBDIR, 'fb.html'), b'<html>fallback</html>')
os.makedirs(os.path.join(PUBLIC, 'emptydir'))

FB_ABS = os.path.join(FBDIR, 'fb.html')

# (prefix, directory, downloadable, fallback_filename) in registration order
ROUTE_SPECS = [
    ('/static', PUBLIC, False, None),
    ('/dl/', PUBLIC, True, None),
    ('/fb', PUBLIC, False, FB_ABS),
    ('/fbrel', PUBLIC, True, 'index.html'),
    ('/lifo', OTHER, False, None),
    ('/lifo', PUBLIC, False, None),  # same prefix: the later one wins
    ('/static/over', OTHER, False, None),  # more specific, added later: wins
    ('/fb/nested', OTHER, False, 'only-other.css'),
]


class ModelRoute:
    def __init__(self, prefix, directory, downloadable, fallback):
        self.prefix = prefix if prefix.endswith('/') else prefix + '/'
        self.directory = directory
        self.downloadable = downloadable
        self.fallback = (
            None
            if fallback is None
            else posixpath.normpath(posixpath.join(directory, fallback))
        )

    def match(self, path):
        if path.startswith(self.prefix):
            return True
        return self.fallback is not None and path == self.prefix[:-1]


# LIFO: last registered is consulted first
MODEL_ROUTES = [ModelRoute(*spec) for spec in reversed(ROUTE_SPECS)]

BAD_CHARS = set(
    [chr(c) for c in range(0x00, 0x20)]
    + [chr(c) for c in range(0x80, 0xA0)]
    + list('\ufffd~?<>:*|\'"')
)


def model_resolve(path):
    """Return (route, file_to_serve or None) for a request path (as seen by the app)."""
    for route in MODEL_ROUTES:
        if route.match(path):
            break
    else:
        return None, None

    rest = path[len(route.prefix):]
    has_fb = route.fallback is not None

    def miss():
        return route, None

    if not rest and not has_fb:
        return miss()
    if rest.strip().rstrip('.') != rest:
        return miss()
    if any(ch in BAD_CHARS for ch in rest):
        return miss()
    if '\\' in rest or '//' in rest or len(rest) > 512:
        return miss()
    norm = posixpath.normpath(rest)
    if norm.startswith('../') or norm.startswith('/'):
        return miss()
    target = posixpath.join(route.directory, norm)
    if '..' in target:
        return miss()
    if os.path.isfile(target):
        return route, target
    if has_fb:
        return route, route.fallback
    return miss()


def inside(path, directory):
    real = os.path.realpath(path)
    d = os.path.realpath(directory)
    return real == d or real.startswith(d + os.sep)


# ---------------------------------------------------------------------------
# Apps, recording of opened files and of the path the app saw
# ---------------------------------------------------------------------------

OPENED = []
SEEN = []
_real_io_open = io.open


def _recording_open(file, *args, **kwargs):
    # NOTE: only opens issued by the framework itself are of interest; the
    #   interpreter may use io.open() on its own, e.g., to read source lines
    #   when it formats a warning.
    caller = sys._getframe(1).f_globals.get('__name__', '')
    if caller == 'falcon' or caller.startswith('falcon.'):
        OPENED.append(file)
    return _real_io_open(file, *args, **kwargs)


io.open = _recording_open


class RecWSGI:
    def process_request(self, req, resp):
        SEEN.append(req.path)


class RecASGI:
    async def process_request(self, req, resp):
        SEEN.append(req.path)


def build(app):
    for prefix, directory, downloadable, fallback in ROUTE_SPECS:
        app.add_static_route(
            prefix, directory, downloadable=downloadable, fallback_filename=fallback
        )
    return app


WSGI_APP = build(falcon.App(middleware=[RecWSGI()]))
ASGI_APP = build(falcon.asgi.App(middleware=[RecASGI()]))
CLIENTS = {'wsgi': testing.TestClient(WSGI_APP), 'asgi': testing.TestClient(ASGI_APP)}
MEDIA_TYPES = dict(WSGI_APP.resp_options.static_media_types)

EXPECTED_LAST_MODIFIED = falcon.dt_to_http(
    datetime.datetime.fromtimestamp(int(MTIME), datetime.timezone.utc)
)


def read_bytes(path):
    with open(path, 'rb') as f:
        return f.read()


# ---------------------------------------------------------------------------
# Range / conditional model
# ---------------------------------------------------------------------------

_NUM = r'[0-9]+'


def model_range(value, size):
    """Model for a Range header value against a file of `size` bytes.

    Returns one of ('full',), ('partial', start, end), ('416',), ('400',).
    Only values made of plain ASCII digits are interpreted; everything else
    that this check generates is listed explicitly in ODD_RANGES.
    """
    if value is None:
        return ('full',)
    if '=' not in value:
        return ('400',)
    unit, _, spec = value.partition('=')
    if unit != 'bytes':
        return ('full',)
    if ',' in spec:
        return ('400',)
    m = re.fullmatch(r'(%s)?-(%s)?' % (_NUM, _NUM), spec)
    if not m:
        return ('400',)
    first, last = m.group(1), m.group(2)
    if first is None and last is None:
        return ('400',)
    if first is not None and last is not None:
        first, last = int(first), int(last)
        if last < first:
            return ('400',)
        if size == 0:
            return ('full',)
        if first >= size:
            return ('416',)
        return ('partial', first, min(last, size - 1))
    if first is not None:
        first = int(first)
        if size == 0:
            return ('full',)
        if first >= size:
            return ('416',)
        return ('partial', first, size - 1)
    n = int(last)
    if n == 0:
        return ('400',)
    if size == 0:
        return ('full',)
    n = min(n, size)
    return ('partial', size - n, size - 1)


# value -> expected kind given a non-empty file of 5 bytes ("five.bin")
ODD_RANGES = {
    '': ('400',),
    'bytes': ('400',),
    'bytes=': ('400',),
    'bytes=-': ('400',),
    'bytes=--': ('400',),
    'bytes=a-b': ('400',),
    'bytes=1-x': ('400',),
    'bytes=x-1': ('400',),
    'bytes=--1': ('400',),
    'bytes=1--1': ('400',),
    'bytes=3-2': ('400',),
    'bytes=0-1,3-4': ('400',),
    'bytes=0-0,-1': ('400',),
    'bytes=,': ('400',),
    'bytes=1': ('400',),
    'bytes=1.5-2': ('400',),
    'bytes=0x1-2': ('400',),
    'bytes=-0': ('400',),
    'bytes=-00': ('400',),
    'bytes==0-1': ('400',),
    'bytes=0-=1': ('400',),
    '=0-1': ('full',),
    '=': ('full',),
    'items=0-1': ('full',),
    'items=': ('full',),
    'items=junk,junk': ('full',),
    'BYTES=0-1': ('full',),
    'Bytes=0-1': ('full',),
    'bytes =0-1': ('full',),
    ' bytes=0-1': ('partial', 0, 1),  # header values are stripped by servers/clients
    'none=0-1': ('full',),
    'bytes=0-0': ('partial', 0, 0),
    'bytes=00-01': ('partial', 0, 1),
    'bytes=4-4': ('partial', 4, 4),
    'bytes=4-99999999999999999999': ('partial', 4, 4),
    'bytes=5-5': ('416',),
    'bytes=5-': ('416',),
    'bytes=99999999999999999999-': ('416',),
    'bytes=-99999999999999999999': ('partial', 0, 4),
    'bytes=-5': ('partial', 0, 4),
    'bytes=-6': ('partial', 0, 4),
    'bytes=-1': ('partial', 4, 4),
    'bytes=0--0': ('partial', 0, 0),
    'bytes=+1-+2': ('partial', 1, 2),
    'bytes= 1 - 2 ': ('partial', 1, 2),
    'bytes=1_0-': ('416',),
    'bytes=-1_0': ('partial', 0, 4),
}


def check_headers_common(tag, result, route, served):
    h = result.headers
    if h.get('Last-Modified') != EXPECTED_LAST_MODIFIED:
        fail('%s: Last-Modified %r' % (tag, h.get('Last-Modified')))
    suffix = os.path.splitext(served)[1]
    want_ct = MEDIA_TYPES.get(suffix, 'application/octet-stream')
    if h.get('Content-Type') != want_ct:
        fail('%s: Content-Type %r != %r' % (tag, h.get('Content-Type'), want_ct))
    if h.get('Accept-Ranges') != 'bytes':
        fail('%s: Accept-Ranges %r' % (tag, h.get('Accept-Ranges')))
    cd = h.get('Content-Disposition')
    if route.downloadable:
        base = os.path.basename(served)
        if not cd or not cd.startswith('attachment'):
            fail('%s: Content-Disposition %r' % (tag, cd))
        elif base.isascii() and ' ' not in base and base not in cd:
            fail('%s: Content-Disposition %r lacks %r' % (tag, cd, base))
    elif cd is not None:
        fail('%s: unexpected Content-Disposition %r' % (tag, cd))


def do_request(kind, decoded_path, encoder, headers=None, method='GET'):
    """Issue a request; returns (result, seen_path, opened_files)."""
    del OPENED[:]
    del SEEN[:]
    wire = encoder(decoded_path)
    result = CLIENTS[kind].simulate_request(method, wire, headers=headers)
    seen = SEEN[-1] if SEEN else None
    return result, seen, list(OPENED)


def enc_full(p):
    return urllib.parse.quote(p, safe='/')


def enc_all(p):
    # encode every byte, even unreserved characters, dots and slashes
    return '/' + ''.join('%%%02X' % b for b in p[1:].encode('utf-8', 'surrogatepass'))


def enc_min(p):
    # only what the test client cannot carry verbatim
    return (
        p.replace('%', '%25').replace('?', '%3F').replace('#', '%23')
    )


def enc_lower(p):
    return re.sub(
        r'%[0-9A-F]{2}', lambda m: m.group(0).lower(), urllib.parse.quote(p, safe='/')
    )


ENCODERS = [enc_full, enc_min, enc_lower, enc_all]


def check_path_request(kind, decoded_path, encoder, headers=None):
    tag = '%s %s %r' % (kind, encoder.__name__, decoded_path)
    try:
        result, seen, opened = do_request(kind, decoded_path, encoder, headers)
    except Exception as ex:  # the framework must not blow up
        fail('%s: raised %r' % (tag, ex))
        return
    count('path/' + kind)
    if seen is None:
        fail('%s: request never reached the app' % tag)
        return
    route, served = model_resolve(seen)

    # (a) containment of everything that has been opened
    if route is None:
        if opened:
            fail('%s: files opened without a matching route: %r' % (tag, opened))
    else:
        if len(opened) > 2:
            fail('%s: more than two opens %r' % (tag, opened))
        for f in opened:
            f = os.fspath(f)
            if f == route.fallback:
                continue
            if not inside(f, route.directory):
                fail('%s: opened %r outside of %r' % (tag, f, route.directory))
            if os.path.realpath(f) in (
                os.path.join(ROOT, 'secret.txt'),
                os.path.join(SIBLING, 's.txt'),
            ):
                fail('%s: opened the secret %r' % (tag, f))
    if SECRET in result.content:
        fail('%s: the secret leaked' % tag)

    # (b) status and payload
    if served is None:
        if result.status_code != 404:
            fail('%s: expected 404, got %s' % (tag, result.status))
        return
    if result.status_code != 200:
        fail('%s: expected 200 (%s), got %s' % (tag, served, result.status))
        return
    count('served/' + kind)
    data = read_bytes(served)
    if result.content != data:
        fail('%s: body %r != %r' % (tag, result.content[:40], data[:40]))
    if result.headers.get('Content-Length') != str(len(data)):
        fail('%s: Content-Length %r' % (tag, result.headers.get('Content-Length')))
    if 'Content-Range' in result.headers:
        fail('%s: unexpected Content-Range' % tag)
    if opened and os.fspath(opened[-1]) != served:
        fail('%s: last opened %r but model serves %r' % (tag, opened[-1], served))
    check_headers_common(tag, result, route, served)


# ---------------------------------------------------------------------------
# Path generation
# ---------------------------------------------------------------------------

PREFIXES = [
    '/static', '/dl', '/fb', '/fbrel', '/lifo', '/static/over', '/fb/nested',
    '/nothing', '/staticx', '/stat',
]

SEGMENTS = [
    '..', '.', '', 'sub', 'deep', 'a.txt', 'inner.html', 'x.json', '...', '.. ',
    ' ..', '. .', '..;', '%2e%2e', '%2E%2E', '..%2f', '%2f', '%5c', '\\', '..\\',
    '\x00', '\n', '\t', '\x7f', '\x85', '\u00a0', '\ufffd', '~', '~root', 'secret.txt',
    'public', 'public-secret', 's.txt', 'other', 'fallbacks', 'fb.html', 'C:', 'c:\\',
    'emptydir', 'index.html', '.hidden', 'we..ird.txt', 'UPPER.TXT', 'upper.txt',
    'noext', 'a.txt.', 'a.txt ', ' a.txt', 'a.txt\x00', 'a.txt%00.png', 'a.txt?x=1',
    'a.txt#frag', 'a.txt;v=1', 'file.tar.gz', 'name with space.txt', '\u00e9t\u00e9.txt',
    '\u202e', '\ud7ff', '*', '|', '<', '>', ':', '"', "'", '%252e%252e', '....//',
    'only-other.css', ROOT.lstrip('/'), 'etc', 'passwd',
]
SEPARATORS = ['/', '/', '/', '//', '\\', '/./', '/../', '%2F', '%5C']

HOSTILE_CHARS = list('./\\~?<>:*|\'"%# ;+&=@') + [
    '\x00', '\x01', '\x1f', '\x7f', '\x80', '\x9f', '\xa0', '\ufffd', '\u2215',
    '\u2216', '\uff0e', '\uff0f', '\u2024', '\r', '\n',
]

FIXED_PATHS = [
    '/static', '/static/', '/static//', '/fb', '/fb/', '/fbrel', '/fbrel/', '/dl', '/dl/',
    '/static/a.txt', '/static/sub/inner.html', '/static/sub/deep/x.json',
    '/static/sub', '/static/sub/', '/static/emptydir', '/static/sub/deep/',
    '/static/a.txt/', '/static/a.txt/.', '/static/./a.txt', '/static/sub/../a.txt',
    '/static/sub/../../secret.txt', '/static/../secret.txt', '/static/..', '/static/../',
    '/static/../public/a.txt', '/static/../public-secret/s.txt', '/static/.../a.txt',
    '/static/sub/..', '/static/sub/deep/../../a.txt', '/static/sub/deep/../../../secret.txt',
    '/static/' + ROOT.lstrip('/') + '/secret.txt', '/static//' + ROOT.lstrip('/') + '/secret.txt',
    '/static/%2e%2e/secret.txt', '/static/..%2fsecret.txt', '/static/..%5csecret.txt',
    '/static/..\\secret.txt', '/static/\\..\\secret.txt', '/static/~/secret.txt',
    '/static/we..ird.txt', '/static/.hidden', '/static/UPPER.TXT', '/static/upper.txt',
    '/static/name with space.txt', '/static/noext', '/static/file.tar.gz',
    '/static/over/a.txt', '/static/over/only-other.css', '/static/over/../a.txt',
    '/static/over/../../secret.txt', '/static/over', '/static/over/', '/static/overx/a.txt',
    '/lifo/a.txt', '/lifo/only-other.css', '/lifo/index.html',
    '/fb/missing.txt', '/fb/sub', '/fb/../secret.txt', '/fb/a.txt', '/fb/nested',
    '/fb/nested/', '/fb/nested/a.txt', '/fb/nested/nope', '/fb/nested/../a.txt',
    '/fbrel/missing', '/fbrel/a.txt', '/fbrel/..', '/fbrel/x\x00', '/fb/ ', '/fb/.',
    '/dl/a.txt', '/dl/sub/inner.html', '/dl/name with space.txt', '/dl/nope',
    '/nothing/a.txt', '/staticx/a.txt', '/stat', '/', '/a.txt', '/secret.txt',
    '/STATIC/a.txt', '/static/A.TXT',
]


def long_paths():
    out = []
    for total in (509, 510, 511, 512, 513, 514, 600, 1024, 5000):
        # './' repeated in front of a.txt, exact remainder length == total
        pad = total - len('a.txt')
        if pad % 2 == 0:
            out.append('/static/' + './' * (pad // 2) + 'a.txt')
        else:
            out.append('/static/' + './' * ((pad - 1) // 2) + 'a.txt/')
        assert len(out[-1]) == len('/static/') + total
        out.append('/static/' + 'a' * total)
        out.append('/fb/' + 'b' * (total - 4) + '.txt')
        out.append('/static/' + '../' * (total // 3) + 'secret.txt')
    for seg in (254, 255, 256, 300):
        out.append('/static/' + 'n' * seg)
        out.append('/fb/sub/' + 'n' * seg)
    return out


def generated_paths(rng, n_grammar, n_mutation):
    paths = []
    for _ in range(n_grammar):
        prefix = rng.choice(PREFIXES)
        k = rng.randint(1, 6)
        parts = []
        for i in range(k):
            parts.append(rng.choice(SEGMENTS))
            if i != k - 1:
                parts.append(rng.choice(SEPARATORS))
        paths.append(prefix + rng.choice(['/', '/', '/', '', '//', '\\']) + ''.join(parts))
    names = list(FILES) + list(OTHER_FILES) + ['secret.txt', '../secret.txt']
    for _ in range(n_mutation):
        prefix = rng.choice(PREFIXES[:7])
        name = rng.choice(names)
        chars = list(name)
        for _ in range(rng.randint(1, 3)):
            op = rng.randint(0, 4)
            pos = rng.randint(0, len(chars))
            if op == 0:
                chars.insert(pos, rng.choice(HOSTILE_CHARS))
            elif op == 1 and chars:
                chars[min(pos, len(chars) - 1)] = rng.choice(HOSTILE_CHARS)
            elif op == 2 and chars:
                del chars[min(pos, len(chars) - 1)]
            elif op == 3 and chars:
                i = min(pos, len(chars) - 1)
                chars[i] = chars[i].swapcase()
            else:
                chars.insert(pos, rng.choice(['../', './', '/', '..', '%2e', '%2F']))
        paths.append(prefix + '/' + ''.join(chars))
    return paths


def usable(path):
    # lone surrogates cannot be UTF-8 encoded by the client helpers
    try:
        path.encode('utf-8')
    except UnicodeEncodeError:
        return False
    return True


def run_path_checks():
    rng = random.Random(0xC16)
    paths = FIXED_PATHS + long_paths() + generated_paths(rng, 1100, 700)
    paths = [p for p in paths if usable(p)]
    for i, p in enumerate(paths):
        # every path over WSGI; every third also over ASGI (slower client)
        encoder = ENCODERS[i % len(ENCODERS)]
        if len(p) > 2000 and encoder is enc_all:
            encoder = enc_full
        check_path_request('wsgi', p, encoder)
        if i % 3 == 0 or i < len(FIXED_PATHS):
            check_path_request('asgi', p, ENCODERS[(i + 1) % 3])

    # sanity of the model itself on a few hard-coded expectations
    hard = {
        '/static/a.txt': os.path.join(PUBLIC, 'a.txt'),
        '/static/sub/../a.txt': os.path.join(PUBLIC, 'a.txt'),
        '/static/../secret.txt': None,
        '/static/sub/../../secret.txt': None,
        '/static/we..ird.txt': None,
        '/static/over/a.txt': os.path.join(OTHER, 'a.txt'),
        '/lifo/a.txt': os.path.join(PUBLIC, 'a.txt'),
        '/lifo/only-other.css': None,
        '/fb': FB_ABS,
        '/fb/': FB_ABS,
        '/fb/../secret.txt': None,
        '/fb/sub': FB_ABS,
        '/fbrel/nope': os.path.join(PUBLIC, 'index.html'),
        '/static': None,
        '/static/': None,
        '/static/' + './' * 253 + 'a.txt/': os.path.join(PUBLIC, 'a.txt'),  # 512
        '/static/' + './' * 254 + 'a.txt': None,  # 513
    }
    for p, want in hard.items():
        got = model_resolve(p)[1]
        if got != want:
            fail('model self-check %r: %r != %r' % (p, got, want))

    # OPTIONS never opens anything
    for kind in CLIENTS:
        for p in ('/static/a.txt', '/static/../secret.txt', '/fb'):
            result, seen, opened = do_request(kind, p, enc_full, method='OPTIONS')
            count('options')
            if opened:
                fail('OPTIONS %s %s opened %r' % (kind, p, opened))
            if result.status_code != 200 or result.headers.get('Allow') != 'GET':
                fail('OPTIONS %s %s: %s %r' % (kind, p, result.status, result.headers))
            if result.content != b'':
                fail('OPTIONS %s %s: body' % (kind, p))


# ---------------------------------------------------------------------------
# Range checks over HTTP
# ---------------------------------------------------------------------------

SIZED = {
    0: 'empty.bin', 1: 'one.bin', 2: 'two.bin', 5: 'five.bin', 37: 'data.bin',
}


def check_range_response(tag, result, data, expect, route, served, opened):
    size = len(data)
    h = result.headers
    for f in opened:
        f = os.fspath(f)
        if f != route.fallback and not inside(f, route.directory):
            fail('%s: opened %r' % (tag, f))
    if expect[0] == '400':
        if result.status_code != 400:
            fail('%s: expected 400 got %s' % (tag, result.status))
        if data and data in result.content and len(data) > 3:
            fail('%s: 400 carries the file' % tag)
        return
    if expect[0] == '416':
        if result.status_code != 416:
            fail('%s: expected 416 got %s' % (tag, result.status))
        if h.get('Content-Range') != 'bytes */%d' % size:
            fail('%s: 416 Content-Range %r' % (tag, h.get('Content-Range')))
        if len(data) > 3 and data in result.content:
            fail('%s: 416 carries the file' % tag)
        return
    if expect[0] == 'full':
        if result.status_code != 200:
            fail('%s: expected 200 got %s' % (tag, result.status))
            return
        if result.content != data:
            fail('%s: full body mismatch' % tag)
        if h.get('Content-Length') != str(size):
            fail('%s: Content-Length %r' % (tag, h.get('Content-Length')))
        if 'Content-Range' in h:
            fail('%s: unexpected Content-Range %r' % (tag, h.get('Content-Range')))
        check_headers_common(tag, result, route, served)
        return
    _, start, end = expect
    if result.status_code != 206:
        fail('%s: expected 206 got %s' % (tag, result.status))
        return
    want = data[start:end + 1]
    if result.content != want:
        fail('%s: slice %r != %r' % (tag, result.content, want))
    if h.get('Content-Length') != str(len(want)):
        fail('%s: Content-Length %r != %d' % (tag, h.get('Content-Length'), len(want)))
    if h.get('Content-Range') != 'bytes %d-%d/%d' % (start, end, size):
        fail('%s: Content-Range %r' % (tag, h.get('Content-Range')))
    check_headers_common(tag, result, route, served)


def run_range_checks():
    n = 0
    for size, name in SIZED.items():
        data = FILES[name]
        assert len(data) == size
        values = [None]
        bounds = sorted(set(list(range(0, min(size, 6) + 3)) + [size - 1, size, size + 1, size + 2, 36, 40]))
        bounds = [b for b in bounds if b >= 0]
        for first in bounds:
            values.append('bytes=%d-' % first)
            values.append('bytes=-%d' % first)
            for last in bounds:
                values.append('bytes=%d-%d' % (first, last))
        values.extend(['items=0-1', 'bytes=0-0,1-1', 'bytes', 'bytes=', 'bytes=-', 'bytes=a-'])
        for i, value in enumerate(values):
            headers = None if value is None else {'Range': value}
            expect = model_range(value, size)
            for kind in ('wsgi', 'asgi'):
                if kind == 'asgi' and size == 37 and i % 4:
                    continue
                prefix = ('/static/', '/dl/', '/fb/')[n % 3]
                path = prefix + name
                tag = 'range %s %s %r' % (kind, path, value)
                result, seen, opened = do_request(kind, path, enc_full, headers)
                route, served = model_resolve(seen)
                assert served == os.path.join(PUBLIC, name), (seen, served)
                check_range_response(tag, result, data, expect, route, served, opened)
                count('range/' + kind)
                n += 1

    # odd / malformed values with hard-coded expectations (five.bin, 5 bytes)
    data = FILES['five.bin']
    for value, expect in ODD_RANGES.items():
        for kind in ('wsgi', 'asgi'):
            tag = 'oddrange %s %r' % (kind, value)
            result, seen, opened = do_request(
                kind, '/static/five.bin', enc_full, {'Range': value}
            )
            route, served = model_resolve(seen)
            check_range_response(tag, result, data, expect, route, served, opened)
            count('oddrange/' + kind)
        # same values against the empty file: valid ranges are ignored,
        # malformed ones are still rejected
        expect0 = expect if expect[0] in ('400', 'full') else ('full',)
        result, seen, opened = do_request(
            'wsgi', '/static/empty.bin', enc_full, {'Range': value}
        )
        route, served = model_resolve(seen)
        check_range_response(
            'oddrange0 %r' % value, result, b'', expect0, route, served, opened
        )
        count('oddrange/empty')

    # ranges through the fallback file and on a missing file without fallback
    fb = read_bytes(FB_ABS)
    for value in ('bytes=1-3', 'bytes=-4', 'bytes=5-', 'bytes=%d-' % len(fb), 'bytes=0-999'):
        for kind in ('wsgi', 'asgi'):
            result, seen, opened = do_request(kind, '/fb/missing.bin', enc_full, {'Range': value})
            route, served = model_resolve(seen)
            assert served == FB_ABS
            check_range_response(
                'fbrange %s %r' % (kind, value), result, fb, model_range(value, len(fb)),
                route, served, opened,
            )
            result, seen, opened = do_request(kind, '/static/missing.bin', enc_full, {'Range': value})
            if result.status_code != 404:
                fail('missing+range %s %r: %s' % (kind, value, result.status))
            count('fbrange')


# ---------------------------------------------------------------------------
# Direct checks of _set_range and _BoundedFile
# ---------------------------------------------------------------------------

def drain(stream, pattern, rng):
    out = b''
    guard = 0
    while True:
        guard += 1
        assert guard < 10000
        if pattern == 'all':
            chunk = stream.read()
        elif pattern == 'none':
            chunk = stream.read(None)
        elif pattern == 'neg':
            # raw BufferedReader objects only accept -1 as a negative size
            bounded = isinstance(stream, static_mod._BoundedFile)
            chunk = stream.read(-5 if bounded else -1)
        elif pattern == 'one':
            chunk = stream.read(1)
        elif pattern == 'big':
            chunk = stream.read(1 << 20)
        else:
            size = rng.choice([0, 1, 2, 3, 7, 64, -1, None])
            chunk = stream.read(size)
            if size == 0:
                if chunk != b'':
                    fail('read(0) returned %r' % chunk)
                continue
        if not chunk:
            break
        out += chunk
    # further reads stay empty
    for extra in (stream.read(), stream.read(10), stream.read(None)):
        if extra != b'':
            fail('read after exhaustion returned %r' % extra)
    return out


def run_direct_checks():
    rng = random.Random(16)
    patterns = ['all', 'none', 'neg', 'one', 'big', 'mixed']
    scratch = os.path.join(ROOT, 'scratch.bin')
    for size in list(range(0, 9)) + [37]:
        data = bytes((i * 7 + 3) % 256 for i in range(size))
        with open(scratch, 'wb') as f:
            f.write(data)
        triples = [None]
        lim = size + 3
        for start in range(0, lim):
            triples.append((start, -1))
            for end in range(start, lim):
                triples.append((start, end))
        for n in range(1, lim + 1):
            triples.append((-n, -1))
        triples.append((0, 10 ** 30))
        triples.append((-(10 ** 30), -1))
        triples.append((10 ** 30, -1))
        for k, req_range in enumerate(triples):
            fh = _real_io_open(scratch, 'rb')
            st = os.fstat(fh.fileno())
            # model
            if req_range is None or size == 0:
                want = ('ok', data, None)
            else:
                start, end = req_range
                if start < 0:
                    nn = min(-start, size)
                    want = ('ok', data[size - nn:], (size - nn, size - 1, size))
                elif start >= size:
                    want = ('416',)
                else:
                    e = size - 1 if end == -1 else min(end, size - 1)
                    want = ('ok', data[start:e + 1], (start, e, size))
            count('direct')
            try:
                stream, length, content_range = static_mod._set_range(fh, st, req_range)
            except falcon.HTTPRangeNotSatisfiable as ex:
                if want[0] != '416':
                    fail('direct %d %r: unexpected 416' % (size, req_range))
                elif ex.headers.get('Content-Range') != 'bytes */%d' % size:
                    fail('direct %d %r: 416 headers %r' % (size, req_range, ex.headers))
                if not fh.closed:
                    fail('direct %d %r: handle left open on 416' % (size, req_range))
                continue
            if want[0] == '416':
                fail('direct %d %r: expected 416' % (size, req_range))
                fh.close()
                continue
            got = drain(stream, patterns[k % len(patterns)], rng)
            if got != want[1]:
                fail('direct %d %r: bytes %r != %r' % (size, req_range, got, want[1]))
            if length != len(want[1]):
                fail('direct %d %r: length %r' % (size, req_range, length))
            if content_range != want[2]:
                fail('direct %d %r: content_range %r != %r' % (size, req_range, content_range, want[2]))
            if want[2] is None and stream is not fh:
                fail('direct %d %r: unranged stream is wrapped' % (size, req_range))
            if want[2] is not None and not isinstance(stream, static_mod._BoundedFile):
                fail('direct %d %r: ranged stream is not bounded' % (size, req_range))
            if not isinstance(repr(stream), str):
                fail('repr(stream)')
            stream.close()
            if not fh.closed:
                fail('direct %d %r: close() did not close the file' % (size, req_range))

    # _BoundedFile on its own: window anywhere in the file, never reads past it
    data = bytes(range(50))
    with open(scratch, 'wb') as f:
        f.write(data)
    for offset in range(0, 50, 7):
        for length in (0, 1, 2, 10, 50 - offset, 60):
            for pattern in patterns:
                fh = _real_io_open(scratch, 'rb')
                fh.seek(offset)
                bounded = static_mod._BoundedFile(fh, length)
                got = drain(bounded, pattern, rng)
                if got != data[offset:offset + length]:
                    fail('bounded %d+%d %s: %r' % (offset, length, pattern, got))
                if bounded.remaining != max(0, length - len(got)):
                    fail('bounded remaining %r' % bounded.remaining)
                bounded.close()
                if not fh.closed:
                    fail('bounded close')
                count('bounded')

    # StaticRoute objects: match() truth table and repr() does not blow up
    for cls in (static_mod.StaticRoute, static_mod.StaticRouteAsync):
        for prefix, directory, downloadable, fallback in ROUTE_SPECS:
            sr = cls(prefix, directory, downloadable=downloadable, fallback_filename=fallback)
            if not isinstance(repr(sr), str):
                fail('repr(StaticRoute)')
            mr = ModelRoute(prefix, directory, downloadable, fallback)
            base = mr.prefix[:-1]
            for p in (base, base + '/', base + '/x', base + 'x', base + '//', base[:-1], '', '/',
                      base.upper(), base + '/../x', ' ' + base, base + ' '):
                if bool(sr.match(p)) != mr.match(p):
                    fail('match(%r) for %r: %r' % (p, prefix, sr.match(p)))
                count('match')
    for bad in (('static', PUBLIC), ('/static', 'relative/dir')):
        try:
            static_mod.StaticRoute(*bad)
        except ValueError:
            pass
        else:
            fail('StaticRoute%r accepted' % (bad,))
    for bad_fb in ('nope.html', 'sub', '../nonexistent'):
        try:
            static_mod.StaticRoute('/x', PUBLIC, fallback_filename=bad_fb)
        except ValueError:
            pass
        else:
            fail('fallback %r accepted' % bad_fb)


# ---------------------------------------------------------------------------
# If-Modified-Since
# ---------------------------------------------------------------------------

def run_conditional_checks():
    base = datetime.datetime.fromtimestamp(int(MTIME), datetime.timezone.utc)
    deltas = [-10 ** 8, -86400, -61, -2, -1, 0, 1, 2, 59, 3600, 86400, 10 ** 8]
    cases = []
    for d in deltas:
        when = base + datetime.timedelta(seconds=d)
        cases.append((falcon.dt_to_http(when), '304' if d >= 0 else 'go'))
    cases += [
        (None, 'go'),
        ('', '400'),
        ('yesterday', '400'),
        ('1700000000', '400'),
        (base.strftime('%A, %d-%b-%y %H:%M:%S GMT'), '400'),  # obs-date not enabled
        (base.isoformat(), '400'),
        (falcon.dt_to_http(base).replace('GMT', 'UTC'), '400'),
        (falcon.dt_to_http(base).lower(), None),  # whatever the parser says, see below
    ]
    ranges = [None, 'bytes=1-2', 'bytes=9-', 'bytes=junk', 'items=1-2', 'bytes=-2']
    targets = [
        ('/static/five.bin', os.path.join(PUBLIC, 'five.bin')),
        ('/dl/five.bin', os.path.join(PUBLIC, 'five.bin')),
        ('/fb/nope', FB_ABS),
        ('/static/empty.bin', os.path.join(PUBLIC, 'empty.bin')),
    ]
    for ims, verdict in cases:
        if verdict is None:
            # decide using the framework's own public date parser
            try:
                falcon.http_date_to_dt(ims)
                verdict = '304'
            except ValueError:
                verdict = '400'
        for rng_value in ranges:
            for path, served_expected in targets:
                for kind in ('wsgi', 'asgi'):
                    headers = {}
                    if ims is not None:
                        headers['If-Modified-Since'] = ims
                    if rng_value is not None:
                        headers['Range'] = rng_value
                    tag = 'ims %s %s %r %r' % (kind, path, ims, rng_value)
                    result, seen, opened = do_request(kind, path, enc_full, headers)
                    route, served = model_resolve(seen)
                    assert served == served_expected
                    data = read_bytes(served)
                    count('ims/' + kind)
                    for f in opened:
                        f = os.fspath(f)
                        if f != route.fallback and not inside(f, route.directory):
                            fail('%s: opened %r' % (tag, f))
                    if verdict == '304':
                        if result.status_code != 304:
                            fail('%s: expected 304 got %s' % (tag, result.status))
                        if result.content != b'':
                            fail('%s: 304 with a body %r' % (tag, result.content))
                        if result.headers.get('Last-Modified') != EXPECTED_LAST_MODIFIED:
                            fail('%s: 304 Last-Modified %r' % (tag, result.headers.get('Last-Modified')))
                        if 'Content-Range' in result.headers:
                            fail('%s: 304 with Content-Range' % tag)
                    elif verdict == '400':
                        if result.status_code != 400:
                            fail('%s: expected 400 got %s' % (tag, result.status))
                        if len(data) > 3 and data in result.content:
                            fail('%s: 400 carries the file' % tag)
                        # NOTE: Last-Modified is set before the header is parsed
                        if result.headers.get('Last-Modified') != EXPECTED_LAST_MODIFIED:
                            fail('%s: 400 Last-Modified %r' % (tag, result.headers.get('Last-Modified')))
                    else:
                        check_range_response(
                            tag, result, data, model_range(rng_value, len(data)),
                            route, served, opened,
                        )


def main():
    try:
        run_direct_checks()
        run_path_checks()
        run_range_checks()
        run_conditional_checks()
    except SystemExit:
        raise
    except BaseException:
        import traceback

        traceback.print_exc()
        fail('unexpected exception (see traceback above)')
    finally:
        io.open = _real_io_open
        shutil.rmtree(ROOT, ignore_errors=True)
    total = sum(COUNTS.values())
    if total < 1000:
        fail('too few cases executed: %d' % total)
    finish()


if __name__ == '__main__':
    main()
