"""Property C17 check: WebSocket sessions follow the ASGI state machine.

Self-contained.  Run as:  PYTHONPATH=<tree> /venv/bin/python check.py

The program drives ``falcon.asgi.App`` directly through its ASGI callable
with a hand-written protocol server (NOT falcon's own testing simulator) and
compares, for several thousand generated (responder script, client script,
send-failure point, spec version, queue size, middleware, error handler)
combinations:

  * the outcome (return value / exception class / code / message) of every
    single WebSocket operation against an independent reference model of the
    documented state machine, executed in lock-step with the responder;
  * the complete stream of events handed to the server's ``send()`` against
    the stream predicted by the model;
  * generic legality invariants of the ASGI WebSocket session that do not
    depend on the model at all.

Prints PASS and exits 0 when everything agrees.
"""

import asyncio
import collections
import json
import logging
import random
import sys

import falcon
import falcon.asgi
from falcon import errors
from falcon import WebSocketPayloadType
import falcon.asgi.ws as ws_mod
import falcon.media

logging.getLogger('falcon').setLevel(logging.CRITICAL + 10)
logging.getLogger('falcon').propagate = False
logging.getLogger('falcon').addHandler(logging.NullHandler())

FOCUS = 'pump'

TEXT = WebSocketPayloadType.TEXT
BINARY = WebSocketPayloadType.BINARY

VERSIONS = ('2.0', '2.1', '2.2', '2.3', '2.4')


# ---------------------------------------------------------------------------
# Media handlers (msgpack is not necessarily installed): own BINARY handler
# ---------------------------------------------------------------------------
class BinJSONHandlerWS(falcon.media.BinaryBaseHandlerWS):
    def serialize(self, media):
        return b'\x00J' + json.dumps(media, sort_keys=True).encode('utf-8')

    def deserialize(self, payload):
        assert bytes(payload[:2]) == b'\x00J'
        return json.loads(bytes(payload[2:]).decode('utf-8'))


# ---------------------------------------------------------------------------
# Failure kinds for the server's send()
# ---------------------------------------------------------------------------
class ServerSpecificDisconnect(OSError):
    pass


def make_send_failure(kind):
    if kind == 'ok1000':
        return Exception('sent 1000 (OK); then received code = 1000 (OK), no reason')
    if kind == 'proto':
        return Exception('xx protocol accepted must be from the list yy')
    if kind == 'oserror':
        return OSError()
    if kind == 'oserror_sub':
        return ServerSpecificDisconnect('gone')
    if kind == 'connreset':
        return ConnectionResetError('reset by peer')
    if kind == 'oserror_cause':
        ex = OSError('wrapped')
        ex.__cause__ = Exception('received 1001 (going away); then sent 1001 (going away)')
        return ex
    if kind == 'oserror_cause4':
        ex = ServerSpecificDisconnect('wrapped')
        ex.__cause__ = Exception('received 4321 (private use) bye')
        return ex
    if kind == 'oserror_cause_nomatch':
        ex = OSError('wrapped')
        ex.__cause__ = Exception('has received 1001; no match at the start')
        return ex
    if kind == 'oserror_cause_3digits':
        ex = OSError('wrapped')
        ex.__cause__ = Exception('received 999 nothing')
        return ex
    if kind == 'runtime':
        return RuntimeError('boom in server send')
    if kind == 'typeerror':
        return TypeError('server does not like this event')
    raise AssertionError(kind)


FAIL_KINDS = (
    'ok1000',
    'proto',
    'oserror',
    'oserror_sub',
    'connreset',
    'oserror_cause',
    'oserror_cause4',
    'oserror_cause_nomatch',
    'oserror_cause_3digits',
    'runtime',
    'typeerror',
)


def model_translate(ex):
    """Reference model of the documented server error translation."""
    s = str(ex)
    if 'code = 1000 (OK)' in s:
        return errors.WebSocketDisconnected(1000)
    if 'protocol accepted must be from the list' in s:
        return ValueError(
            'WebSocket subprotocol must be from the list sent by the client'
        )
    if isinstance(ex, OSError):
        code = None
        cause = ex.__cause__
        if cause:
            cs = str(cause)
            if (
                cs.startswith('received ')
                and len(cs) >= 13
                and cs[9:13].isdigit()
                and cs[9:13].isascii()
            ):
                code = int(cs[9:13])
        return errors.WebSocketDisconnected(code)
    return None


# ---------------------------------------------------------------------------
# The protocol server
# ---------------------------------------------------------------------------
class Server:
    def __init__(self, client_events, fail_at, fail_kind, first_event=None):
        self.client = collections.deque(client_events)
        self.fail_at = fail_at
        self.fail_kind = fail_kind
        self.sent = []  # (event copy, delivered?, disconnect_delivered_before)
        self.send_calls = 0
        self.connect_sent = False
        self.disconnect_delivered = False
        self.first_event = first_event or {'type': 'websocket.connect'}
        self.receive_after_disconnect = 0

    async def receive(self):
        if not self.connect_sent:
            self.connect_sent = True
            return dict(self.first_event)
        if self.disconnect_delivered:
            self.receive_after_disconnect += 1
        if self.client and not self.disconnect_delivered:
            ev = self.client.popleft()
            if ev['type'] == 'websocket.disconnect':
                self.disconnect_delivered = True
            return dict(ev)
        await asyncio.get_running_loop().create_future()  # blocks until cancelled
        raise AssertionError('unreachable')

    async def send(self, event):
        idx = self.send_calls
        self.send_calls += 1
        copy = dict(event)
        if idx == self.fail_at:
            self.sent.append((copy, False, self.disconnect_delivered))
            raise make_send_failure(self.fail_kind)
        self.sent.append((copy, True, self.disconnect_delivered))


# ---------------------------------------------------------------------------
# Reference model
# ---------------------------------------------------------------------------
H, A, C = 'HANDSHAKE', 'ACCEPTED', 'CLOSED'


class Model:
    def __init__(self, cfg, server, close_reasons):
        self.cfg = cfg
        self.server = server
        self.ver = cfg['ver']
        self.q = cfg['queue']
        self.state = H
        self.close_code = None
        self.pump_running = False
        self.pump_ever_started = False
        self.client = collections.deque(cfg['client'])  # not yet seen by the app
        self.sent = []
        self.n_send = 0
        self.reasons = close_reasons
        self.supports_reason = tuple(int(p) for p in self.ver.split('.')) >= (2, 3)

    # -- helpers --
    def flag(self):
        # the buffered receiver's client_disconnected flag
        return self.q > 0 and self.server.disconnect_delivered

    def flag_code(self):
        for ev in self.cfg['client']:
            if ev['type'] == 'websocket.disconnect':
                return ev.get('code', 1000)
        raise AssertionError

    def closed(self):
        return self.state == C or self.flag()

    def server_send(self, event):
        idx = self.n_send
        self.n_send += 1
        if idx == self.cfg['fail_at']:
            self.sent.append((event, False))
            raise make_send_failure(self.cfg['fail_kind'])
        self.sent.append((event, True))

    def guarded_send(self, event):
        if self.flag():
            self.state = C
            self.close_code = self.flag_code()
        if self.state == C:
            raise errors.WebSocketDisconnected(self.close_code)
        try:
            self.server_send(event)
        except Exception as ex:
            tr = model_translate(ex)
            if tr is not None:
                self.state = C
                if isinstance(tr, errors.WebSocketDisconnected):
                    self.close_code = tr.code
                raise tr
            raise

    def require_accepted(self):
        if self.state == H:
            raise errors.OperationNotAllowed(
                'WebSocket connection has not yet been accepted'
            )
        if self.state == C:
            raise errors.WebSocketDisconnected(self.close_code)

    # -- operations --
    def accept(self, subprotocol=None, headers=None):
        if self.closed():
            raise errors.OperationNotAllowed(
                'accept() may not be called on a closed WebSocket connection'
            )
        if self.state != H:
            raise errors.OperationNotAllowed(
                'accept() may only be called once on an open WebSocket connection'
            )
        event = {'type': 'websocket.accept'}
        if subprotocol is not None:
            if not isinstance(subprotocol, str):
                raise ValueError('WebSocket subprotocol must be a string')
            event['subprotocol'] = subprotocol
        if headers:
            if self.ver == '2.0':
                raise errors.OperationNotAllowed(
                    'The ASGI server that is running this app '
                    'does not support accept headers.'
                )
            items = headers.items() if hasattr(headers, 'items') else headers
            parsed = []
            for name, value in items:
                parsed.append((name.lower().encode('ascii'), value.encode('ascii')))
            event['headers'] = parsed
            if any(n == b'sec-websocket-protocol' for n, _ in parsed):
                raise ValueError(
                    'Per the ASGI spec, the headers iterable must not '
                    'contain "sec-websocket-protocol". Instead, the '
                    'subprotocol argument can be used to indicate the '
                    'accepted protocol.'
                )
        self.guarded_send(event)
        self.state = A
        if self.q > 0:
            self.pump_running = True
            self.pump_ever_started = True

    def close(self, code=None, reason=None):
        self.pump_running = False
        if code is None:
            code = 1000
        elif not isinstance(code, int):
            raise ValueError('code must be an int')
        elif code < 1000:
            raise ValueError('Invalid close code. The value must be >= 1000')
        elif code in (1004, 1005, 1006) or 1015 <= code <= 1999:
            raise ValueError('Invalid close code. Only unreserved codes may be used.')
        if self.closed():
            return
        event = {'type': 'websocket.close', 'code': code}
        reason = reason or self.reasons.get(code)
        if reason and self.supports_reason:
            event['reason'] = reason
        self.server_send(event)
        self.state = C
        self.close_code = code

    def send_text(self, payload):
        self.require_accepted()
        if not isinstance(payload, str):
            raise TypeError('payload must be a string')
        self.guarded_send({'type': 'websocket.send', 'text': payload})

    def send_data(self, payload):
        self.require_accepted()
        if not isinstance(payload, (bytes, bytearray, memoryview)):
            raise TypeError('payload must be a byte string')
        self.guarded_send({'type': 'websocket.send', 'bytes': bytes(payload)})

    def send_media(self, media, payload_type=TEXT):
        self.require_accepted()
        if payload_type is TEXT:
            self.guarded_send(
                {
                    'type': 'websocket.send',
                    'text': json.dumps(media, ensure_ascii=False),
                }
            )
        else:
            self.guarded_send(
                {
                    'type': 'websocket.send',
                    'bytes': b'\x00J' + json.dumps(media, sort_keys=True).encode(),
                }
            )

    def can_receive(self):
        """Would a receive_*() call terminate, and is it well-defined?"""
        if self.state != A:
            return True  # fails in the guard, never touches the server
        if self.q > 0 and not self.pump_running:
            return False  # framework-internal assertion; out of scope
        return bool(self.client)

    def _receive(self):
        ev = self.client.popleft()
        if ev['type'] == 'websocket.disconnect':
            self.state = C
            self.close_code = ev.get('code', 1000)
            raise errors.WebSocketDisconnected(self.close_code)
        return ev

    def receive_text(self):
        self.require_accepted()
        ev = self._receive()
        if ev.get('text') is None:
            raise errors.PayloadTypeError('Missing TEXT (0x01) payload')
        return ev['text']

    def receive_data(self):
        self.require_accepted()
        ev = self._receive()
        if ev.get('bytes') is None:
            raise errors.PayloadTypeError('Missing BINARY (0x02) payload')
        return ev['bytes']

    def receive_media(self):
        self.require_accepted()
        ev = self._receive()
        if ev.get('text') is not None:
            return json.loads(ev['text'])
        if ev.get('bytes') is None:
            raise errors.PayloadTypeError(
                'Message did not contain either a TEXT (0x01) or BINARY (0x02) payload'
            )
        return json.loads(bytes(ev['bytes'][2:]).decode())


def sig(ex):
    """Comparable signature of an exception."""
    if ex is None:
        return None
    code = getattr(ex, 'code', None) if isinstance(ex, errors.WebSocketDisconnected) else None
    status = getattr(ex, 'status', None) if isinstance(ex, falcon.HTTPError) else None
    return (type(ex).__name__, code, status, str(ex))


STATS = collections.Counter()


class Mismatch(BaseException):
    pass


class CustomError(Exception):
    pass


class CustomErrorNoWS(Exception):
    pass


class CustomErrorRaises(Exception):
    pass


class CustomErrorStatus(Exception):
    pass


# ---------------------------------------------------------------------------
# Lock-step execution of one operation against the real object and the model
# ---------------------------------------------------------------------------
async def lockstep(name, args, ws, model, log):
    """Run op on model then on ws; compare.  Returns the raised exception or None."""
    if name.startswith('receive') and not model.can_receive():
        log.append((name, 'skipped'))
        return None
    if name == 'yield':
        for _ in range(args[0]):
            await asyncio.sleep(0)
        return None
    if name == 'repr':
        text = repr(ws)
        if type(text) is not str or not text:
            raise Mismatch('repr(ws) is not a non-empty str')
        if 'state=' in text:
            # optional diagnostic representation: must agree with the model
            flag = model.flag()
            exp_state = model.state
            if 'state=%s ' % exp_state not in text and 'state=%s>' % exp_state not in text:
                raise Mismatch('repr %r disagrees with model state %s' % (text, exp_state))
            if 'close_code=%r' % (model.close_code,) not in text:
                raise Mismatch('repr %r disagrees with close code %r' % (text, model.close_code))
            if 'client_disconnected=' in text and 'client_disconnected=%r>' % flag not in text:
                raise Mismatch('repr %r disagrees with disconnect flag %r' % (text, flag))
        STATS[('repr', 'ok')] += 1
        log.append(('repr', 'ok'))
        return None
    if name == 'props':
        exp = (
            model.state == H,
            model.closed(),
            model.state == A and not model.flag(),
            model.ver != '2.0',
        )
        got = (ws.unaccepted, ws.closed, ws.ready, ws.supports_accept_headers)
        if exp != got:
            raise Mismatch('props: expected %r got %r (log %r)' % (exp, got, log))
        return None

    # NOTE: the model is evaluated first, synchronously, and the real
    #   operation is started without yielding to the loop in between, so
    #   that both observe the same "disconnect delivered" fact.
    m_ex = m_ret = None
    try:
        m_ret = getattr(model, name)(*args)
    except Exception as ex:
        m_ex = ex

    r_ex = r_ret = None
    try:
        r_ret = await getattr(ws, name)(*args)
    except Exception as ex:
        r_ex = ex

    log.append((name, args, sig(r_ex), r_ret))
    STATS[(name, type(r_ex).__name__ if r_ex else 'ok')] += 1
    if sig(m_ex) != sig(r_ex):
        raise Mismatch(
            'op %s%r: expected exc %r got %r (log %r)' % (name, args, sig(m_ex), sig(r_ex), log)
        )
    if m_ex is None:
        if m_ret != r_ret or type(m_ret) is not type(r_ret):
            raise Mismatch(
                'op %s%r: expected ret %r got %r (log %r)' % (name, args, m_ret, r_ret, log)
            )
    if m_ex is not None and r_ex is not None:
        # same kind of chaining for translated errors
        if (m_ex.__class__ is not r_ex.__class__):
            raise Mismatch('class identity')
    return r_ex


RAISABLE = {
    'http404': lambda: falcon.HTTPNotFound(),
    'http400': lambda: falcon.HTTPBadRequest(title='x', description='y'),
    'http503': lambda: falcon.HTTPServiceUnavailable(),
    'http599': lambda: falcon.HTTPError(599),
    'status204': lambda: falcon.HTTPStatus(falcon.HTTP_204),
    'status200': lambda: falcon.HTTPStatus(200),
    'status734': lambda: falcon.HTTPStatus('734 Custom'),
    'runtime': lambda: RuntimeError('responder failed'),
    'valueerror': lambda: ValueError('responder value'),
    'wsd': lambda: errors.WebSocketDisconnected(4002),
    'ona': lambda: errors.OperationNotAllowed('nope'),
    'custom': lambda: CustomError('c'),
    'custom_nows': lambda: CustomErrorNoWS('c'),
    'custom_raises': lambda: CustomErrorRaises('c'),
    'custom_status': lambda: CustomErrorStatus('c'),
}


class RecordingApp(falcon.asgi.App):
    """Records (only records) which exception the session handler got to see."""

    async def _handle_exception(self, req, resp, ex, params, ws=None):
        self.recorded.setdefault('first_exc', ex)
        return await super()._handle_exception(req, resp, ex, params, ws=ws)


class Scenario:
    """One complete conversation."""

    def __init__(self, cfg):
        self.cfg = cfg
        self.log = []
        self.model = None
        self.responder_entered = False
        self.escape_exc = None  # first exception escaping mw / responder
        self.handler_escape = None  # exception escaping the custom handler
        self.noclose_handler_used = False

    async def run_script(self, script, ws, is_handler=False):
        """Execute ops; propagate according to each op's 'propagate' flag."""
        try:
            for name, args, propagate in script:
                if name == 'raise':
                    raise RAISABLE[args[0]]()
                if name == 'return':
                    return
                ex = await lockstep(name, args, ws, self.model, self.log)
                if ex is not None and propagate:
                    raise ex
        except Mismatch:
            raise
        except Exception as ex:
            if is_handler:
                self.handler_escape = ex
            elif self.escape_exc is None:
                self.escape_exc = ex
            raise

    def build_app(self):
        cfg = self.cfg
        scenario = self

        class Resource:
            async def on_websocket(self, req, ws, **params):
                scenario.responder_entered = True
                await scenario.run_script(cfg['script'], ws)

        class NoResponder:
            async def on_get(self, req, resp):
                pass

        class Middleware:
            async def process_request_ws(self, req, ws):
                await scenario.run_script(cfg['mw_request'], ws)

            async def process_resource_ws(self, req, ws, resource, params):
                await scenario.run_script(cfg['mw_resource'], ws)

        middleware = [Middleware()] if cfg['middleware'] else []
        app = RecordingApp(middleware=middleware)
        app.recorded = {}
        app.add_route('/ws', Resource())
        app.add_route('/ws/{name}', Resource())
        app.add_route('/noresp', NoResponder())
        app.ws_options.max_receive_queue = cfg['queue']
        app.ws_options.media_handlers[BINARY] = BinJSONHandlerWS()
        if cfg['error_close_code'] != 'default':
            app.ws_options.error_close_code = cfg['error_close_code']
        for code, reason in cfg['extra_reasons'].items():
            if reason is None:
                app.ws_options.default_close_reasons.pop(code, None)
            else:
                app.ws_options.default_close_reasons[code] = reason

        if cfg['handlers']:

            async def handle_custom(req, resp, ex, params, ws=None):
                assert resp is None and ws is not None
                await scenario.run_script(cfg['handler_script'], ws, is_handler=True)

            async def handle_custom_nows(req, resp, ex, params):
                assert resp is None

            async def handle_custom_raises(req, resp, ex, params, ws=None):
                assert ws is not None
                raise falcon.HTTPConflict()

            async def handle_custom_status(req, resp, ex, params, ws=None):
                assert ws is not None
                raise falcon.HTTPStatus(falcon.HTTP_202)

            app.add_error_handler(CustomError, handle_custom)
            app.add_error_handler(CustomErrorNoWS, handle_custom_nows)
            app.add_error_handler(CustomErrorRaises, handle_custom_raises)
            app.add_error_handler(CustomErrorStatus, handle_custom_status)
        return app

    # ------------- reference model of the framework's session handling ------
    def model_cleanup_on_error(self):
        m = self.model
        code = self.cfg['error_close_code']
        if code == 'default':
            code = 1011
        try:
            m.close(code)
        except Exception as ex:
            if 'invalid close code' in str(ex).lower():
                m.close(3011)
            else:
                raise

    def model_handle_exception(self, ex):
        """Returns the exception escaping the app (or None)."""
        m = self.model
        custom = self.cfg['handlers']
        try:
            try:
                if custom and isinstance(ex, CustomError):
                    # The handler script has been executed in lock-step
                    # already; only an escaping exception is left to model.
                    self.noclose_handler_used = True
                    if self.handler_escape is not None:
                        raise self.handler_escape
                elif custom and isinstance(ex, CustomErrorNoWS):
                    self.noclose_handler_used = True
                elif custom and isinstance(ex, CustomErrorRaises):
                    raise falcon.HTTPConflict()
                elif custom and isinstance(ex, CustomErrorStatus):
                    raise falcon.HTTPStatus(falcon.HTTP_202)
                elif isinstance(ex, falcon.HTTPError):
                    m.close(3000 + ex.status_code)
                elif isinstance(ex, falcon.HTTPStatus):
                    m.close(3000 + ex.status_code)
                else:
                    # WebSocketDisconnected and any other Exception
                    self.model_cleanup_on_error()
            except falcon.HTTPStatus as st:
                m.close(3000 + st.status_code)
            except falcon.HTTPError as err:
                m.close(3000 + err.status_code)
        except Exception as escaped:
            return escaped
        return None

    def model_tail(self, seen_exc):
        cfg = self.cfg
        m = self.model
        path = cfg['path']
        routed = path == '/ws' or (path.startswith('/ws/') and path.count('/') == 2)

        exc = None
        if self.escape_exc is not None:
            exc = self.escape_exc
        elif not routed and path != '/noresp':
            if self.responder_entered:
                raise Mismatch('responder entered for an unrouted path')
            if type(seen_exc) is not falcon.HTTPRouteNotFound:
                raise Mismatch('expected HTTPRouteNotFound, saw %r' % (seen_exc,))
            if seen_exc.status_code != 404:
                raise Mismatch('HTTPRouteNotFound status')
            exc = seen_exc
        elif path == '/noresp':
            if type(seen_exc) is not falcon.HTTPMethodNotAllowed:
                raise Mismatch('expected HTTPMethodNotAllowed, saw %r' % (seen_exc,))
            if seen_exc.status_code != 405:
                raise Mismatch('HTTPMethodNotAllowed status')
            exc = seen_exc
        else:
            if not self.responder_entered:
                raise Mismatch('responder not entered for a routed path')
            try:
                m.close()
            except Exception as ex:
                exc = ex
        if sig(exc) != sig(seen_exc):
            raise Mismatch(
                'framework handled %r, expected %r (cfg %r log %r)'
                % (sig(seen_exc), sig(exc), cfg, self.log)
            )
        if exc is None:
            return None
        return self.model_handle_exception(exc)

    # -------------------------------------------------------------------------
    async def run(self):
        cfg = self.cfg
        first_event = cfg.get('first_event')
        server = Server(cfg['client'], cfg['fail_at'], cfg['fail_kind'], first_event)
        self.server = server
        app = self.build_app()
        self.model = Model(cfg, server, dict(app.ws_options.default_close_reasons))

        scope = {
            'type': 'websocket',
            'asgi': {'version': '3.0', 'spec_version': cfg['ver']},
            'http_version': '1.1',
            'scheme': 'ws',
            'path': cfg['path'],
            'raw_path': cfg['path'].encode(),
            'query_string': b'',
            'root_path': '',
            'headers': [(b'host', b'example.com')],
            'client': ('127.0.0.1', 5000),
            'server': ('127.0.0.1', 80),
            'subprotocols': list(cfg['subprotocols']),
        }

        recorded = app.recorded

        app_exc = None
        try:
            await asyncio.wait_for(app(scope, server.receive, server.send), 20)
        except Mismatch:
            raise
        except asyncio.TimeoutError:
            raise Mismatch('timeout/hang for cfg %r (log %r)' % (cfg, self.log))
        except Exception as ex:
            app_exc = ex

        # ---- model the tail ----
        if first_event is not None and first_event['type'] != 'websocket.connect':
            ev = {'type': 'websocket.close', 'code': 1011}
            if self.model.supports_reason:
                ev['reason'] = 'Internal Server Error'
            try:
                self.model.server_send(ev)
                exp_exc = None
            except Exception as ex:
                exp_exc = ex
        else:
            exp_exc = self.model_tail(recorded.get('first_exc'))

        # ---- compare event streams ----
        got = [(ev, ok) for ev, ok, _ in server.sent]
        exp = self.model.sent
        if got != exp:
            raise Mismatch(
                'event stream differs for cfg %r:\n expected %r\n got      %r\n log %r'
                % (cfg, exp, got, self.log)
            )
        for (gev, _), (eev, _) in zip(got, exp):
            for k in gev:
                if type(gev[k]) is not type(eev[k]):
                    raise Mismatch('event value type differs: %r vs %r' % (gev, eev))
        if sig(exp_exc) != sig(app_exc):
            raise Mismatch(
                'escaping exception differs for cfg %r: expected %r got %r (log %r)'
                % (cfg, sig(exp_exc), sig(app_exc), self.log)
            )
        self.check_legality(app_exc)
        self.check_payload_integrity()

        # cleanup any pump task left running (custom handler that does not close)
        leftovers = [
            t for t in asyncio.all_tasks() if t is not asyncio.current_task() and not t.done()
        ]
        for t in leftovers:
            t.cancel()
        for t in leftovers:
            try:
                await t
            except (asyncio.CancelledError, Exception):
                pass
        return len(leftovers)

    # ---------------- model-independent legality invariants -----------------
    def check_legality(self, app_exc):
        cfg = self.cfg
        sent = self.server.sent
        accepts = [i for i, (ev, ok, _) in enumerate(sent) if ev['type'] == 'websocket.accept']
        closes = [i for i, (ev, ok, _) in enumerate(sent) if ev['type'] == 'websocket.close']
        ok_accepts = [i for i in accepts if sent[i][1]]
        ok_closes = [i for i in closes if sent[i][1]]

        def bad(msg):
            raise Mismatch('ILLEGAL SESSION (%s) cfg %r sent %r log %r' % (msg, cfg, sent, self.log))

        for ev, ok, _ in sent:
            if ev['type'] not in ('websocket.accept', 'websocket.send', 'websocket.close'):
                bad('unknown event type')
        if len(ok_accepts) > 1:
            bad('more than one accept')
        if len(ok_closes) > 1:
            bad('more than one close')
        # an accept attempt is only ever the very first event
        # NOTE: a close attempt whose send() raised leaves the handshake open.
        for i in accepts:
            if any(ok for _, ok, _ in sent[:i]):
                bad('accept is not the first delivered event')
        for i, (ev, ok, _) in enumerate(sent):
            if ev['type'] == 'websocket.send':
                if not ok_accepts or i < ok_accepts[0]:
                    bad('data before accept')
                if ok_closes and i > ok_closes[0]:
                    bad('data after close')
                if ('text' in ev) == ('bytes' in ev):
                    bad('send must have exactly one of text/bytes')
                if 'text' in ev and type(ev['text']) is not str:
                    bad('text payload type')
                if 'bytes' in ev and type(ev['bytes']) is not bytes:
                    bad('bytes payload type')
        if ok_closes and ok_closes[0] != len(sent) - 1:
            bad('event after close')
        # nothing after the client's disconnect has been delivered
        for ev, ok, after_disc in sent:
            if after_disc:
                bad('event sent after the disconnect was delivered')
        # nothing after a send raised an OSError-type (connection lost) error on
        # accept/send
        for i, (ev, ok, _) in enumerate(sent):
            if not ok and ev['type'] != 'websocket.close':
                kind = cfg['fail_kind']
                if kind not in ('runtime', 'typeerror') and i != len(sent) - 1:
                    bad('event after the connection was reported lost')
        # close code and reason validity
        for i in closes:
            ev = sent[i][0]
            code = ev['code']
            if type(code) is not int or code < 1000 or code in (1004, 1005, 1006) or 1015 <= code <= 1999:
                bad('invalid close code on the wire')
            if 'reason' in ev:
                if cfg['ver'] in ('2.0', '2.1', '2.2'):
                    bad('reason sent to a server that does not support it')
                if not isinstance(ev['reason'], str) or not ev['reason']:
                    bad('empty/non-str reason')
            if set(ev) - {'type', 'code', 'reason'}:
                bad('unexpected keys in close')
        for i in accepts:
            ev = sent[i][0]
            if 'headers' in ev:
                if cfg['ver'] == '2.0':
                    bad('accept headers sent to 2.0 server')
                for n, v in ev['headers']:
                    if type(n) is not bytes or type(v) is not bytes or n != n.lower():
                        bad('bad accept header encoding')
                    if n == b'sec-websocket-protocol':
                        bad('sec-websocket-protocol in headers')
            if 'subprotocol' in ev and type(ev['subprotocol']) is not str:
                bad('subprotocol type')
        # a close (or 403 denial) is always sent when the session ends while the
        # client is still connected, no send failed, and the error handling is
        # the framework's own.
        no_failure = all(ok for _, ok, _ in sent)
        if (
            not self.server.disconnect_delivered
            and no_failure
            and app_exc is None
            and not self.noclose_handler_used
        ):
            if len(ok_closes) != 1:
                bad('session ended without a close')
        if self.server.receive_after_disconnect:
            bad('receive() called after disconnect was delivered')

    def check_payload_integrity(self):
        """Payloads sent by the script arrive unchanged and in order."""
        exp = []
        for entry in self.log:
            if len(entry) != 4:
                continue
            name, args, exc, ret = entry
            if exc is not None:
                continue
            if name == 'send_text':
                exp.append(('text', args[0]))
            elif name == 'send_data':
                exp.append(('bytes', bytes(args[0])))
            elif name == 'send_media':
                pt = args[1] if len(args) > 1 else TEXT
                exp.append(('media_text' if pt is TEXT else 'media_bin', args[0]))
        got = []
        for ev, ok, _ in self.server.sent:
            if ev['type'] == 'websocket.send' and ok:
                got.append(ev)
        if len(got) != len(exp):
            raise Mismatch('payload count: %r vs %r' % (got, exp))
        for ev, (kind, val) in zip(got, exp):
            if kind == 'text':
                good = ev.get('text') == val and 'bytes' not in ev
            elif kind == 'bytes':
                good = ev.get('bytes') == val and 'text' not in ev
            elif kind == 'media_text':
                good = 'bytes' not in ev and json.loads(ev['text']) == val
            else:
                good = 'text' not in ev and json.loads(ev['bytes'][2:].decode()) == val
            if not good:
                raise Mismatch('payload changed: %r vs %r' % (ev, (kind, val)))
        # received payloads: in order, unchanged
        client_msgs = [e for e in self.cfg['client'] if e['type'] == 'websocket.receive']
        k = 0
        for entry in self.log:
            if len(entry) != 4:
                continue
            name, args, exc, ret = entry
            if not name.startswith('receive'):
                continue
            if exc is not None and exc[0] != 'PayloadTypeError':
                continue
            if k >= len(client_msgs):
                raise Mismatch('received more messages than the client sent')
            msg = client_msgs[k]
            k += 1
            if exc is not None:
                continue
            if name == 'receive_text' and ret != msg.get('text'):
                raise Mismatch('receive_text order/content')
            if name == 'receive_data' and ret != msg.get('bytes'):
                raise Mismatch('receive_data order/content')
            if name == 'receive_media':
                if msg.get('text') is not None:
                    if ret != json.loads(msg['text']):
                        raise Mismatch('receive_media text')
                elif ret != json.loads(bytes(msg['bytes'][2:]).decode()):
                    raise Mismatch('receive_media bytes')



# ---------------------------------------------------------------------------
# Generators
# ---------------------------------------------------------------------------
TEXTS = ['', 'hello', 'h\u00e9llo \u4e16\u754c', '{"a": 1}', ' ', '\x00', 'A' * 300]
DATAS = [b'', b'\x00\x01\x02', bytearray(b'ba'), memoryview(b'mv-data'), b'\xff' * 64]
MEDIAS = [None, 0, 1.5, 'str', [], {}, {'a': [1, 2, {'b': None}]}, [True, False], 'h\u00e9']
UNSERIALIZABLE = [{1, 2}, object, b'bytes', {'k': {3}}]
BAD_TEXT = [b'bytes', None, 1, bytearray(b'x'), ['x']]
BAD_DATA = ['str', None, 1, [1, 2], 1.5]
CLOSE_CODES = [
    None, 1000, 1001, 1002, 1003, 1007, 1011, 1012, 1013, 1014, 2000, 2999, 3000, 3404,
    3999, 4000, 4999, 5000, 65535,
    0, -1, 999, 1004, 1005, 1006, 1015, 1016, 1500, 1999, True, False,
    '1000', 1000.0, b'1000', (1000,),
]
REASONS = [None, '', 'bye', 'r\u00e9ason']
SUBPROTOS = [None, None, 'p1', '', 'amqp', 7, b'p1']
HEADERS = [
    None, None, [], {}, (),
    [('X-Custom', 'v1')],
    {'X-Custom': 'v1', 'Set-Cookie': 'a=b'},
    [('X-A', '1'), ('x-a', '2')],
    [('Sec-WebSocket-Protocol', 'p1')],
    [('X-A', '1'), ('SEC-WEBSOCKET-PROTOCOL', 'p1')],
    {'sec-websocket-protocol': 'x'},
    [('X-Bad', 'caf\u00e9')],
    [('X-B\u00e4d', 'v')],
    (('a', 'b'),),
    [['List-Pair', 'ok']],
]


def gen_client(rng):
    n = rng.choice([0, 0, 1, 2, 3, 5, 8])
    events = []
    for _ in range(n):
        k = rng.random()
        if k < 0.35:
            events.append({'type': 'websocket.receive', 'text': rng.choice(TEXTS + ['{"k": [1, 2]}', '[]', 'null', '7'])})
        elif k < 0.6:
            events.append({'type': 'websocket.receive', 'bytes': rng.choice([b'', b'abc', b'\x00Jnull', b'\x00J{"z": 1}', b'\x00J[1, 2]'])})
        elif k < 0.7:
            events.append({'type': 'websocket.receive', 'text': rng.choice(['null', '{"t": 1}']), 'bytes': None})
        elif k < 0.8:
            events.append({'type': 'websocket.receive', 'bytes': rng.choice([b'\x00J1', b'\x00J"s"']), 'text': None})
        elif k < 0.85:
            events.append({'type': 'websocket.receive'})
        else:
            events.append({'type': 'websocket.receive', 'text': None, 'bytes': None})
    d = rng.random()
    if d < 0.5:
        ev = {'type': 'websocket.disconnect'}
        c = rng.choice([None, 1000, 1001, 1005, 1006, 3000, 4999, 1011])
        if c is not None:
            ev['code'] = c
        events.append(ev)
    return events


def valid_for_media(text_event):
    return True


def gen_op(rng, phase_hint):
    """Random op (name, args, propagate)."""
    propagate = rng.random() < 0.25
    r = rng.random()
    if r < 0.12:
        return ('accept', (rng.choice(SUBPROTOS), rng.choice(HEADERS)), propagate)
    if r < 0.24:
        args = rng.choice([(), (rng.choice(CLOSE_CODES),), (rng.choice(CLOSE_CODES), rng.choice(REASONS))])
        return ('close', args, propagate)
    if r < 0.36:
        p = rng.choice(TEXTS) if rng.random() < 0.85 else rng.choice(BAD_TEXT)
        return ('send_text', (p,), propagate)
    if r < 0.48:
        p = rng.choice(DATAS) if rng.random() < 0.85 else rng.choice(BAD_DATA)
        return ('send_data', (p,), propagate)
    if r < 0.60:
        m = rng.choice(MEDIAS)
        args = rng.choice([(m,), (m, TEXT), (m, BINARY)])
        return ('send_media', args, propagate)
    if r < 0.68:
        return ('receive_text', (), propagate)
    if r < 0.76:
        return ('receive_data', (), propagate)
    if r < 0.80:
        return ('receive_media_safe', (), propagate)
    if r < 0.88:
        return ('yield', (rng.choice([1, 2, 5, 12]),), False)
    if r < 0.95:
        return ('props', (), False)
    if r < 0.985:
        return ('raise', (rng.choice(sorted(RAISABLE)),), True)
    return ('return', (), False)


def gen_script(rng, min_len=0, max_len=10, accept_first_p=0.7):
    ops = []
    if rng.random() < accept_first_p:
        if rng.random() < 0.7:
            ops.append(('accept', (), rng.random() < 0.3))
        else:
            ops.append(('accept', (rng.choice(SUBPROTOS), rng.choice(HEADERS)), rng.random() < 0.3))
    for _ in range(rng.randint(min_len, max_len)):
        ops.append(gen_op(rng, None))
    return ops


# receive_media on arbitrary client data could hit the deserializer with
# non-JSON input; 'receive_media_safe' peeks at the model's next message and
# only performs receive_media when the next message is decodable (or is not a
# data message at all).
async def _lockstep_receive_media_safe(ws, model, log):
    if not model.can_receive():
        log.append(('receive_media', 'skipped'))
        return None
    if model.state == A:
        nxt = model.client[0]
        if nxt['type'] == 'websocket.receive':
            t = nxt.get('text')
            b = nxt.get('bytes')
            try:
                if t is not None:
                    json.loads(t)
                elif b is not None:
                    if bytes(b[:2]) != b'\x00J':
                        raise ValueError
                    json.loads(bytes(b[2:]).decode())
            except ValueError:
                log.append(('receive_media', 'skipped-undecodable'))
                return None
    return await lockstep('receive_media', (), ws, model, log)


_lockstep_inner = lockstep


async def lockstep(name, args, ws, model, log):  # noqa: F811
    if name == 'receive_media_safe':
        return await _lockstep_receive_media_safe(ws, model, log)
    return await _lockstep_inner(name, args, ws, model, log)


def gen_cfg(rng, **force):
    ver = rng.choice(VERSIONS)
    queue = rng.choice([0, 0, 1, 2, 4, 16])
    fail = rng.random() < 0.35
    cfg = {
        'ver': ver,
        'queue': queue,
        'client': gen_client(rng),
        'fail_at': rng.choice([0, 0, 1, 1, 2, 3, 4, 6]) if fail else -1,
        'fail_kind': rng.choice(FAIL_KINDS),
        'path': rng.choice(['/ws'] * 10 + ['/ws/abc', '/nope', '/noresp', '/ws/a/b', '/']),
        'subprotocols': rng.choice([(), ('p1',), ('p1', 'amqp')]),
        'script': gen_script(rng),
        'middleware': rng.random() < 0.3,
        'mw_request': [],
        'mw_resource': [],
        'handlers': rng.random() < 0.4,
        'handler_script': [],
        'error_close_code': rng.choice(
            ['default'] * 6 + [1011, 3011, 4000, 1000, 999, 0, 1005, 1015, 1999, -5, 'x', None, 4999]
        ),
        'extra_reasons': rng.choice(
            [{}, {}, {}, {1000: None}, {4000: 'Custom Reason'}, {1000: '', 1011: None}, {3404: 'nf'}]
        ),
    }
    if cfg['middleware']:
        k = rng.random()
        if k < 0.5:
            pass
        elif k < 0.75:
            cfg['mw_request'] = gen_script(rng, 0, 3, accept_first_p=0.3)
        else:
            cfg['mw_resource'] = gen_script(rng, 0, 3, accept_first_p=0.5)
    if cfg['handlers']:
        cfg['handler_script'] = gen_script(rng, 0, 4, accept_first_p=0.1)
        if rng.random() < 0.6:
            # make custom errors more likely
            pos = rng.randint(0, len(cfg['script']))
            cfg['script'].insert(
                pos,
                ('raise', (rng.choice(['custom', 'custom_nows', 'custom_raises', 'custom_status']),), True),
            )
    cfg.update(force)
    return cfg


def run_cfg(cfg):
    async def main():
        sc = Scenario(cfg)
        try:
            return await sc.run()
        except Mismatch:
            raise
        except AssertionError:
            raise

    return asyncio.run(main())


# ---------------------------------------------------------------------------
# Hard-coded expectations (taken from the UNMODIFIED tree / the documentation)
# ---------------------------------------------------------------------------
def S(*ops):
    out = []
    for op in ops:
        if isinstance(op, str):
            out.append((op, (), False))
        elif len(op) == 2:
            out.append((op[0], op[1], False))
        else:
            out.append(op)
    return out


def base_cfg(**kw):
    cfg = {
        'ver': '2.4',
        'queue': 4,
        'client': [],
        'fail_at': -1,
        'fail_kind': 'oserror',
        'path': '/ws',
        'subprotocols': (),
        'script': [],
        'middleware': False,
        'mw_request': [],
        'mw_resource': [],
        'handlers': False,
        'handler_script': [],
        'error_close_code': 'default',
        'extra_reasons': {},
    }
    cfg.update(kw)
    return cfg


def fixed_expect(cfg, events, op_sigs=None):
    """Run cfg and compare the wire events with hard-coded ones."""

    async def main():
        sc = Scenario(cfg)
        await sc.run()
        got = [ev for ev, ok, _ in sc.server.sent]
        if got != events:
            raise Mismatch('fixed case %r: expected %r got %r' % (cfg, events, got))
        if op_sigs is not None:
            sigs = [(e[0], e[2][0] if e[2] else None, e[2][1] if e[2] else None) for e in sc.log if len(e) == 4]
            if sigs != op_sigs:
                raise Mismatch('fixed case ops %r: expected %r got %r' % (cfg, op_sigs, sigs))

    asyncio.run(main())


def fixed_cases():
    n = 0
    ACC = {'type': 'websocket.accept'}
    for ver in VERSIONS:
        reason = ver in ('2.3', '2.4')

        def close_ev(code, text):
            ev = {'type': 'websocket.close', 'code': code}
            if reason and text:
                ev['reason'] = text
            return ev

        for queue in (0, 1, 4):
            b = dict(ver=ver, queue=queue)
            # responder returns without doing anything: 403 denial via close(1000)
            fixed_expect(base_cfg(script=S(), **b), [close_ev(1000, 'Normal Closure')])
            # accept then return
            fixed_expect(
                base_cfg(script=S('accept'), **b), [ACC, close_ev(1000, 'Normal Closure')]
            )
            # unrouted
            fixed_expect(base_cfg(path='/nope', **b), [close_ev(3404, 'Not Found')])
            # missing responder
            fixed_expect(base_cfg(path='/noresp', **b), [close_ev(3405, 'Method Not Allowed')])
            # HTTP error / status / unexpected exception
            fixed_expect(
                base_cfg(script=S('accept', ('raise', ('http400',), True)), **b),
                [ACC, close_ev(3400, 'Bad Request')],
            )
            fixed_expect(
                base_cfg(script=S(('raise', ('http503',), True)), **b),
                [close_ev(3503, 'Service Unavailable')],
            )
            fixed_expect(
                base_cfg(script=S('accept', ('raise', ('status204',), True)), **b),
                [ACC, close_ev(3204, 'No Content')],
            )
            fixed_expect(
                base_cfg(script=S('accept', ('raise', ('status734',), True)), **b),
                [ACC, close_ev(3734, None)],
            )
            fixed_expect(
                base_cfg(script=S('accept', ('raise', ('runtime',), True)), **b),
                [ACC, close_ev(1011, 'Internal Server Error')],
            )
            fixed_expect(
                base_cfg(script=S('accept', ('raise', ('runtime',), True)), error_close_code=4000, **b),
                [ACC, close_ev(4000, None)],
            )
            for bad in (999, 0, 1005, 1015, 1999, -5):
                fixed_expect(
                    base_cfg(script=S('accept', ('raise', ('runtime',), True)), error_close_code=bad, **b),
                    [ACC, close_ev(3011, 'Internal Server Error')],
                )
            # operations in the wrong state
            fixed_expect(
                base_cfg(
                    script=S(
                        ('send_text', ('x',)),
                        ('send_data', (b'x',)),
                        ('send_media', ({},)),
                        'receive_text',
                        'receive_data',
                        'receive_media',
                        'accept',
                        'accept',
                        ('send_text', (b'x',)),
                        ('send_data', ('x',)),
                        ('send_text', ('t1',)),
                        ('send_data', (bytearray(b'd1'),)),
                        ('send_media', ({'k': 'v'},)),
                        ('send_media', ([1],  BINARY)),
                        ('close', (999,)),
                        ('close', (1005,)),
                        ('close', ('1000',)),
                        ('close', (4001, 'my reason')),
                        ('close', (4002,)),
                        ('close', (12,)),
                        'accept',
                        ('send_text', ('late',)),
                        ('send_data', (b'late',)),
                        ('send_media', ('late',)),
                        'receive_text',
                        'receive_data',
                        'receive_media',
                    ),
                    **b
                ),
                [
                    ACC,
                    {'type': 'websocket.send', 'text': 't1'},
                    {'type': 'websocket.send', 'bytes': b'd1'},
                    {'type': 'websocket.send', 'text': '{"k": "v"}'},
                    {'type': 'websocket.send', 'bytes': b'\x00J[1]'},
                    close_ev(4001, 'my reason'),
                ],
                [
                    ('send_text', 'OperationNotAllowed', None),
                    ('send_data', 'OperationNotAllowed', None),
                    ('send_media', 'OperationNotAllowed', None),
                    ('receive_text', 'OperationNotAllowed', None),
                    ('receive_data', 'OperationNotAllowed', None),
                    ('receive_media', 'OperationNotAllowed', None),
                    ('accept', None, None),
                    ('accept', 'OperationNotAllowed', None),
                    ('send_text', 'TypeError', None),
                    ('send_data', 'TypeError', None),
                    ('send_text', None, None),
                    ('send_data', None, None),
                    ('send_media', None, None),
                    ('send_media', None, None),
                    ('close', 'ValueError', None),
                    ('close', 'ValueError', None),
                    ('close', 'ValueError', None),
                    ('close', None, None),
                    ('close', None, None),
                    ('close', 'ValueError', None),
                    ('accept', 'OperationNotAllowed', None),
                    ('send_text', 'WebSocketDisconnected', 4001),
                    ('send_data', 'WebSocketDisconnected', 4001),
                    ('send_media', 'WebSocketDisconnected', 4001),
                    ('receive_text', 'WebSocketDisconnected', 4001),
                    ('receive_data', 'WebSocketDisconnected', 4001),
                    ('receive_media', 'WebSocketDisconnected', 4001),
                ],
            )
            n += 17
            # client conversation: payloads in order, wrong payload types, disconnect
            client = [
                {'type': 'websocket.receive', 'text': 'one'},
                {'type': 'websocket.receive', 'bytes': b'two'},
                {'type': 'websocket.receive', 'text': '{"three": 3}'},
                {'type': 'websocket.receive', 'bytes': b'\x00J[4]'},
                {'type': 'websocket.receive', 'bytes': b'five', 'text': None},
                {'type': 'websocket.receive', 'text': 'six', 'bytes': None},
                {'type': 'websocket.receive', 'text': None, 'bytes': None},
                {'type': 'websocket.disconnect', 'code': 4242},
            ]
            fixed_expect(
                base_cfg(
                    client=client,
                    script=S(
                        'accept',
                        'receive_text',
                        'receive_data',
                        'receive_media',
                        'receive_media',
                        'receive_text',
                        'receive_data',
                        'receive_media',
                        'receive_text',
                        ('send_text', ('x',)),
                        'receive_data',
                        'accept',
                        ('close', (4000,)),
                    ),
                    **b
                ),
                [ACC],
                [
                    ('accept', None, None),
                    ('receive_text', None, None),
                    ('receive_data', None, None),
                    ('receive_media', None, None),
                    ('receive_media', None, None),
                    ('receive_text', 'PayloadTypeError', None),
                    ('receive_data', 'PayloadTypeError', None),
                    ('receive_media', 'PayloadTypeError', None),
                    ('receive_text', 'WebSocketDisconnected', 4242),
                    ('send_text', 'WebSocketDisconnected', 4242),
                    ('receive_data', 'WebSocketDisconnected', 4242),
                    ('accept', 'OperationNotAllowed', None),
                    ('close', None, None),
                ],
            )
            n += 1
            # lost connection detected while sending (buffered receiver only)
            if queue > 0:
                fixed_expect(
                    base_cfg(
                        client=[{'type': 'websocket.disconnect', 'code': 1001}],
                        script=S(
                            'accept',
                            ('yield', (5,)),
                            ('send_text', ('x',)),
                            ('send_data', (b'x',)),
                            'accept',
                        ),
                        **b
                    ),
                    [ACC],
                    [
                        ('accept', None, None),
                        ('send_text', 'WebSocketDisconnected', 1001),
                        ('send_data', 'WebSocketDisconnected', 1001),
                        ('accept', 'OperationNotAllowed', None),
                    ],
                )
                fixed_expect(
                    base_cfg(
                        client=[{'type': 'websocket.disconnect'}],
                        script=S('accept', ('yield', (5,)), ('send_media', ({},), True)),
                        **b
                    ),
                    [ACC],
                    [('accept', None, None), ('send_media', 'WebSocketDisconnected', 1000)],
                )
                n += 2
            # server's send raises
            for kind, cls, code in (
                ('ok1000', 'WebSocketDisconnected', 1000),
                ('oserror', 'WebSocketDisconnected', 1000),
                ('oserror_sub', 'WebSocketDisconnected', 1000),
                ('connreset', 'WebSocketDisconnected', 1000),
                ('oserror_cause', 'WebSocketDisconnected', 1001),
                ('oserror_cause4', 'WebSocketDisconnected', 4321),
                ('oserror_cause_nomatch', 'WebSocketDisconnected', 1000),
                ('oserror_cause_3digits', 'WebSocketDisconnected', 1000),
                ('proto', 'ValueError', None),
            ):
                fixed_expect(
                    base_cfg(
                        fail_at=1,
                        fail_kind=kind,
                        script=S('accept', ('send_text', ('x',)), ('send_text', ('y',)), 'receive_text'),
                        **b
                    ),
                    [ACC, {'type': 'websocket.send', 'text': 'x'}],
                    [
                        ('accept', None, None),
                        ('send_text', cls, code),
                        ('send_text', 'WebSocketDisconnected', code or 1000),
                        ('receive_text', 'WebSocketDisconnected', code or 1000),
                    ],
                )
                fixed_expect(
                    base_cfg(
                        fail_at=0,
                        fail_kind=kind,
                        script=S(('accept', ('p1',)), ('send_text', ('y',))),
                        subprotocols=('p1',),
                        **b
                    ),
                    [{'type': 'websocket.accept', 'subprotocol': 'p1'}],
                    [
                        ('accept', cls, code),
                        ('send_text', 'WebSocketDisconnected', code or 1000),
                    ],
                )
                n += 2
            for kind, cls in (('runtime', 'RuntimeError'), ('typeerror', 'TypeError')):
                fixed_expect(
                    base_cfg(
                        fail_at=1,
                        fail_kind=kind,
                        script=S('accept', ('send_data', (b'x',)), ('send_data', (b'y',))),
                        **b
                    ),
                    [
                        ACC,
                        {'type': 'websocket.send', 'bytes': b'x'},
                        {'type': 'websocket.send', 'bytes': b'y'},
                        close_ev(1000, 'Normal Closure'),
                    ],
                    [('accept', None, None), ('send_data', cls, None), ('send_data', None, None)],
                )
                n += 1
            # accept headers / subprotocol
            if ver == '2.0':
                fixed_expect(
                    base_cfg(script=S(('accept', (None, [('X-A', 'b')]))), **b),
                    [close_ev(1000, 'Normal Closure')],
                    [('accept', 'OperationNotAllowed', None)],
                )
            else:
                fixed_expect(
                    base_cfg(script=S(('accept', ('amqp', {'X-A': 'b', 'Y': 'c'}))), **b),
                    [
                        {
                            'type': 'websocket.accept',
                            'subprotocol': 'amqp',
                            'headers': [(b'x-a', b'b'), (b'y', b'c')],
                        },
                        close_ev(1000, 'Normal Closure'),
                    ],
                    [('accept', None, None)],
                )
                fixed_expect(
                    base_cfg(
                        script=S(
                            ('accept', (None, [('Sec-WebSocket-Protocol', 'b')])),
                            ('accept', (None, [('X', 'caf\u00e9')])),
                            ('accept', (3,)),
                        ),
                        **b
                    ),
                    [close_ev(1000, 'Normal Closure')],
                    [
                        ('accept', 'ValueError', None),
                        ('accept', 'UnicodeEncodeError', None),
                        ('accept', 'ValueError', None),
                    ],
                )
                n += 1
            n += 1
            # handshake abandoned
            ev = {'type': 'websocket.close', 'code': 1011}
            if reason:
                ev['reason'] = 'Internal Server Error'
            for first in ({'type': 'websocket.disconnect', 'code': 1001}, {'type': 'websocket.receive', 'text': 'x'}):
                fixed_expect(base_cfg(first_event=first, **b), [ev])
                n += 1
    return n


def random_cases(seed, count):
    rng = random.Random(seed)
    leftovers = 0
    for i in range(count):
        cfg = gen_cfg(rng)
        leftovers += run_cfg(cfg)
    return count


def main():
    total = fixed_cases()
    total += random_cases(20240117, 2500)
    total += focus_cases()
    print('cases:', total, ' operations compared:', sum(STATS.values()))
    if '-v' in sys.argv:
        for key in sorted(STATS):
            print('   ', key, STATS[key])
    print('PASS')


# ---------------------------------------------------------------------------
# Focused generators (one per area of the code); the area named by FOCUS gets
# a larger number of cases.
# ---------------------------------------------------------------------------
def sprinkle(rng, script, op, p=0.5):
    out = []
    for item in script:
        if rng.random() < p:
            out.append(op)
        out.append(item)
    out.append(op)
    return out


def focus_send_media(rng):
    """send_media()/state guard in every state, both payload types."""
    prefix = rng.choice(
        [
            [],
            [('accept', (), False)],
            [('accept', (), False), ('close', (rng.choice([None, 1001, 4000]),), False)],
            [('accept', (), False), ('yield', (6,), False)],
            [('accept', (), False), ('send_text', ('first',), False)],
            [('close', (), False)],
        ]
    )
    ops = list(prefix)
    for _ in range(rng.randint(1, 8)):
        r = rng.random()
        prop = rng.random() < 0.15
        if r < 0.55:
            m = rng.choice(MEDIAS) if rng.random() < 0.8 else rng.choice(UNSERIALIZABLE)
            pt = rng.choice([None, TEXT, BINARY, BINARY, 'text', 1, 'omit'])
            args = (m,) if pt == 'omit' else (m, pt)
            ops.append(('send_media', args, prop))
        elif r < 0.65:
            ops.append(('send_text', (rng.choice(TEXTS),), prop))
        elif r < 0.75:
            ops.append(('send_data', (rng.choice(DATAS),), prop))
        elif r < 0.85:
            ops.append((rng.choice(['receive_text', 'receive_data', 'receive_media_safe']), (), prop))
        elif r < 0.92:
            ops.append(('yield', (rng.choice([1, 3, 8]),), False))
        else:
            ops.append(('close', (rng.choice([None, 1000, 999, 3001]),), prop))
    return gen_cfg(
        rng,
        script=ops,
        path='/ws',
        middleware=False,
        mw_request=[],
        mw_resource=[],
    )


def focus_pump(rng):
    """Buffered receiver: long client scripts, all queue sizes, interleaving."""
    n = rng.randint(0, 40)
    client = []
    for i in range(n):
        if rng.random() < 0.5:
            client.append({'type': 'websocket.receive', 'text': 'm%d' % i})
        else:
            client.append({'type': 'websocket.receive', 'bytes': b'b%d' % i})
    if rng.random() < 0.6:
        ev = {'type': 'websocket.disconnect'}
        c = rng.choice([None, 1000, 1001, 1006, 4999])
        if c is not None:
            ev['code'] = c
        client.append(ev)
    ops = [('accept', (), False)]
    for _ in range(rng.randint(0, 45)):
        r = rng.random()
        prop = rng.random() < 0.05
        if r < 0.45:
            ops.append((rng.choice(['receive_text', 'receive_data']), (), prop))
        elif r < 0.6:
            ops.append(('yield', (rng.choice([1, 2, 3, 7, 50]),), False))
        elif r < 0.75:
            ops.append(('send_text', ('s',), prop))
        elif r < 0.85:
            ops.append(('send_data', (b'd',), prop))
        elif r < 0.93:
            ops.append(('props', (), False))
        elif r < 0.97:
            ops.append(('send_media', ({'n': 1}, rng.choice([TEXT, BINARY])), prop))
        else:
            ops.append(('close', (rng.choice([None, 4000, 999]),), prop))
    return gen_cfg(
        rng,
        queue=rng.choice([0, 1, 1, 2, 3, 4, 5, 16, 64]),
        client=client,
        script=ops,
        path='/ws',
        middleware=False,
        mw_request=[],
        mw_resource=[],
    )


def focus_errors(rng):
    """Send failures at every point, error -> close-code mapping, handlers."""
    ops = []
    if rng.random() < 0.8:
        ops.append(('accept', (rng.choice(SUBPROTOS[:5]), rng.choice(HEADERS[:7])), rng.random() < 0.3))
    for _ in range(rng.randint(0, 5)):
        r = rng.random()
        prop = rng.random() < 0.4
        if r < 0.3:
            ops.append(('send_text', (rng.choice(TEXTS),), prop))
        elif r < 0.5:
            ops.append(('send_data', (rng.choice(DATAS),), prop))
        elif r < 0.65:
            ops.append(('send_media', (rng.choice(MEDIAS), rng.choice([TEXT, BINARY])), prop))
        elif r < 0.8:
            ops.append(('close', (rng.choice(CLOSE_CODES),), prop))
        elif r < 0.9:
            ops.append(('props', (), False))
        else:
            ops.append(('accept', (), prop))
    if rng.random() < 0.7:
        ops.append(('raise', (rng.choice(sorted(RAISABLE)),), True))
    mw = rng.random() < 0.4
    forced = dict(
        script=ops,
        fail_at=rng.choice([-1, 0, 0, 1, 1, 2, 2, 3, 4]),
        fail_kind=rng.choice(FAIL_KINDS),
        handlers=rng.random() < 0.6,
        middleware=mw,
        mw_request=[],
        mw_resource=[],
    )
    if mw:
        which = rng.choice(['mw_request', 'mw_resource'])
        forced[which] = rng.choice(
            [
                [],
                [('raise', (rng.choice(sorted(RAISABLE)),), True)],
                [('accept', (), True)],
                [('close', (rng.choice([None, 4003, 3403]),), True)],
                [('accept', (), False), ('send_text', ('from-mw',), True)],
            ]
        )
    cfg = gen_cfg(rng, **forced)
    if cfg['handlers']:
        cfg['handler_script'] = rng.choice(
            [
                [],
                [('close', (4001,), True)],
                [('close', (rng.choice(CLOSE_CODES),), True)],
                [('send_text', ('bye',), True), ('close', (4001, 'handled'), True)],
                [('raise', ('http404',), True)],
                [('raise', ('status204',), True)],
                [('raise', ('runtime',), True)],
                [('accept', (), True), ('raise', ('http503',), True)],
            ]
        )
    return cfg


def focus_repr(rng):
    """repr(ws) at every point of a conversation never disturbs the session."""
    cfg = gen_cfg(rng)
    op = ('repr', (), False)
    cfg['script'] = sprinkle(rng, cfg['script'], op)
    if cfg['middleware']:
        cfg['mw_request'] = sprinkle(rng, cfg['mw_request'], op, 0.3)
        cfg['mw_resource'] = sprinkle(rng, cfg['mw_resource'], op, 0.3)
    if cfg['handlers']:
        cfg['handler_script'] = sprinkle(rng, cfg['handler_script'], op, 0.5)
    return cfg


FOCI = {
    'send_media': focus_send_media,
    'pump': focus_pump,
    'errors': focus_errors,
    'repr': focus_repr,
}


def focus_cases():
    total = 0
    for i, (name, gen) in enumerate(sorted(FOCI.items())):
        count = 1500 if name == FOCUS else 300
        rng = random.Random(7700 + i)
        for _ in range(count):
            run_cfg(gen(rng))
        total += count
    return total


if __name__ == '__main__':
    try:
        main()
    except Mismatch as ex:
        print('FAIL:', ex)
        sys.exit(1)
