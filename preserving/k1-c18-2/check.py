"""Schedule-controlled check of falcon's WebSocket receive buffering (C18).

Run as:  PYTHONPATH=<falcon tree> /venv/bin/python check.py

The program drives falcon.asgi.ws.WebSocket (and through it _BufferedReceiver)
against a fake ASGI server whose deliveries are controlled step by step, and

  A. enumerates exhaustively all interleavings of a small number of server
     deliveries (k messages, then an optional disconnect) with all short
     application scripts over receive / send / close / cancel-pending-receive,
     for queue capacities 0 (unbuffered), 1 and 2, letting the loop settle after
     every step and comparing every observable against a simple reference
     model (FIFO list + "pump may hold cap queued + 1 in hand");
  B. the same with randomly drawn longer scripts for capacities 0..4;
  C. runs random histories in which the event loop is given only 0..3 turns
     between steps (so that the pump task and the application tasks are
     resumed in many different relative orders) and checks the schedule
     independent promises: exactly-once in-order delivery, the bound, prompt
     report of a disconnect to a sender, disconnect seen by a receiver only
     after the preceding messages, no satisfiable receive left waiting and
     nothing left running after close();
  D. checks how errors raised by the server's send() surface in _send().

It prints PASS and exits 0 when every case is as expected.
"""

import asyncio
import collections
import hashlib
import itertools
import random
import sys

import falcon  # noqa: F401  (must come from the tree under test)
from falcon import errors
from falcon.asgi.ws import _WebSocketState
from falcon.asgi.ws import WebSocket
from falcon.asgi.ws import WebSocketOptions

SETTLE = 12
CLOSE_CODE = 4001

FAILURES = []
TRACE = hashlib.sha256()
COUNTS = collections.Counter()


def fail(case, msg):
    FAILURES.append('%s: %s' % (case, msg))
    if len(FAILURES) > 25:
        report()


def report():
    if FAILURES:
        print('FAIL (%d problems)' % len(FAILURES))
        for f in FAILURES[:25]:
            print('  ', f)
        sys.exit(1)
    print(
        'cases: exhaustive=%d modelled-random=%d free-schedule=%d send-errors=%d'
        % (COUNTS['A'], COUNTS['B'], COUNTS['C'], COUNTS['D'])
    )
    print('trace digest (informational):', TRACE.hexdigest()[:16])
    print('PASS')
    sys.exit(0)


async def settle(n=SETTLE):
    for _ in range(n):
        await asyncio.sleep(0)


def is_disc(ev):
    return ev['type'] == 'websocket.disconnect'


def make_events(k, disc):
    """k messages (alternating TEXT/BINARY, some with explicit None for the
    other payload key) followed by an optional disconnect."""
    evs = []
    for i in range(k):
        if i % 2 == 0:
            ev = {'type': 'websocket.receive', 'text': 'm%d' % i}
            if i % 4 == 0:
                ev['bytes'] = None
        else:
            ev = {'type': 'websocket.receive', 'bytes': b'm%d' % i}
            if i % 4 == 1:
                ev['text'] = None
        evs.append(ev)
    if disc == 'nocode':
        evs.append({'type': 'websocket.disconnect'})
    elif disc is not None:
        evs.append({'type': 'websocket.disconnect', 'code': disc})
    return evs


def payload(ev):
    t = ev.get('text')
    return t if t is not None else ev['bytes']


class Server:
    """Fake ASGI server side; deliveries are made explicitly by the driver."""

    def __init__(self, case, cap):
        self.case = case
        self.cap = cap
        self.avail = collections.deque()
        self.waiter = None
        self.pulled = 0
        self.disc_pulled = False
        self.sent = []
        self.app_received = []
        self.ws = None
        self.send_error = None

    async def receive(self):
        while not self.avail:
            self.waiter = asyncio.get_running_loop().create_future()
            try:
                await self.waiter
            finally:
                self.waiter = None
        ev = self.avail.popleft()
        self.pulled += 1
        if is_disc(ev):
            self.disc_pulled = True
        self.check_bound('pull')
        return ev

    def deliver(self, ev):
        self.avail.append(ev)
        if self.waiter is not None and not self.waiter.done():
            self.waiter.set_result(None)

    async def send(self, msg):
        if self.send_error is not None:
            raise self.send_error
        self.sent.append(msg)

    def check_bound(self, where):
        held = self.pulled - len(self.app_received)
        qlen = len(self.ws._buffered_receiver._messages)
        if self.cap > 0:
            if qlen > self.cap:
                fail(self.case, '%s: queue holds %d > cap %d' % (where, qlen, self.cap))
            if held > self.cap + 1:
                fail(
                    self.case,
                    '%s: framework holds %d pulled events, cap %d'
                    % (where, held, self.cap),
                )
        else:
            if qlen != 0:
                fail(self.case, '%s: unbuffered mode queued %d' % (where, qlen))
            if held > 1:
                fail(self.case, '%s: unbuffered mode holds %d' % (where, held))


class Harness:
    def __init__(self, case, cap):
        self.case = case
        self.cap = cap
        self.server = Server(case, cap)
        self.recv_task = None
        self.ws = None

    async def setup(self):
        opts = WebSocketOptions()
        self.ws = WebSocket(
            '2.3',
            {'type': 'websocket', 'subprotocols': []},
            self.server.receive,
            self.server.send,
            opts.media_handlers,
            self.cap,
            opts.default_close_reasons,
        )
        self.server.ws = self.ws
        assert self.ws.unaccepted and not self.ws.ready and not self.ws.closed
        await self.ws.accept()
        assert self.ws.ready and not self.ws.closed and not self.ws.unaccepted

    # -- application operations, each run in its own task ------------------
    def start_recv(self):
        ws = self.ws
        received = self.server.app_received
        idx = len(received)

        async def op():
            if idx % 2 == 0:
                r = await ws.receive_text()
            else:
                r = await ws.receive_data()
            received.append(r)
            return r

        self.recv_task = self._spawn(op())
        return self.recv_task

    def start_send(self, n):
        return self._spawn(self.ws.send_text('s%d' % n))

    def start_close(self, code):
        return self._spawn(self.ws.close(code))

    @staticmethod
    def _spawn(coro):
        task = asyncio.ensure_future(coro)
        # mark exceptions as retrieved (keeps stderr quiet; no other effect)
        task.add_done_callback(lambda t: t.cancelled() or t.exception())
        return task

    @staticmethod
    def outcome(task):
        if not task.done():
            return ('pending',)
        if task.cancelled():
            return ('cancelled',)
        ex = task.exception()
        if ex is None:
            return ('ok', task.result())
        return ('exc', type(ex).__name__, getattr(ex, 'code', None))

    def observe(self):
        br = self.ws._buffered_receiver
        return (
            len(br._messages),
            br.client_disconnected,
            br.client_disconnected_code,
            self.server.pulled,
            self.ws.closed,
            self.ws.ready,
            self.ws._state.name,
            repr(self.server.app_received),
            repr(self.server.sent),
        )

    async def finish(self):
        """close(), then nothing may be left running."""
        t = self.start_close(None)
        await settle()
        if not t.done() or t.exception() is not None:
            fail(self.case, 'final close() did not complete cleanly: %r' % (t,))
        if self.ws._buffered_receiver._pump_task is not None:
            fail(self.case, 'pump task still referenced after close()')
        if self.recv_task is not None and not self.recv_task.done():
            if self.cap > 0:
                fail(self.case, 'receive still pending after close()')
            self.recv_task.cancel()
            await settle(3)
        left = [x for x in asyncio.all_tasks() if x is not asyncio.current_task()]
        if left:
            fail(self.case, 'tasks left running after close(): %r' % (left,))
            for x in left:
                x.cancel()
            await settle(3)
        # exercising repr() must never disturb anything
        repr(self.ws._buffered_receiver)


# ---------------------------------------------------------------------------
# Reference model (valid when the loop is allowed to settle after each step)
# ---------------------------------------------------------------------------
class Model:
    def __init__(self, cap, reasons):
        self.cap = cap
        self.reasons = reasons
        self.avail = []
        self.held = []  # pulled, not yet handed to the app (queue + 1 in hand)
        self.pulled = 0
        self.pump_alive = cap > 0
        self.stopped = False
        self.flag = False
        self.flag_code = None
        self.state = 'ACCEPTED'
        self.codes = set()
        self.pending = False
        self.received = []
        self.sent = [{'type': 'websocket.accept'}]
        self.optional_close = None

    def pump(self):
        while self.pump_alive and self.avail and len(self.held) <= self.cap:
            ev = self.avail.pop(0)
            self.held.append(ev)
            self.pulled += 1
            if is_disc(ev):
                self.flag = True
                self.flag_code = ev.get('code', 1000)
                self.pump_alive = False

    def _hand_over(self, ev):
        if is_disc(ev):
            self.state = 'CLOSED'
            code = ev.get('code', 1000)
            self.codes = {code}
            return ('exc', 'WebSocketDisconnected', {code or 1000})
        self.received.append(payload(ev))
        return ('ok', payload(ev))

    def recv(self):
        """Returns an outcome, or None when the receive has to wait."""
        if self.state == 'CLOSED':
            return ('exc', 'WebSocketDisconnected', {c or 1000 for c in self.codes})
        if self.cap == 0:
            if self.avail:
                self.pulled += 1
                return self._hand_over(self.avail.pop(0))
            self.pending = True
            return None
        if self.stopped:
            # close() returned early (client already gone, not yet consumed)
            return ('exc', 'AssertionError|WebSocketDisconnected', None)
        if self.held:
            ev = self.held.pop(0)
            self.pump()
            return self._hand_over(ev)
        self.pending = True
        return None

    def deliver(self, ev):
        """Returns the outcome of a pending receive if it completes."""
        self.avail.append(ev)
        if self.cap == 0:
            if self.pending:
                self.pending = False
                self.pulled += 1
                return self._hand_over(self.avail.pop(0))
            return None
        self.pump()
        if self.pending and self.held:
            self.pending = False
            ev = self.held.pop(0)
            self.pump()
            return self._hand_over(ev)
        return None

    def send(self, n):
        if self.state == 'CLOSED':
            return ('exc', 'WebSocketDisconnected', {c or 1000 for c in self.codes})
        if self.flag:
            self.state = 'CLOSED'
            self.codes = {self.flag_code}
            return ('exc', 'WebSocketDisconnected', {self.flag_code or 1000})
        self.sent.append({'type': 'websocket.send', 'text': 's%d' % n})
        return ('ok', None)

    def close(self, code):
        """Returns the outcome of a pending receive if it completes."""
        if self.cap > 0:
            self.stopped = True
            self.pump_alive = False
        if self.state == 'CLOSED' or self.flag:
            return None
        c = 1000 if code is None else code
        msg = {'type': 'websocket.close', 'code': c}
        if self.reasons.get(c):
            msg['reason'] = self.reasons[c]
        self.state = 'CLOSED'
        if self.cap > 0 and self.pending:
            # the pending receive is woken by the end of the pump task
            self.pending = False
            self.codes = {1000, c}
            self.optional_close = msg
            return ('exc', 'WebSocketDisconnected', {1000, c})
        self.sent.append(msg)
        self.codes = {c}
        return None

    def cancel(self):
        if self.pending:
            self.pending = False
            return ('cancelled',)
        return None

    @property
    def qlen(self):
        return min(len(self.held), self.cap)

    @property
    def closed(self):
        return self.state == 'CLOSED' or self.flag

    @property
    def ready(self):
        return self.state == 'ACCEPTED' and not self.flag


def same(case, what, got, want):
    """Compare an observed task outcome with a model outcome."""
    if want is None:
        want = ('pending',)
    ok = False
    if got[0] == want[0]:
        if got[0] in ('pending', 'cancelled'):
            ok = True
        elif got[0] == 'ok':
            ok = got[1] == want[1]
        else:
            ok = got[1] in want[1].split('|') and (want[2] is None or got[2] in want[2])
    if not ok:
        fail(case, '%s: got %r, expected %r' % (what, got, want))


async def run_modelled(case, cap, events, steps):
    """steps: sequence of 'D', 'R', 'S', 'C', 'K' (close with code), 'X'."""
    h = Harness(case, cap)
    await h.setup()
    m = Model(cap, h.ws._close_reasons)
    todo = list(events)
    nsend = 0
    log = [case]
    # after the script: deliver what is left, drain, over-read, close
    steps = list(steps) + ['D'] * len(events) + ['R'] * (len(events) + 2) + ['S', 'C', 'R', 'S']
    for pos, st in enumerate(steps):
        what = 'step %d %s' % (pos, st)
        if st == 'D':
            if not todo:
                continue
            ev = todo.pop(0)
            want = m.deliver(ev)
            h.server.deliver(ev)
            await settle()
            if want is not None:
                same(case, what + ' (pending receive)', h.outcome(h.recv_task), want)
        elif st == 'R':
            if m.pending:
                continue
            want = m.recv()
            t = h.start_recv()
            await settle()
            same(case, what, h.outcome(t), want)
        elif st == 'S':
            want = m.send(nsend)
            t = h.start_send(nsend)
            nsend += 1
            await settle()
            same(case, what, h.outcome(t), want)
        elif st in 'CK':
            code = CLOSE_CODE if st == 'K' else None
            want = m.close(code)
            t = h.start_close(code)
            await settle()
            same(case, what, h.outcome(t), ('ok', None))
            if want is not None:
                same(case, what + ' (pending receive)', h.outcome(h.recv_task), want)
        elif st == 'X':
            want = m.cancel()
            if want is None:
                continue
            h.recv_task.cancel()
            await settle()
            same(case, what, h.outcome(h.recv_task), want)
        if m.pending != (h.recv_task is not None and not h.recv_task.done()):
            fail(case, '%s: pending receive mismatch (model %r)' % (what, m.pending))
        obs = h.observe()
        log.append((st, obs, h.outcome(h.recv_task) if h.recv_task else None))
        sent = list(h.server.sent)
        want_sent = list(m.sent)
        if m.optional_close is not None and m.optional_close in sent:
            want_sent.append(m.optional_close)
        expect = (
            m.qlen,
            m.flag,
            m.flag_code,
            m.pulled,
            m.closed,
            m.ready,
            m.state,
            repr(m.received),
        )
        if obs[:8] != expect:
            fail(case, '%s: observed %r, model %r' % (what, obs[:8], expect))
        if sent != want_sent:
            fail(case, '%s: sent %r, model %r' % (what, sent, want_sent))
        h.server.check_bound(what)
    # lossless up to the point where the conversation ended
    want_msgs = [payload(e) for e in events if not is_disc(e)]
    got = h.server.app_received
    if got != want_msgs[: len(got)]:
        fail(case, 'received %r is not a prefix of %r' % (got, want_msgs))
    await h.finish()
    TRACE.update(repr(log).encode())


def interleavings(n_d, app):
    """All merges of n_d 'D' steps with the app script (order preserved)."""
    total = n_d + len(app)
    for pos in itertools.combinations(range(total), n_d):
        pos = set(pos)
        it = iter(app)
        yield [('D' if i in pos else next(it)) for i in range(total)]


async def part_a():
    scripts = ['']
    for n in (1, 2, 3):
        scripts += [''.join(p) for p in itertools.product('RSCX', repeat=n)]
    for cap in (0, 1, 2):
        for k in (0, 1, 2):
            for disc in (None, 'nocode', 1001):
                events = make_events(k, disc)
                for app in scripts:
                    for steps in interleavings(len(events), app):
                        case = 'A cap=%d k=%d disc=%s %s' % (cap, k, disc, ''.join(steps))
                        await run_modelled(case, cap, events, steps)
                        COUNTS['A'] += 1


async def part_b():
    rnd = random.Random(1807)
    for i in range(700):
        cap = rnd.choice((0, 1, 2, 3, 4))
        k = rnd.randint(0, 9)
        disc = rnd.choice((None, None, 'nocode', 1000, 1001, 3999, 4999))
        events = make_events(k, disc)
        n_app = rnd.randint(0, 14)
        app = [rnd.choice('RRRRSSXXCK'[: rnd.choice((4, 6, 8, 9, 10))]) for _ in range(n_app)]
        steps = ['D'] * len(events) + app
        # deliveries keep their order whatever the shuffle: 'D' means "the next one"
        rnd.shuffle(steps)
        if i % 5 == 0:
            # bursts: everything delivered first / last
            steps = sorted(steps, key=lambda s: (s != 'D') if i % 10 == 0 else (s == 'D'))
        case = 'B#%d cap=%d k=%d disc=%s %s' % (i, cap, k, disc, ''.join(steps))
        await run_modelled(case, cap, events, steps)
        COUNTS['B'] += 1


async def run_free(case, cap, events, rnd):
    """Few loop turns between steps: only schedule-independent promises."""
    h = Harness(case, cap)
    await h.setup()
    s = h.server
    todo = list(events)
    want_msgs = [payload(e) for e in events if not is_disc(e)]
    disc_ev = events[-1] if events and is_disc(events[-1]) else None
    sends = []  # (task, disconnect already pulled when started)
    closed_by_app = False
    nsend = 0
    n_steps = rnd.randint(3, 30)
    log = [case]
    for pos in range(n_steps):
        st = rnd.choice('DDDRRRRSSX' + ('C' if rnd.random() < 0.15 else 'R'))
        if st == 'D' and todo:
            s.deliver(todo.pop(0))
        elif st == 'R':
            if h.recv_task is None or h.recv_task.done():
                h.start_recv()
        elif st == 'S':
            sends.append((h.start_send(nsend), s.disc_pulled and cap > 0, closed_by_app))
            nsend += 1
        elif st == 'X':
            if h.recv_task is not None:
                h.recv_task.cancel()
        elif st == 'C':
            t = h.start_close(rnd.choice((None, 1000, CLOSE_CODE)))
            closed_by_app = True
            await settle()
            if not t.done() or t.exception() is not None:
                fail(case, 'close() did not complete cleanly')
        await settle(rnd.choice((0, 0, 1, 1, 2, 3, SETTLE)))
        s.check_bound('free step %d' % pos)
        repr(h.ws._buffered_receiver)
        log.append((st, len(s.app_received), s.pulled))

    await settle()
    # a receive that can be satisfied is never left waiting
    if h.recv_task is not None and not h.recv_task.done():
        br = h.ws._buffered_receiver
        if br._messages or (s.avail and not closed_by_app):
            fail(case, 'receive left waiting although messages are available')
    # drain: deliver the rest, read everything
    for ev in todo:
        s.deliver(ev)
    await settle()
    final = None
    for _ in range(len(events) + 2):
        if h.recv_task is None or h.recv_task.done():
            h.start_recv()
        await settle()
        out = h.outcome(h.recv_task)
        if out[0] != 'ok':
            final = out
            break
    got = s.app_received
    if got != want_msgs[: len(got)]:
        fail(case, 'received %r is not a prefix of %r' % (got, want_msgs))
    received_disc = False
    send_failed = False
    for t, disc_known, was_closed in sends:
        send_failed = send_failed or h.outcome(t)[0] == 'exc'
        out = h.outcome(t)
        if out[0] == 'pending':
            fail(case, 'send left pending')
        elif out[0] == 'exc' and out[1] != 'WebSocketDisconnected':
            fail(case, 'send raised %r' % (out,))
        elif out[0] == 'ok' and (disc_known or was_closed):
            fail(case, 'send succeeded although the disconnect was known')
        elif out[0] == 'exc' and not (disc_ev is not None or closed_by_app):
            fail(case, 'send failed on a live connection: %r' % (out,))
    if not closed_by_app:
        if disc_ev is not None:
            # everything that preceded the disconnect, then the disconnect
            code = disc_ev.get('code', 1000) or 1000
            # (a sender that was told about the disconnect first ends the
            # conversation; what is still buffered is then dropped by design)
            if got != want_msgs and not send_failed:
                fail(case, 'lost messages: %r vs %r (final %r)' % (got, want_msgs, final))
            if final is None or final[:2] != ('exc', 'WebSocketDisconnected'):
                fail(case, 'disconnect not reported to receiver: %r' % (final,))
            elif final[2] != code:
                # a sender may have noticed first; the code is the same anyway
                fail(case, 'disconnect code %r, expected %r' % (final[2], code))
            received_disc = True
        else:
            if got != want_msgs:
                fail(case, 'lost messages: %r vs %r (final %r)' % (got, want_msgs, final))
            if final != ('pending',):
                fail(case, 'over-read did not wait: %r' % (final,))
    else:
        if final is not None and final[0] == 'exc' and final[1] not in (
            'WebSocketDisconnected',
            'AssertionError',
        ):
            fail(case, 'receive after close raised %r' % (final,))
    log.append((got, final, received_disc, [h.outcome(t) for t, _, _ in sends], h.observe()))
    await h.finish()
    TRACE.update(repr(log).encode())


async def part_c():
    rnd = random.Random(42018)
    for i in range(1500):
        cap = rnd.choice((0, 1, 1, 2, 3, 4))
        k = rnd.randint(0, 10)
        disc = rnd.choice((None, 'nocode', 1000, 1001, 4000))
        events = make_events(k, disc)
        case = 'C#%d cap=%d k=%d disc=%s' % (i, cap, k, disc)
        await run_free(case, cap, events, rnd)
        COUNTS['C'] += 1


async def part_d():
    class Boom(OSError):
        pass

    def chained():
        try:
            try:
                raise RuntimeError('received 1001 (going away); then sent 1001 (going away)')
            except RuntimeError as inner:
                raise Boom('gone') from inner
        except Boom as ex:
            return ex

    def chained_nomatch():
        try:
            try:
                raise RuntimeError('no close frame received or sent')
            except RuntimeError as inner:
                raise OSError('gone') from inner
        except OSError as ex:
            return ex

    table = [
        (OSError(), 'WebSocketDisconnected', 1000, True),
        (Boom('x'), 'WebSocketDisconnected', 1000, True),
        (chained(), 'WebSocketDisconnected', 1001, True),
        (chained_nomatch(), 'WebSocketDisconnected', 1000, True),
        (Exception('sent 1000 (OK); code = 1000 (OK), no reason'), 'WebSocketDisconnected', 1000, True),
        (Exception('protocol accepted must be from the list'), 'ValueError', None, True),
        (RuntimeError('boom'), 'RuntimeError', None, False),
        (KeyError('code'), 'KeyError', None, False),
    ]
    for cap in (0, 1, 2, 3, 4):
        for err, name, code, closes in table:
            case = 'D cap=%d %r' % (cap, err)
            h = Harness(case, cap)
            await h.setup()
            h.server.deliver(make_events(1, None)[0])
            await settle()
            h.server.send_error = err
            t = h.start_send(0)
            await settle()
            out = h.outcome(t)
            if out[:2] != ('exc', name) or (code is not None and out[2] != code):
                fail(case, 'send outcome %r' % (out,))
            if not closes and t.exception() is not err:
                fail(case, 'unrelated error was not re-raised as is')
            if closes and t.exception().__cause__ is not err:
                fail(case, 'translated error lost its cause')
            if h.ws.closed != closes or h.ws.ready == closes:
                fail(case, 'closed=%r ready=%r' % (h.ws.closed, h.ws.ready))
            if closes != (h.ws._state is _WebSocketState.CLOSED):
                fail(case, 'state %r' % (h.ws._state,))
            h.server.send_error = None
            t2 = h.start_send(1)
            await settle()
            out2 = h.outcome(t2)
            if closes:
                if out2[:2] != ('exc', 'WebSocketDisconnected'):
                    fail(case, 'second send outcome %r' % (out2,))
                if out2[2] != (code or 1000):
                    fail(case, 'second send code %r' % (out2,))
            elif out2 != ('ok', None):
                fail(case, 'second send outcome %r' % (out2,))
            if not isinstance(t.exception(), (errors.WebSocketDisconnected, ValueError, RuntimeError, KeyError)):
                fail(case, 'unexpected exception class')
            TRACE.update(repr((case, out, out2, h.observe())).encode())
            await h.finish()
            COUNTS['D'] += 1


async def main():
    await part_d()
    await part_a()
    await part_b()
    await part_c()


if __name__ == '__main__':
    asyncio.run(main())
    report()
