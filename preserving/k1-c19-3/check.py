#!/usr/bin/env python
"""Check for property C19 (concurrent requests do not influence one another).

Self-contained: run as  PYTHONPATH=<falcon tree> /venv/bin/python check.py

The harness generates several hundred small apps (routes with fields and
converters, middleware, media handling, error paths), and for every app a set
of 2-3 requests that carry unique tokens in the path, query, headers and body.

  * reference: every request alone on a fresh app (one at a time), plus an
    independent model of what params/token/body each response must report;
  * WSGI: the same requests from racing threads on a fresh (uncompiled) app,
    with randomised preemption forced at line granularity inside
    falcon/routing/compiled.py and the generated find() function;
  * ASGI: the same requests as asyncio tasks that yield to each other at every
    receive/send and at awaits inside middleware/responders;
  * the router alone: racing CompiledRouter.find() calls on a fresh router.

Every concurrent response must be identical to the sequential one.
"""

import asyncio
import datetime
import hashlib
import http
import json
import os
import random
import sys
import threading
import time
import uuid

import falcon
import falcon.asgi
import falcon.media
from falcon.routing import CompiledRouter
import falcon.routing.compiled as compiled_mod
import falcon.testing as testing
from falcon.util import misc as falcon_misc

CHANGE_ID = 3  # which keep-change this check accompanies (selects the extras)

N_APP_CASES = 130  # each one is run sequentially, via WSGI threads and via ASGI
N_ROUTER_CASES = 200

FAILURES = []


def fail(msg):
    FAILURES.append(msg)
    if len(FAILURES) <= 25:
        print('FAIL:', msg)


# --------------------------------------------------------------------------
# Forced preemption inside the router (thread-specific sys.settrace)
# --------------------------------------------------------------------------

_COMPILED_FILE = os.path.abspath(compiled_mod.__file__)


def install_preempting_tracer(seed, prob):
    rng = random.Random(seed)
    rnd = rng.random
    sleep = time.sleep

    def line_tracer(frame, event, arg):
        if event == 'line' and rnd() < prob:
            # Dropping the GIL here lets any other runnable thread in.
            sleep(0 if rnd() < 0.5 else 0.00002)
        return line_tracer

    def tracer(frame, event, arg):
        filename = frame.f_code.co_filename
        if filename == '<string>' or filename == _COMPILED_FILE:
            return line_tracer
        return None

    sys.settrace(tracer)


def run_threads(funcs, seed, prob=0.08):
    """Run the callables in racing threads; returns list of results/exceptions."""
    n = len(funcs)
    barrier = threading.Barrier(n)
    results = [None] * n

    def worker(i):
        install_preempting_tracer(seed * 7919 + i, prob)
        try:
            barrier.wait()
            results[i] = ('ok', funcs[i]())
        except BaseException as ex:  # noqa: B902
            results[i] = ('exc', '%s: %s' % (type(ex).__name__, ex))
        finally:
            sys.settrace(None)

    threads = [threading.Thread(target=worker, args=(i,)) for i in range(n)]
    for t in threads:
        t.start()
    for t in threads:
        t.join(120)
        if t.is_alive():
            fail('thread did not finish (deadlock?) seed=%r' % (seed,))
    return results


# --------------------------------------------------------------------------
# Route catalogue + model of the expected params
# --------------------------------------------------------------------------

_WORD = 'abcdefghijklmnopqrstuvwxyzABCDEFGHIJKLMNOPQRSTUVWXYZ0123456789_'


def _word(rng, lo=1, hi=9):
    return ''.join(rng.choice(_WORD) for _ in range(rng.randint(lo, hi)))


def _gen_static(rng):
    return '/items', {}


def _gen_int(rng):
    n = rng.choice([0, 1, 7, 42, rng.randrange(10**6), rng.randrange(10**12)])
    return '/items/%d' % n, {'item_id': n}


def _gen_name(rng):
    w = _word(rng)
    return '/users/' + w, {'name': w}


def _gen_posts(rng):
    w = _word(rng)
    n = rng.randrange(0, 5000)
    return '/users/%s/posts/%d' % (w, n), {'name': w, 'post_id': n}


def _gen_path(rng):
    segs = [_word(rng, 1, 4) for _ in range(rng.randint(1, 4))]
    return '/files/' + '/'.join(segs), {'p': '/'.join(segs)}


def _gen_ver(rng):
    a, b = rng.randrange(100), rng.randrange(100)
    return '/ver/v%d.%d/thing' % (a, b), {'major': a, 'minor': b}


def _gen_uuid(rng):
    u = uuid.UUID(int=rng.getrandbits(128))
    text = rng.choice([str(u), u.hex, str(u).upper()])
    return '/u/' + text, {'uid': u}


def _gen_dt(rng):
    d = datetime.datetime(rng.randint(1990, 2030), rng.randint(1, 12), rng.randint(1, 28))
    return '/d/' + d.strftime('%Y-%m-%d'), {'when': d}


def _gen_pair(rng):
    a, b = _word(rng, 1, 5).replace('-', ''), _word(rng, 1, 5)
    return '/pair/%s-%s' % (a, b), {'a': a, 'b': b}


def _gen_float(rng):
    x = rng.choice([0.5, 1.25, 3.0, rng.randrange(1000) / 8.0])
    return '/f/%r' % x, {'x': x}


def _gen_deep(rng):
    x, z, w = _word(rng, 1, 4), _word(rng, 1, 4).replace('-', ''), _word(rng, 1, 4)
    y = rng.randrange(1000)
    return (
        '/a/%s/b/%d/c/%s-%s/end' % (x, y, z, w),
        {'x': x, 'y': y, 'z': z, 'w': w},
    )


def _gen_deep_sib(rng):
    x = _word(rng, 1, 4)
    y = rng.randrange(1000)
    return '/a/%s/b/%d/e' % (x, y), {'x': x, 'y': y}


def _gen_deep_k(rng):
    x = _word(rng, 1, 4)
    return '/a/%s/k' % x, {'x': x}


# (tag, template, generator of (path, model params))
ROUTES = [
    ('static', '/items', _gen_static),
    ('int', '/items/{item_id:int}', _gen_int),
    ('name', '/users/{name}', _gen_name),
    ('posts', '/users/{name}/posts/{post_id:int(min=0)}', _gen_posts),
    ('path', '/files/{p:path}', _gen_path),
    ('ver', '/ver/v{major:int}.{minor:int}/thing', _gen_ver),
    ('uuid', '/u/{uid:uuid}', _gen_uuid),
    ('dt', '/d/{when:dt("%Y-%m-%d")}', _gen_dt),
    ('pair', '/pair/{a}-{b}', _gen_pair),
    ('float', '/f/{x:float}', _gen_float),
    ('deep', '/a/{x}/b/{y:int}/c/{z}-{w}/end', _gen_deep),
    ('deepsib', '/a/{x}/b/{y:int}/e', _gen_deep_sib),
    ('deepk', '/a/{x}/k', _gen_deep_k),
]
ROUTE_BY_TAG = {r[0]: r for r in ROUTES}

MISSES = [
    '/nope',
    '/items/abc',
    '/items/12/extra',
    '/users',
    '/users/x/posts/-3',
    '/users/x/posts',
    '/ver/v1.x/thing',
    '/u/not-a-uuid',
    '/d/2020-13-45',
    '/pair/nodash',
    '/a/q/b/notint/e',
    '/a/q/b/1/c/zz/end',
    '/f/abc',
    '/err/abc',
    '//',
]

ERR_CODES = [400, 401, 403, 404, 409, 410, 415, 429, 500, 503, 599, 777]


def model_params(params):
    return {k: repr(v) for k, v in sorted(params.items())}


class Boom(Exception):
    def __init__(self, token):
        super().__init__(token)
        self.token = token


# --------------------------------------------------------------------------
# Request specs
# --------------------------------------------------------------------------

ACCEPTS = [
    None,
    'application/json',
    'text/xml',
    'application/xml;q=0.9, application/json;q=0.1',
    '*/*',
    'text/plain;q=0.5, application/json;q="0.8"',
    'text/html, application/xhtml+xml;q=0.9, */*;q=0.1',
    'application/json; charset="utf-8, x", text/xml;q=0.2',
    'application/x-unknown',
]

STATUS_MODES = [None, 'int', 'enum', 'str', 'odd', 'bytes']
STATUS_EXPECT = {
    None: '200 OK',
    'int': '201 Created',
    'enum': '202 Accepted',
    'str': '203 Non-Authoritative Information',
    'odd': '299 Unknown',
    'bytes': '204 No Content',
}


class Spec(object):
    __slots__ = (
        'kind', 'tag', 'method', 'path', 'params', 'token', 'query', 'headers',
        'body', 'st', 'code', 'ctype', 'payload',
    )


def make_spec(rng, tags, case_seed, idx):
    s = Spec()
    s.token = 'tok-%d-%d-%s' % (case_seed, idx, _word(rng, 4, 8))
    s.params = None
    s.code = None
    s.payload = None
    s.body = b''
    s.ctype = None
    s.method = 'GET'
    s.st = None
    s.tag = None
    roll = rng.random()
    if roll < 0.12:
        s.kind = 'miss'
        s.path = rng.choice(MISSES)
    elif roll < 0.27:
        s.kind = 'err'
        s.code = rng.choice(ERR_CODES)
        s.path = '/err/%d' % s.code
    elif roll < 0.45:
        s.kind = 'media'
        s.path = '/media'
        s.method = 'POST'
        s.payload = {'token': s.token, 'n': rng.randrange(10**6), 'l': [idx, _word(rng)]}
        ct = rng.random()
        if ct < 0.55:
            s.ctype = rng.choice(
                ['application/json', 'application/json; charset=utf-8']
            )
            s.body = json.dumps(s.payload).encode()
        elif ct < 0.7:
            s.ctype = 'application/x-www-form-urlencoded'
            s.body = ('token=%s&n=%d' % (s.token, s.payload['n'])).encode()
            s.payload = {'token': s.token, 'n': str(s.payload['n'])}
        elif ct < 0.85:
            # unsupported media type -> 415
            s.ctype = 'application/x-%s' % rng.choice(['foo', 'bar', s.token])
            s.body = b'payload ' + s.token.encode()
            s.kind = 'unsupported'
        else:
            # malformed JSON -> 400
            s.ctype = 'application/json'
            s.body = b'{"token": "' + s.token.encode() + b'", '
            s.kind = 'badjson'
    else:
        s.kind = 'echo'
        s.tag = rng.choice(tags)
        s.path, s.params = ROUTE_BY_TAG[s.tag][2](rng)
        s.st = rng.choice(STATUS_MODES)
        if rng.random() < 0.25:
            s.method = 'POST'
            s.payload = {'token': s.token, 'k': _word(rng)}
            s.ctype = 'application/json'
            s.body = json.dumps(s.payload).encode()
    q = ['q=' + s.token]
    if s.st:
        q.append('st=' + s.st)
    s.query = '&'.join(q)
    s.headers = [('X-Token', s.token), (rng.choice(['X-Extra', 'x-extra', 'X-EXTRA']), 'e' + s.token)]
    accept = rng.choice(ACCEPTS)
    if accept:
        s.headers.append(('Accept', accept))
    if s.ctype:
        s.headers.append(('Content-Type', s.ctype))
    return s


# --------------------------------------------------------------------------
# WSGI app
# --------------------------------------------------------------------------


def _apply_status(resp, st):
    if st == 'int':
        resp.status = 201
    elif st == 'enum':
        resp.status = http.HTTPStatus.ACCEPTED
    elif st == 'str':
        resp.status = '203 Non-Authoritative Information'
    elif st == 'odd':
        resp.status = 299
    elif st == 'bytes':
        resp.status = b'204 No Content'


def _echo_doc(tag, req, params, body):
    return {
        'tag': tag,
        'params': model_params(params),
        'token': req.get_header('X-Token'),
        'extra': req.get_header('X-Extra'),
        'ctx': getattr(req.context, 'token', None),
        'q': req.get_param('q'),
        'path': req.path,
        'template': req.uri_template,
        'body': body,
        'prefers': req.client_prefers(['application/json', 'text/xml', 'text/plain']),
    }


class WEcho(object):
    def __init__(self, tag):
        self.tag = tag

    def on_get(self, req, resp, **params):
        resp.media = _echo_doc(self.tag, req, params, None)
        resp.set_header('X-Echo-Token', req.get_header('x-token'))
        _apply_status(resp, req.get_param('st'))

    def on_post(self, req, resp, **params):
        resp.media = _echo_doc(self.tag, req, params, req.get_media())
        resp.set_header('X-Echo-Token', req.get_header('x-token'))
        _apply_status(resp, req.get_param('st'))


class WErr(object):
    def on_get(self, req, resp, code):
        token = req.get_header('X-Token')
        if code == 599:
            raise Boom(token)
        if code == 404:
            raise falcon.HTTPNotFound(description='nf ' + token)
        if code == 415:
            raise falcon.HTTPUnsupportedMediaType(description='um ' + token)
        raise falcon.HTTPError(code, title='T' + str(code), description='d ' + token)


class WMiddleware(object):
    def process_request(self, req, resp):
        req.context.token = req.get_header('X-Token')

    def process_resource(self, req, resp, resource, params):
        req.context.seen = model_params(params)

    def process_response(self, req, resp, resource, req_succeeded):
        resp.set_header('X-MW-Token', str(getattr(req.context, 'token', None)))
        resp.set_header('X-MW-Seen', json.dumps(getattr(req.context, 'seen', None)))
        resp.set_header('X-MW-OK', str(req_succeeded))


def _handle_boom(req, resp, ex, params):
    resp.status = '799 Boom Boom'
    resp.media = {'boom': ex.token, 'params': model_params(params)}


def choose_tags(rng):
    tags = [r[0] for r in ROUTES]
    rng.shuffle(tags)
    return tags[: rng.randint(4, len(tags))]


def build_wsgi_app(case_seed):
    rng = random.Random(case_seed)
    tags = choose_tags(rng)
    use_mw = rng.random() < 0.8
    app = falcon.App(middleware=[WMiddleware()] if use_mw else None)
    entries = [(ROUTE_BY_TAG[t][1], WEcho(t)) for t in tags]
    entries.append(('/err/{code:int}', WErr()))
    entries.append(('/media', WEcho('media')))
    rng.shuffle(entries)
    for template, resource in entries:
        app.add_route(template, resource)
    app.add_error_handler(Boom, _handle_boom)
    return app, tags


def call_wsgi(app, spec):
    env = testing.create_environ(
        path=spec.path,
        query_string=spec.query,
        method=spec.method,
        headers=dict(spec.headers),
        body=spec.body,
    )
    captured = {}

    def start_response(status, headers, exc_info=None):
        captured['status'] = status
        captured['headers'] = sorted((k.lower(), v) for k, v in headers)

    iterable = app(env, start_response)
    body = b''.join(iterable)
    return captured.get('status'), tuple(captured.get('headers', ())), body


# --------------------------------------------------------------------------
# ASGI app
# --------------------------------------------------------------------------


async def _yield(rng, n=3):
    for _ in range(rng.randrange(n)):
        await asyncio.sleep(0)


def _req_rng(req, salt):
    return random.Random('%s|%s' % (req.get_header('X-Token'), salt))


class AEcho(object):
    def __init__(self, tag):
        self.tag = tag

    async def on_get(self, req, resp, **params):
        rng = _req_rng(req, 'g')
        await _yield(rng)
        doc = _echo_doc(self.tag, req, params, None)
        await _yield(rng)
        resp.media = doc
        resp.set_header('X-Echo-Token', req.get_header('x-token'))
        await _yield(rng)
        _apply_status(resp, req.get_param('st'))

    async def on_post(self, req, resp, **params):
        rng = _req_rng(req, 'p')
        await _yield(rng)
        body = await req.get_media()
        await _yield(rng)
        resp.media = _echo_doc(self.tag, req, params, body)
        resp.set_header('X-Echo-Token', req.get_header('x-token'))
        await _yield(rng)
        _apply_status(resp, req.get_param('st'))


class AErr(object):
    async def on_get(self, req, resp, code):
        await _yield(_req_rng(req, 'e'))
        WErr.on_get(self, req, resp, code)


class AMiddleware(object):
    async def process_request(self, req, resp):
        await _yield(_req_rng(req, 'm1'))
        req.context.token = req.get_header('X-Token')

    async def process_resource(self, req, resp, resource, params):
        await _yield(_req_rng(req, 'm2'))
        req.context.seen = model_params(params)

    async def process_response(self, req, resp, resource, req_succeeded):
        await _yield(_req_rng(req, 'm3'))
        WMiddleware.process_response(self, req, resp, resource, req_succeeded)


async def _ahandle_boom(req, resp, ex, params):
    await _yield(_req_rng(req, 'b'))
    _handle_boom(req, resp, ex, params)


def build_asgi_app(case_seed):
    rng = random.Random(case_seed)
    tags = choose_tags(rng)
    use_mw = rng.random() < 0.8
    app = falcon.asgi.App(middleware=[AMiddleware()] if use_mw else None)
    entries = [(ROUTE_BY_TAG[t][1], AEcho(t)) for t in tags]
    entries.append(('/err/{code:int}', AErr()))
    entries.append(('/media', AEcho('media')))
    rng.shuffle(entries)
    for template, resource in entries:
        app.add_route(template, resource)
    app.add_error_handler(Boom, _ahandle_boom)
    return app, tags


async def call_asgi(app, spec, sched_seed):
    rng = random.Random(sched_seed)
    scope = testing.create_scope(
        path=spec.path,
        query_string=spec.query,
        method=spec.method,
        headers=list(spec.headers),
        content_length=len(spec.body) if spec.body else None,
    )
    body = spec.body
    if body:
        ncuts = rng.randint(0, 3)
        cuts = sorted(rng.randrange(len(body) + 1) for _ in range(ncuts))
        chunks = [body[a:b] for a, b in zip([0] + cuts, cuts + [len(body)])]
    else:
        chunks = [b'']
    state = {'i': 0}
    events = []

    async def receive():
        await _yield(rng, 4)
        i = state['i']
        if i < len(chunks):
            state['i'] = i + 1
            return {
                'type': 'http.request',
                'body': chunks[i],
                'more_body': i < len(chunks) - 1,
            }
        await asyncio.sleep(0.001)
        return {'type': 'http.disconnect'}

    async def send(event):
        await _yield(rng, 4)
        events.append(event)
        await _yield(rng, 2)

    await app(scope, receive, send)

    status = None
    headers = ()
    out = b''
    for ev in events:
        if ev['type'] == 'http.response.start':
            if status is not None:
                return ('double-start', (), b'')
            status = ev['status']
            headers = tuple(
                sorted((k.decode('latin1').lower(), v.decode('latin1')) for k, v in ev['headers'])
            )
        elif ev['type'] == 'http.response.body':
            out += ev.get('body', b'')
    return status, headers, out


# --------------------------------------------------------------------------
# Independent model of what a response must say
# --------------------------------------------------------------------------


def status_code_of(status):
    if isinstance(status, int):
        return status
    return int(status.split(' ', 1)[0])


def _loads(where, body):
    try:
        doc = json.loads(body)
    except ValueError:
        doc = None
    if not isinstance(doc, dict):
        fail('%s: response body is not a JSON object: %r' % (where, body[:80]))
        return None
    return doc


def check_against_model(where, spec, tags, result, use_status_line):
    status, headers, body = result
    if status is None:
        fail('%s: no response for %s' % (where, spec.path))
        return
    code = status_code_of(status)
    hdrs = dict(headers)
    # No other request's token may appear anywhere in the response.
    blob = body + repr(headers).encode()
    for piece in blob.split(b'tok-')[1:]:
        seen = b'tok-' + piece[: len(spec.token) - 4]
        if seen != spec.token.encode():
            fail('%s: foreign token %r in response to %s' % (where, seen, spec.token))
            return
    if 'x-mw-token' in hdrs and hdrs['x-mw-token'] != spec.token:
        fail('%s: middleware token mismatch' % where)
    if spec.kind == 'miss':
        if code != 404:
            fail('%s: expected 404 for %s, got %r' % (where, spec.path, status))
        return
    if spec.kind == 'err':
        want = {599: 799}.get(spec.code, spec.code)
        if code != want:
            fail('%s: expected %d for %s, got %r' % (where, want, spec.path, status))
        if spec.code == 599:
            doc = _loads(where, body)
            if doc != {'boom': spec.token, 'params': {'code': '599'}}:
                fail('%s: bad boom doc %r' % (where, doc))
        return
    if spec.kind == 'unsupported':
        if code != 415:
            fail('%s: expected 415, got %r' % (where, status))
        elif body and 'json' in hdrs.get('content-type', ''):
            doc = _loads(where, body) or {}
            want = '%s is an unsupported media type.' % spec.ctype
            if doc.get('description') != want:
                fail('%s: 415 description %r != %r' % (where, doc.get('description'), want))
        return
    if spec.kind == 'badjson':
        if code != 400:
            fail('%s: expected 400, got %r' % (where, status))
        return
    # echo / media
    if spec.kind == 'echo' and spec.tag not in tags:
        if code != 404:
            fail('%s: route %s not mounted, expected 404 got %r' % (where, spec.tag, status))
        return
    want_status = STATUS_EXPECT[spec.st]
    if (status != want_status) if use_status_line else (code != status_code_of(want_status)):
        fail('%s: %s: status %r != %r' % (where, spec.path, status, want_status))
        return
    if hdrs.get('x-echo-token') != spec.token:
        fail('%s: echo token header %r != %r' % (where, hdrs.get('x-echo-token'), spec.token))
    if code == 204:
        return
    doc = _loads(where, body)
    if doc is None:
        return
    tag = 'media' if spec.kind == 'media' else spec.tag
    template = '/media' if spec.kind == 'media' else ROUTE_BY_TAG[tag][1]
    want = {
        'tag': tag,
        'params': model_params(spec.params or {}),
        'token': spec.token,
        'extra': 'e' + spec.token,
        'q': spec.token,
        'path': spec.path,
        'template': template,
        'body': spec.payload,
    }
    for k, v in want.items():
        if doc.get(k) != v:
            fail('%s: %s: field %s = %r, model says %r' % (where, spec.path, k, doc.get(k), v))
    if 'x-mw-seen' in hdrs and json.loads(hdrs['x-mw-seen']) != want['params']:
        fail('%s: middleware saw params %r' % (where, hdrs['x-mw-seen']))
    if 'x-mw-token' in hdrs and doc.get('ctx') != spec.token:
        fail('%s: ctx %r' % (where, doc.get('ctx')))


# --------------------------------------------------------------------------
# App-level cases
# --------------------------------------------------------------------------


def make_specs(case_seed, tags):
    rng = random.Random(case_seed * 1000003 + 17)
    n = rng.choice([2, 3, 3])
    all_tags = [r[0] for r in ROUTES]
    # mostly mounted routes, occasionally one that this app does not mount
    specs = []
    for i in range(n):
        pool = tags if rng.random() < 0.9 else all_tags
        specs.append(make_spec(rng, pool, case_seed, i))
    return specs


def run_wsgi_case(case_seed):
    app, tags = build_wsgi_app(case_seed)
    specs = make_specs(case_seed, tags)
    # Reference: each request alone on its own fresh app, then all of them one
    # at a time on one app in two different orders (must agree: stateless app).
    expected = []
    for spec in specs:
        ref_app, _ = build_wsgi_app(case_seed)
        expected.append(call_wsgi(ref_app, spec))
    for order in (list(range(len(specs))), list(reversed(range(len(specs))))):
        ref_app, _ = build_wsgi_app(case_seed)
        for i in order:
            got = call_wsgi(ref_app, specs[i])
            if got != expected[i]:
                fail('wsgi seq order-dependence seed=%d %s' % (case_seed, specs[i].path))
    for spec, exp in zip(specs, expected):
        check_against_model('wsgi-seq seed=%d' % case_seed, spec, tags, exp, True)

    # Concurrent: racing threads on a fresh app; in 3 of 4 cases all of the
    # requests are first-ever requests racing for the lazy compilation.
    if case_seed % 4 == 3:
        call_wsgi(app, specs[0])
    funcs = [(lambda s=spec: call_wsgi(app, s)) for spec in specs]
    results = run_threads(funcs, case_seed)
    for spec, exp, res in zip(specs, expected, results):
        if res is None or res[0] != 'ok':
            fail('wsgi concurrent request failed seed=%d %s: %r' % (case_seed, spec.path, res))
            continue
        if res[1] != exp:
            fail(
                'wsgi concurrent != sequential seed=%d %s:\n   got %r\n   exp %r'
                % (case_seed, spec.path, res[1], exp)
            )
    return len(specs)


async def run_asgi_case(case_seed):
    app, tags = build_asgi_app(case_seed)
    specs = make_specs(case_seed, tags)
    expected = []
    for i, spec in enumerate(specs):
        ref_app, _ = build_asgi_app(case_seed)
        expected.append(await call_asgi(ref_app, spec, case_seed * 31 + i))
    ref_app, _ = build_asgi_app(case_seed)
    for i in reversed(range(len(specs))):
        got = await call_asgi(ref_app, specs[i], case_seed * 37 + i)
        if got != expected[i]:
            fail('asgi seq order-dependence seed=%d %s' % (case_seed, specs[i].path))
    for spec, exp in zip(specs, expected):
        check_against_model('asgi-seq seed=%d' % case_seed, spec, tags, exp, False)

    if case_seed % 4 == 3:
        await call_asgi(app, specs[0], case_seed)
    for attempt in range(2):  # two different task interleavings
        coros = [
            call_asgi(app, spec, case_seed * 41 + i * 7 + attempt * 1009)
            for i, spec in enumerate(specs)
        ]
        results = await asyncio.gather(*coros, return_exceptions=True)
        for spec, exp, res in zip(specs, expected, results):
            if isinstance(res, BaseException):
                fail('asgi concurrent request failed seed=%d %s: %r' % (case_seed, spec.path, res))
            elif res != exp:
                fail(
                    'asgi concurrent != sequential seed=%d %s:\n   got %r\n   exp %r'
                    % (case_seed, spec.path, res, exp)
                )
    return len(specs)


# --------------------------------------------------------------------------
# Router-level cases (CompiledRouter.find racing on a never-compiled router)
# --------------------------------------------------------------------------


class RouterResource(object):
    def __init__(self, tag):
        self.tag = tag

    def on_get(self, req, resp, **kw):
        pass


def build_router(case_seed):
    rng = random.Random(case_seed * 13 + 5)
    tags = choose_tags(rng)
    rng.shuffle(tags)
    router = CompiledRouter()
    resources = {}
    for t in tags:
        resources[t] = RouterResource(t)
        router.add_route(ROUTE_BY_TAG[t][1], resources[t])
    return router, tags, resources


def router_queries(case_seed, tags):
    rng = random.Random(case_seed * 17 + 3)
    queries = []
    for _ in range(rng.choice([2, 3, 3])):
        if rng.random() < 0.2:
            queries.append((rng.choice(MISSES), None, None))
        else:
            t = rng.choice(tags)
            path, params = ROUTE_BY_TAG[t][2](rng)
            queries.append((path, t, params))
    return queries


def check_find_result(where, res, query, resources):
    path, tag, params = query
    if tag is None:
        if res is not None:
            fail('%s: find(%r) should be None, got %r' % (where, path, res))
        return
    if res is None:
        fail('%s: find(%r) returned None, expected route %s' % (where, path, tag))
        return
    resource, method_map, got_params, template = res
    if resource is not resources[tag]:
        fail('%s: find(%r) wrong resource' % (where, path))
    if got_params != params or [type(v) for v in got_params.values()] != [
        type(params[k]) for k in got_params
    ]:
        fail('%s: find(%r) params %r, model %r' % (where, path, got_params, params))
    if template != ROUTE_BY_TAG[tag][1]:
        fail('%s: find(%r) template %r' % (where, path, template))
    if not isinstance(method_map, dict) or 'GET' not in method_map:
        fail('%s: find(%r) method_map %r' % (where, path, method_map))


def run_router_case(case_seed):
    router, tags, resources = build_router(case_seed)
    queries = router_queries(case_seed, tags)
    # sequential reference on another fresh router
    ref_router, _, ref_resources = build_router(case_seed)
    for q in queries:
        check_find_result('router-seq seed=%d' % case_seed, ref_router.find(q[0]), q, ref_resources)
    if case_seed % 5 == 4:
        router.find('/warm')
    funcs = [(lambda p=q[0]: router.find(p)) for q in queries]
    results = run_threads(funcs, case_seed + 5000, prob=0.12)
    for q, res in zip(queries, results):
        if res is None or res[0] != 'ok':
            fail('router concurrent find failed seed=%d %r: %r' % (case_seed, q[0], res))
            continue
        check_find_result('router-conc seed=%d' % case_seed, res[1], q, resources)
    # each call must get its own params dict
    okres = [r[1] for r in results if r and r[0] == 'ok' and r[1] is not None]
    ids = [id(r[2]) for r in okres]
    if len(set(ids)) != len(ids):
        fail('router: params dict shared between calls seed=%d' % case_seed)
    if router.finder_src != ref_router.finder_src:
        fail('router: finder_src differs from sequentially compiled one seed=%d' % case_seed)
    return len(queries)


# --------------------------------------------------------------------------
# Extras specific to the accompanying change
# --------------------------------------------------------------------------


def _model_code_to_http_status(status):
    """Reference model: the pre-change implementation, written with .format()."""
    import falcon.status_codes as status_codes

    if isinstance(status, http.HTTPStatus):
        return '{} {}'.format(status.value, status.phrase)
    if isinstance(status, str) and ' ' in status:
        return status
    if isinstance(status, bytes) and b' ' in status:
        return status.decode()
    try:
        code = int(status)
    except (ValueError, TypeError):
        raise ValueError('{!r} is not a valid status code'.format(status))
    if not 100 <= code <= 999:
        raise ValueError('{!r} is not a valid status code'.format(status))
    try:
        return getattr(status_codes, 'HTTP_' + str(code))
    except AttributeError:
        return '{} {}'.format(code, 'Unknown')


class SpamConverter(falcon.routing.BaseConverter):
    def __init__(self, *args, **kwargs):
        self.args = args
        self.kwargs = kwargs

    def convert(self, value):
        return (value, self.args, tuple(sorted(self.kwargs.items())))


# (template, [(path, expected params or None)])
CONVERTER_CASES = [
    ('/i/{x:int(2)}', [('/i/12', {'x': 12}), ('/i/123', None), ('/i/1', None)]),
    ('/i/{x:int(min=5, max=9)}', [('/i/5', {'x': 5}), ('/i/4', None), ('/i/10', None)]),
    ('/i/{x:int(3, min=100)}', [('/i/100', {'x': 100}), ('/i/099', None)]),
    ('/i/{x:int(num_digits=1)}', [('/i/7', {'x': 7}), ('/i/77', None)]),
    (
        '/d/{d:dt("%Y%m%d")}',
        [('/d/20200229', {'d': datetime.datetime(2020, 2, 29)}), ('/d/2020-02-29', None)],
    ),
    (
        "/d/{d:dt('%d.%m.%Y')}",
        [('/d/01.02.2003', {'d': datetime.datetime(2003, 2, 1)}), ('/d/2003', None)],
    ),
    ('/f/{x:float(min=0.5)}', [('/f/0.5', {'x': 0.5}), ('/f/0.25', None)]),
    ('/f/{x:float(max=2, finite=True)}', [('/f/1.5', {'x': 1.5}), ('/f/nan', None), ('/f/3', None)]),
    (
        '/s/{x:spam("a, b", n=3)}',
        [('/s/v', {'x': ('v', ('a, b',), (('n', 3),))})],
    ),
    ('/s/{x:spam()}', [('/s/w', {'x': ('w', (), ())})]),
    ('/s/{x:spam(1, 2.5, None, k=(1, 2))}', [('/s/w', {'x': ('w', (1, 2.5, None), (('k', (1, 2)),))})]),
    (
        '/c/{a:int(1)}-{b:spam("q", r=\'s\')}',
        [('/c/3-z', {'a': 3, 'b': ('z', ('q',), (('r', 's'),))}), ('/c/33-z', None)],
    ),
]

STATUS_INPUTS = (
    list(range(95, 135))
    + list(range(195, 215))
    + [299, 399, 404, 418, 451, 499, 500, 511, 599, 600, 799, 999, 1000, -200, 0]
    + list(http.HTTPStatus)[:25]
    + ['200', '200 OK', '201 Created', '99', '1000', 'abc', '', ' ', '12 3', '404 Nope', '3e2', ' 200']
    + [b'200', b'200 OK', b'404 Not Found', b'abc', b'', b'99', b' 7']
    + [404.0, 200.9, True, None]
)


def extras():
    """Change 3 turns str.format() calls into f-strings in the lru-cached
    code_to_http_status(), in the cached media handler resolver and in
    CompiledRouter._instantiate_converter(); all of their outputs (including
    error texts) must stay identical, also when hit from racing threads."""
    n = 0
    # (a) status lines, > 64 distinct keys so that the LRU keeps evicting
    expected = []
    for st in STATUS_INPUTS:
        try:
            expected.append(('ok', _model_code_to_http_status(st)))
        except ValueError as ex:
            expected.append(('ValueError', str(ex)))

    def status_worker(order):
        out = {}
        for i in order:
            st = STATUS_INPUTS[i]
            try:
                out[i] = ('ok', falcon.code_to_http_status(st))
            except ValueError as ex:
                out[i] = ('ValueError', str(ex))
        return out

    for rnd in range(6):
        orders = []
        for t in range(3):
            order = list(range(len(STATUS_INPUTS)))
            random.Random(rnd * 10 + t).shuffle(order)
            orders.append(order)
        results = run_threads([(lambda o=o: status_worker(o)) for o in orders], 31000 + rnd)
        for res in results:
            if res is None or res[0] != 'ok':
                fail('extras3: status worker failed: %r' % (res,))
                continue
            for i, got in res[1].items():
                n += 1
                if got != expected[i] or type(got[1]) is not str:
                    fail('extras3: code_to_http_status(%r) = %r, model %r' % (STATUS_INPUTS[i], got, expected[i]))

    # (b) media handler resolution
    for rnd in range(40):
        rng = random.Random(rnd + 77)
        handlers = falcon.media.Handlers()
        types = [
            rng.choice(['application/x-%s' % _word(rng), 'text/%s' % _word(rng), _word(rng), 'a/b;c="d"'])
            for _ in range(3)
        ] + ['application/json', 'application/json; charset=utf-8', '*/*', None, '']

        def resolve_worker(order):
            out = []
            for mt in order:
                try:
                    h = handlers._resolve(mt, 'application/json')[0]
                    out.append((mt, 'handler', type(h).__name__))
                except falcon.HTTPUnsupportedMediaType as ex:
                    out.append((mt, ex.status, ex.title, ex.description))
                none = handlers._resolve(mt, 'application/json', raise_not_found=False)
                out.append((mt, 'nf', none[0] is None))
            return out

        orders = [rng.sample(types, len(types)) for _ in range(3)]
        results = run_threads([(lambda o=o: resolve_worker(o)) for o in orders], 32000 + rnd)
        for order, res in zip(orders, results):
            if res is None or res[0] != 'ok':
                fail('extras3: resolve worker failed: %r' % (res,))
                continue
            want = []
            for mt in order:
                if mt in ('application/json', 'application/json; charset=utf-8', '*/*', None, ''):
                    want.append((mt, 'handler', 'JSONHandler'))
                    want.append((mt, 'nf', False))
                else:
                    want.append((mt, '415 Unsupported Media Type', None, None))
                    want.append((mt, 'nf', True))
            for got, w in zip(res[1], want):
                n += 1
                if len(got) == 4:
                    exp_desc = '{0} is an unsupported media type.'.format(got[0])
                    if w[1] != got[1] or got[3] != exp_desc or type(got[3]) is not str:
                        fail('extras3: resolve(%r) -> %r' % (got[0], got))
                elif got != w:
                    fail('extras3: resolve(%r) -> %r, want %r' % (got[0], got, w))

    # (c) converters instantiated from their argument strings at compile time
    for rnd in range(40):
        rng = random.Random(rnd + 99)
        cases = rng.sample(CONVERTER_CASES, len(CONVERTER_CASES))

        def build():
            router = CompiledRouter()
            router.options.converters['spam'] = SpamConverter
            seen = set()
            mounted = []
            for template, probes in cases:
                prefix = template.split('{')[0]
                if prefix in seen:
                    continue  # one template per literal prefix (no conflicts)
                seen.add(prefix)
                router.add_route(template, RouterResource(template))
                mounted.append((template, probes))
            return router, mounted

        router, mounted = build()
        probes = [(t, p, e) for t, pr in mounted for p, e in pr]
        rng.shuffle(probes)
        thirds = [probes[0::3], probes[1::3], probes[2::3]]

        def find_worker(items):
            out = []
            for t, p, e in items:
                res = router.find(p)
                out.append(None if res is None else (res[3], res[2]))
            return out

        results = run_threads([(lambda it=it: find_worker(it)) for it in thirds], 33000 + rnd, prob=0.1)
        for items, res in zip(thirds, results):
            if res is None or res[0] != 'ok':
                fail('extras3: converter find worker failed: %r' % (res,))
                continue
            for (t, p, e), got in zip(items, res[1]):
                n += 1
                want = None if e is None else (t, e)
                if got != want:
                    fail('extras3: find(%r) on %r = %r, model %r' % (p, t, got, want))
    return n


# --------------------------------------------------------------------------


def main():
    sys.setswitchinterval(1e-5)
    t0 = time.time()
    n = 0
    for seed in range(N_ROUTER_CASES):
        n += run_router_case(seed)
    n_router = n
    for seed in range(N_APP_CASES):
        n += run_wsgi_case(seed)
    n_wsgi = n - n_router

    async def all_asgi():
        m = 0
        for seed in range(N_APP_CASES):
            m += await run_asgi_case(seed)
        return m

    n_asgi = asyncio.run(all_asgi())
    n_extra = extras()
    print(
        'router calls: %d, wsgi requests: %d, asgi requests: %d (x2 schedules), '
        'extra cases: %d, %.1fs' % (n_router, n_wsgi, n_asgi, n_extra, time.time() - t0)
    )
    if FAILURES:
        print('FAILED: %d failure(s)' % len(FAILURES))
        sys.exit(1)
    print('PASS')


if __name__ == '__main__':
    main()
