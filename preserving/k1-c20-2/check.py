"""Property C20 check: the built-in CORS policy grants exactly the configured origins.

Run as:  PYTHONPATH=<falcon tree> /venv/bin/python check.py

The program compares falcon's CORS behaviour against a small reference model
(``model()`` below, transcribed from the policy of the unmodified tree) over
several thousand generated cases:

  A. constructor normalisation of allow_origins / allow_credentials /
     expose_headers (incl. the wildcard-inside-iterable rejections);
  B. CORSMiddleware.process_response / process_response_async called directly
     on WSGI and ASGI request/response objects (random configs, origins,
     methods, preflight headers, pre-set response headers, outcome flags);
  C. end-to-end requests against WSGI and ASGI apps (routed resources, custom
     OPTIONS responders, failing responders, sinks, static routes, unrouted
     paths) with a recording middleware placed before/after the CORS component;
  D. the ``cors_enable`` wiring (all accepted shapes of ``middleware=``) and
     the duplicate-CORSMiddleware guard;
  E. the unsafe cells of the decision table, asserted directly (no wildcard
     with credentials, no grant without/for a disallowed Origin, no preflight
     approval unless succeeded + OPTIONS + Allow, Allow removed on preflight).

Prints PASS and exits 0 when everything matches.
"""

import asyncio
import itertools
import os
import random
import shutil
import sys
import tempfile

import falcon
import falcon.asgi
from falcon import testing
from falcon.middleware import CORSMiddleware

ACAO = 'access-control-allow-origin'
ACAC = 'access-control-allow-credentials'
ACEH = 'access-control-expose-headers'
ACAM = 'access-control-allow-methods'
ACAH = 'access-control-allow-headers'
ACMA = 'access-control-max-age'
ALLOW = 'allow'
CORS_KEYS = (ACAO, ACAC, ACEH, ACAM, ACAH, ACMA, ALLOW)

FAILURES = []
COUNTS = {}


def fail(msg):
    FAILURES.append(msg)
    if len(FAILURES) > 25:
        finish()


def count(section, n=1):
    COUNTS[section] = COUNTS.get(section, 0) + n


def finish():
    if FAILURES:
        for f in FAILURES[:25]:
            print('FAIL:', f)
        print('FAILED (%d failures)' % len(FAILURES))
        sys.exit(1)
    print('cases:', ', '.join('%s=%d' % kv for kv in sorted(COUNTS.items())))
    print('PASS')
    sys.exit(0)


# ---------------------------------------------------------------------------
# Reference model
# ---------------------------------------------------------------------------


def as_set(value):
    """Model of the origin-set normalisation (value is not '*' / None)."""
    if isinstance(value, str):
        return frozenset([value])
    return frozenset(value)


def model(cfg, origin, method, acrm, acrh, succeeded, pre):
    """Return the expected (ordered) header dict after the CORS policy ran.

    cfg is the raw (allow_origins, allow_credentials, expose_headers) triple as
    passed to the constructor; ``pre`` is the lower-cased header dict before.
    """
    allow_origins, allow_credentials, expose_headers = cfg
    h = dict(pre)
    if origin is None:
        return h
    wildcard = allow_origins == '*'
    if not wildcard and origin not in as_set(allow_origins):
        return h

    if ACAO not in h:
        if allow_credentials is None:
            cred = False
        elif allow_credentials == '*':
            cred = True
        else:
            cred = origin in as_set(allow_credentials)
        if cred:
            h[ACAC] = 'true'
            h[ACAO] = origin
        else:
            h[ACAO] = '*' if wildcard else origin

    if expose_headers is not None and not isinstance(expose_headers, str):
        expose_headers = ', '.join(expose_headers)
    if expose_headers:
        h[ACEH] = expose_headers

    if succeeded and method == 'OPTIONS' and acrm:
        allow = h.pop(ALLOW, None)
        if allow is None:
            for k in (ACAM, ACAH, ACMA, ACEH, ACAO, ACAC):
                h.pop(k, None)
        else:
            h[ACAM] = allow
            h[ACAH] = '*' if acrh is None else acrh
            h[ACMA] = '86400'
    return h


def check_invariants(tag, cfg, origin, method, acrm, succeeded, pre, post):
    """Section E: the unsafe cells, asserted without going through model()."""
    allow_origins, allow_credentials, _ = cfg
    wildcard = allow_origins == '*'
    allowed = origin is not None and (wildcard or origin in as_set(allow_origins))
    preset = ACAO in pre
    if not allowed:
        if post != pre:
            fail('%s: response touched although origin %r is not allowed' % (tag, origin))
        return
    is_preflight = bool(succeeded and method == 'OPTIONS' and acrm)
    if is_preflight and ALLOW in post:
        fail('%s: Allow header survived a preflight' % tag)
    if is_preflight and ALLOW not in pre:
        for k in (ACAO, ACAC, ACEH, ACAM, ACAH, ACMA):
            if k in post:
                fail('%s: %s granted on a preflight without Allow' % (tag, k))
        return
    if not is_preflight:
        for k in (ACAM, ACAH, ACMA):
            if post.get(k) != pre.get(k):
                fail('%s: %s changed outside of a preflight' % (tag, k))
        if post.get(ALLOW) != pre.get(ALLOW):
            fail('%s: Allow changed outside of a preflight' % tag)
    if not preset:
        if post.get(ACAO) not in ('*', origin):
            fail('%s: ACAO %r is neither wildcard nor the origin' % (tag, post.get(ACAO)))
        if post.get(ACAO) == '*' and not wildcard:
            fail('%s: wildcard ACAO for a non-wildcard config' % tag)
        if ACAC in post and ACAC not in pre:
            if post[ACAO] != origin or (post[ACAO] == '*' and origin != '*'):
                fail('%s: credentials granted together with ACAO %r' % (tag, post[ACAO]))
            if allow_credentials is None:
                fail('%s: credentials granted although none configured' % tag)
            elif allow_credentials != '*' and origin not in as_set(allow_credentials):
                fail('%s: credentials granted to unconfigured origin %r' % (tag, origin))
        creds_expected = allow_credentials == '*' or (
            allow_credentials is not None and origin in as_set(allow_credentials)
        )
        if creds_expected and post.get(ACAC) != 'true':
            fail('%s: credentials missing for configured origin %r' % (tag, origin))
    else:
        if post.get(ACAO) != pre.get(ACAO) or post.get(ACAC) != pre.get(ACAC):
            fail('%s: responder-provided ACAO/ACAC were overridden' % tag)


# ---------------------------------------------------------------------------
# Inputs
# ---------------------------------------------------------------------------

A = 'https://a.example'
B = 'https://b.example'
C = 'http://c.example:8080'
ORIGIN_POOL = [
    None, A, B, C, 'https://A.example', 'HTTPS://a.example', A + '/', A + '.', 'x' + A,
    'https://evil.example', 'null', '', '*', 'https://a.example.evil.com', 'a.example',
]

CONFIGS = [
    ('*', None, None),
    ('*', '*', None),
    ('*', A, 'X-One'),
    ('*', [A, B], ['X-One', 'X-Two']),
    ('*', (), ''),
    ('*', frozenset(), []),
    (A, None, None),
    (A, '*', 'X-One, X-Two'),
    (A, A, ('X-One',)),
    (A, B, None),
    ([A, B], None, None),
    ([A, B], '*', ['X-One']),
    ([A, B], [B], None),
    ((A, B, C), {A, C}, {'X-One'}),
    ({A}, [B, 'https://evil.example'], None),
    (frozenset([A, B]), (b for b in [B]), (x for x in ['X-G1', 'X-G2'])),
    ([], '*', None),
    ((), [A], 'X-One'),
    (['', A], [''], None),
    ('', '*', None),
    (['null'], ['null'], None),
    ('https://A.example', 'https://A.example', None),
]


def materialize(cfg):
    """Generators can be consumed only once: make reusable copies."""
    out = []
    for v in cfg:
        if v is None or isinstance(v, (str, list, tuple, set, frozenset)):
            out.append(v)
        else:
            out.append(list(v))
    return tuple(out)


CONFIGS = [materialize(c) for c in CONFIGS]


def variants(cfg):
    """Yield constructor-argument shapes that must be equivalent to cfg."""
    ao, ac, eh = cfg
    yield ao, ac, eh
    if not isinstance(ao, str):
        yield iter(list(ao)), ac, eh
        yield set(ao), ac, eh
    if ac is not None and not isinstance(ac, str):
        yield ao, iter(list(ac)), eh
        yield ao, tuple(ac), eh
    if eh is not None and not isinstance(eh, str) and not isinstance(eh, (set, frozenset)):
        yield ao, ac, iter(list(eh))


# ---------------------------------------------------------------------------
# A. constructor normalisation
# ---------------------------------------------------------------------------


def section_a():
    for cfg in CONFIGS:
        for ao, ac, eh in variants(cfg):
            cm = CORSMiddleware(allow_origins=ao, allow_credentials=ac, expose_headers=eh)
            count('A')
            rao, rac, reh = cfg
            if rao == '*':
                ok = cm.allow_origins == '*' and isinstance(cm.allow_origins, str)
            else:
                ok = isinstance(cm.allow_origins, frozenset) and cm.allow_origins == as_set(rao)
            if not ok:
                fail('A: allow_origins %r -> %r' % (rao, cm.allow_origins))
            if rac is None:
                ok = isinstance(cm.allow_credentials, frozenset) and not cm.allow_credentials
            elif rac == '*':
                ok = cm.allow_credentials == '*' and isinstance(cm.allow_credentials, str)
            else:
                ok = isinstance(cm.allow_credentials, frozenset) and cm.allow_credentials == as_set(rac)
            if not ok:
                fail('A: allow_credentials %r -> %r' % (rac, cm.allow_credentials))
            if reh is None:
                ok = cm.expose_headers is None
            elif isinstance(reh, str):
                ok = cm.expose_headers == reh
            else:
                ok = cm.expose_headers == ', '.join(reh)
            if not ok:
                fail('A: expose_headers %r -> %r' % (reh, cm.expose_headers))

    # defaults
    cm = CORSMiddleware()
    if cm.allow_origins != '*' or cm.allow_credentials != frozenset() or cm.expose_headers is not None:
        fail('A: defaults changed')
    # positional order
    cm = CORSMiddleware(A, 'X-One', B)
    if cm.allow_origins != frozenset([A]) or cm.expose_headers != 'X-One' or cm.allow_credentials != frozenset([B]):
        fail('A: positional parameter order changed')

    # wildcard inside an iterable is rejected, for every container shape
    bad_shapes = [['*'], ('*',), {'*'}, frozenset(['*']), [A, '*'], ['*', A], (A, B, '*')]
    for shape in bad_shapes + [iter(['*', A])]:
        count('A')
        try:
            CORSMiddleware(allow_origins=shape)
        except ValueError as ex:
            text = str(ex)
            if 'allow_origins' not in text or '"*"' not in text or type(ex) is not ValueError:
                fail('A: unexpected ValueError text/type for allow_origins: %r' % text)
        else:
            fail('A: allow_origins=%r accepted' % (shape,))
    for shape in bad_shapes + [None]:
        for ao in ('*', A, [A, B]):
            count('A')
            if shape is None:
                shape = iter([A, '*'])  # one-shot iterator, fresh per use
            try:
                CORSMiddleware(allow_origins=ao, allow_credentials=shape)
            except ValueError as ex:
                text = str(ex)
                if 'allow_credentials' not in text or '"*"' not in text or type(ex) is not ValueError:
                    fail('A: unexpected ValueError text/type for allow_credentials: %r' % text)
            else:
                fail('A: allow_credentials=%r accepted' % (shape,))
            if not isinstance(shape, (list, tuple, set, frozenset)):
                shape = None
    # both bad: allow_origins is diagnosed first
    try:
        CORSMiddleware(allow_origins=['*'], allow_credentials=['*'])
    except ValueError as ex:
        if 'allow_origins' not in str(ex):
            fail('A: allow_origins should be diagnosed before allow_credentials')
    else:
        fail('A: double wildcard-in-iterable accepted')
    # non-iterable / unhashable garbage keeps raising TypeError
    for kw in (
        {'allow_origins': None},
        {'allow_origins': 5},
        {'allow_origins': [[A]]},
        {'allow_credentials': 5},
        {'allow_credentials': [[A]]},
        {'expose_headers': 5},
        {'expose_headers': [1, 2]},
    ):
        count('A')
        try:
            CORSMiddleware(**kw)
        except TypeError:
            pass
        except Exception as ex:  # pragma: no cover
            fail('A: %r raised %r instead of TypeError' % (kw, ex))
        else:
            fail('A: %r accepted' % (kw,))
    # repr()/str() never fail and never mutate the instance
    cm = CORSMiddleware([A, B], ['X-One'], [B])
    before = (cm.allow_origins, cm.expose_headers, cm.allow_credentials)
    if not isinstance(repr(cm), str) or not isinstance(str(cm), str):
        fail('A: repr() is not a str')
    if before != (cm.allow_origins, cm.expose_headers, cm.allow_credentials):
        fail('A: repr() mutated the instance')


# ---------------------------------------------------------------------------
# B. direct process_response calls
# ---------------------------------------------------------------------------

PRESET_POOL = [
    {},
    {},
    {},
    {ALLOW: 'GET, POST'},
    {ALLOW: 'GET'},
    {ALLOW: ''},
    {'content-length': '0', ALLOW: 'GET, POST, OPTIONS'},
    {ACAO: 'https://preset.example'},
    {ACAO: '*', ACAC: 'true'},
    {ACAO: 'https://preset.example', ALLOW: 'PUT'},
    {ACAC: 'true'},
    {ACEH: 'X-Pre'},
    {ACAM: 'PRE', ACAH: 'X-Pre', ACMA: '1'},
    {ACAM: 'PRE', ACAH: 'X-Pre', ACMA: '1', ACEH: 'X-Pre', ACAO: 'pre', ACAC: 'true'},
    {ACAM: 'PRE', ACAH: 'X-Pre', ACMA: '1', ACEH: 'X-Pre', ACAO: 'pre', ACAC: 'true', ALLOW: 'GET'},
    {'x-other': 'kept', 'vary': 'Origin'},
]
METHOD_POOL = ['GET', 'POST', 'OPTIONS', 'OPTIONS', 'OPTIONS', 'DELETE', 'HEAD', 'PATCH', 'options']
ACRM_POOL = [None, 'GET', 'POST', 'DELETE', '', 'get', 'NOPE']
ACRH_POOL = [None, None, 'X-A', 'X-A, X-B', 'content-type', '', '*']


def make_req(asgi, method, origin, acrm, acrh, header_case):
    headers = {}

    def name(n):
        if header_case == 0:
            return n
        if header_case == 1:
            return n.lower()
        return n.upper()

    if origin is not None:
        headers[name('Origin')] = origin
    if acrm is not None:
        headers[name('Access-Control-Request-Method')] = acrm
    if acrh is not None:
        headers[name('Access-Control-Request-Headers')] = acrh
    headers['X-Unrelated'] = 'yes'
    # NOTE: the testing helpers upper-case nothing; lower-case method 'options'
    #   is a distinct (non-preflight) method for the policy.
    if asgi:
        req = testing.create_asgi_req(path='/x', headers=headers)
        req.method = method
        return req
    req = testing.create_req(path='/x', headers=headers)
    req.method = method
    return req


def make_resp(asgi, preset):
    resp = falcon.asgi.Response() if asgi else falcon.Response()
    for k, v in preset.items():
        # mixed-case names must be normalised by Response itself
        resp.set_header(k.title(), v)
    return resp


def run_direct(cm, mode, req, resp, resource, succeeded):
    if mode == 'sync':
        out = cm.process_response(req, resp, resource, succeeded)
    else:
        out = asyncio.run(cm.process_response_async(req, resp, resource, succeeded))
    if out is not None:
        fail('B: process_response returned %r' % (out,))


def section_b(rng):
    instances = []
    for cfg in CONFIGS:
        ao, ac, eh = cfg
        instances.append((cfg, CORSMiddleware(allow_origins=ao, allow_credentials=ac, expose_headers=eh)))

    def one(cfg, cm, asgi, mode, method, origin, acrm, acrh, succeeded, preset, hc):
        req = make_req(asgi, method, origin, acrm, acrh, hc)
        resp = make_resp(asgi, preset)
        pre = dict(resp.headers)
        state = (cm.allow_origins, cm.allow_credentials, cm.expose_headers)
        run_direct(cm, mode, req, resp, object(), succeeded)
        post = dict(resp.headers)
        expected = model(cfg, origin, method, acrm, acrh, succeeded, pre)
        tag = 'B[%s/%s cfg=%r origin=%r %s acrm=%r acrh=%r ok=%r pre=%r]' % (
            'asgi' if asgi else 'wsgi', mode, cfg, origin, method, acrm, acrh, succeeded, pre)
        if list(post.items()) != list(expected.items()):
            fail('%s: got %r, expected %r' % (tag, post, expected))
        check_invariants(tag, cfg, origin, method, acrm, succeeded, pre, post)
        if state != (cm.allow_origins, cm.allow_credentials, cm.expose_headers):
            fail('%s: middleware state mutated' % tag)
        if resp.status != falcon.HTTP_200 and resp.status != 200:
            fail('%s: status changed to %r' % (tag, resp.status))
        count('B')

    # exhaustive-ish core table (sync, both flavours)
    for cfg, cm in instances:
        for asgi in (False, True):
            for origin in (None, A, B, 'https://A.example', 'https://evil.example', ''):
                for method, acrm in (('GET', None), ('OPTIONS', None), ('OPTIONS', 'GET'),
                                     ('OPTIONS', ''), ('POST', 'GET')):
                    for succeeded in (True, False):
                        for preset in ({}, {ALLOW: 'GET, POST'}, {ACAO: 'pre', ACAC: 'true'}):
                            one(cfg, cm, asgi, 'sync', method, origin, acrm,
                                None, succeeded, preset, 0)

    # random histories: the same middleware instance is reused across many
    # interleaved requests (no state may leak between them)
    for i in range(2500):
        cfg, cm = rng.choice(instances)
        one(
            cfg, cm,
            asgi=rng.random() < 0.5,
            mode='async' if rng.random() < 0.15 else 'sync',
            method=rng.choice(METHOD_POOL),
            origin=rng.choice(ORIGIN_POOL),
            acrm=rng.choice(ACRM_POOL),
            acrh=rng.choice(ACRH_POOL),
            succeeded=rng.random() < 0.7,
            preset=rng.choice(PRESET_POOL),
            hc=rng.randrange(3),
        )

    # req_succeeded passed as truthy / falsy non-bools and by keyword
    cfg, cm = instances[1]
    for succeeded in (1, 0, 'yes', '', None, [0], []):
        req = make_req(False, 'OPTIONS', A, 'GET', 'X-A', 0)
        resp = make_resp(False, {ALLOW: 'GET'})
        pre = dict(resp.headers)
        cm.process_response(req=req, resp=resp, resource=None, req_succeeded=succeeded)
        expected = model(cfg, A, 'OPTIONS', 'GET', 'X-A', succeeded, pre)
        if list(resp.headers.items()) != list(expected.items()):
            fail('B: keyword call with req_succeeded=%r: %r != %r' % (succeeded, resp.headers, expected))
        count('B')

    # public attributes reassigned after construction take effect immediately
    # (nothing may be cached in a way that could go stale)
    cm = CORSMiddleware()
    steps = [
        ('allow_origins', frozenset([A]), (A, None, None)),
        ('allow_credentials', '*', (A, '*', None)),
        ('expose_headers', 'X-Late', (A, '*', 'X-Late')),
        ('allow_origins', '*', ('*', '*', 'X-Late')),
        ('allow_credentials', frozenset([B]), ('*', [B], 'X-Late')),
        ('expose_headers', None, ('*', [B], None)),
        ('allow_origins', frozenset([B, C]), ([B, C], [B], None)),
        ('allow_credentials', frozenset(), ([B, C], None, None)),
    ]
    for attr, value, cfg in steps:
        setattr(cm, attr, value)
        for origin in (None, A, B, C, 'https://evil.example'):
            for method, acrm, preset in (('GET', None, {}), ('OPTIONS', 'GET', {ALLOW: 'GET'}),
                                         ('OPTIONS', 'GET', {})):
                for asgi in (False, True):
                    req = make_req(asgi, method, origin, acrm, None, 0)
                    resp = make_resp(asgi, preset)
                    pre = dict(resp.headers)
                    cm.process_response(req, resp, None, True)
                    expected = model(cfg, origin, method, acrm, None, True, pre)
                    if list(resp.headers.items()) != list(expected.items()):
                        fail('B: after %s=%r origin=%r %s: %r != %r' % (
                            attr, value, origin, method, resp.headers, expected))
                    count('B')


# ---------------------------------------------------------------------------
# C. end-to-end
# ---------------------------------------------------------------------------


class Recorder:
    """Snapshots what the *next* process_response in line will see / has left."""

    def __init__(self):
        self.log = []

    def process_response(self, req, resp, resource, req_succeeded):
        self.log.append((dict(resp.headers), req_succeeded))

    async def process_response_async(self, req, resp, resource, req_succeeded):
        self.log.append((dict(resp.headers), req_succeeded))


def build_resources(asgi):
    def both(fn):
        if not asgi:
            return fn

        async def wrapper(self, req, resp, **kw):
            fn(self, req, resp, **kw)

        return wrapper

    class Plain:
        @both
        def on_get(self, req, resp):
            resp.text = 'hello'

        @both
        def on_post(self, req, resp):
            resp.status = falcon.HTTP_201

    class OptionsNoAllow:
        @both
        def on_get(self, req, resp):
            resp.text = 'x'

        @both
        def on_options(self, req, resp):
            resp.set_header('Content-Length', '0')

    class OptionsAllow:
        @both
        def on_options(self, req, resp):
            resp.set_header('Allow', 'GET, PATCH')
            resp.status = falcon.HTTP_204

    class PresetOrigin:
        @both
        def on_get(self, req, resp):
            resp.set_header('Access-Control-Allow-Origin', 'https://preset.example')

        @both
        def on_options(self, req, resp):
            resp.set_header('Access-Control-Allow-Origin', 'https://preset.example')
            resp.set_header('Allow', 'GET')

    class PresetEverything:
        def _fill(self, resp):
            resp.set_header('Access-Control-Allow-Origin', '*')
            resp.set_header('Access-Control-Allow-Credentials', 'true')
            resp.set_header('Access-Control-Allow-Methods', 'PRE')
            resp.set_header('Access-Control-Allow-Headers', 'X-Pre')
            resp.set_header('Access-Control-Max-Age', '5')
            resp.set_header('Access-Control-Expose-Headers', 'X-Pre')

        @both
        def on_get(self, req, resp):
            self._fill(resp)

        @both
        def on_options(self, req, resp):
            self._fill(resp)  # and no Allow header

    class Failing:
        @both
        def on_get(self, req, resp):
            raise falcon.HTTPBadRequest(title='nope')

        @both
        def on_options(self, req, resp):
            resp.set_header('Allow', 'GET')
            raise falcon.HTTPForbidden()

    class Exploding:
        @both
        def on_get(self, req, resp):
            raise RuntimeError('boom')

        @both
        def on_options(self, req, resp):
            resp.set_header('Allow', 'GET')
            raise RuntimeError('boom')

    def sink_sync(req, resp, **kw):
        if 'allow' in req.path:
            resp.set_header('Allow', 'GET, PUT')
        if 'fail' in req.path:
            raise falcon.HTTPConflict()
        resp.text = 'sunk'

    async def sink_async(req, resp, **kw):
        sink_sync(req, resp, **kw)

    return {
        '/plain': Plain(),
        '/noallow': OptionsNoAllow(),
        '/allow': OptionsAllow(),
        '/preset': PresetOrigin(),
        '/preset_all': PresetEverything(),
        '/failing': Failing(),
        '/exploding': Exploding(),
    }, (sink_async if asgi else sink_sync)


PATHS = [
    '/plain', '/plain', '/noallow', '/allow', '/preset', '/preset_all', '/failing',
    '/exploding', '/sink/allow', '/sink/plain', '/sink/allow/fail', '/static/file.txt',
    '/static/missing.txt', '/unrouted',
]


def quiet_handler(req, resp, ex, params):
    raise falcon.HTTPInternalServerError()


async def quiet_handler_async(req, resp, ex, params):
    raise falcon.HTTPInternalServerError()


def build_app(asgi, cfg, layout, static_dir):
    """layout: 'cm-first' -> [cm, rec]  (rec sees the pre-CORS response)
               'cm-last'  -> [rec, cm]  (rec sees the post-CORS response)
               'enable'   -> cors_enable=True, middleware=rec (cfg must be default)
    """
    cls = falcon.asgi.App if asgi else falcon.App
    rec = Recorder()
    if layout == 'enable':
        app = cls(cors_enable=True, middleware=rec)
    else:
        ao, ac, eh = cfg
        cm = CORSMiddleware(allow_origins=ao, allow_credentials=ac, expose_headers=eh)
        app = cls(middleware=[cm, rec] if layout == 'cm-first' else [rec, cm])
    resources, sink = build_resources(asgi)
    for path, res in resources.items():
        app.add_route(path, res)
    app.add_sink(sink, '/sink')
    app.add_static_route('/static', static_dir)
    app.add_error_handler(RuntimeError, quiet_handler_async if asgi else quiet_handler)
    return app, rec


def section_c(rng, static_dir):
    e2e_cfgs = [CONFIGS[i] for i in (0, 1, 3, 6, 7, 9, 11, 12, 13, 16)]
    apps = []
    for asgi in (False, True):
        for cfg in e2e_cfgs:
            for layout in ('cm-first', 'cm-last'):
                app, rec = build_app(asgi, cfg, layout, static_dir)
                apps.append((asgi, cfg, layout, testing.TestClient(app), rec))
        app, rec = build_app(asgi, ('*', None, None), 'enable', static_dir)
        # with cors_enable the CORS component is appended last, i.e. its
        # process_response runs first and the recorder sees the final headers
        apps.append((asgi, ('*', None, None), 'cm-last', testing.TestClient(app), rec))

    def one(entry, path, method, origin, acrm, acrh):
        asgi, cfg, layout, client, rec = entry
        headers = {}
        if origin is not None:
            headers['Origin'] = origin
        if acrm is not None:
            headers['Access-Control-Request-Method'] = acrm
        if acrh is not None:
            headers['Access-Control-Request-Headers'] = acrh
        del rec.log[:]
        result = client.simulate_request(method, path, headers=headers)
        tag = 'C[%s %s cfg=%r %s %s origin=%r acrm=%r acrh=%r]' % (
            'asgi' if asgi else 'wsgi', layout, cfg, method, path, origin, acrm, acrh)
        if len(rec.log) != 1:
            fail('%s: recorder saw %d process_response calls' % (tag, len(rec.log)))
            return
        seen, succeeded = rec.log[0]
        final = dict(result.headers.lower_items())
        final_cors = {k: final[k] for k in CORS_KEYS if k in final}
        seen_cors = {k: seen[k] for k in CORS_KEYS if k in seen}
        if layout == 'cm-first':
            expected = model(cfg, origin, method, acrm, acrh, succeeded, seen)
            exp_cors = {k: expected[k] for k in CORS_KEYS if k in expected}
            if final_cors != exp_cors:
                fail('%s: final %r, expected %r (pre %r, ok=%r)' % (
                    tag, final_cors, exp_cors, seen_cors, succeeded))
            # no other header may be touched
            for k, v in seen.items():
                if k not in CORS_KEYS and final.get(k) != v:
                    fail('%s: unrelated header %s changed' % (tag, k))
            check_invariants(tag, cfg, origin, method, acrm, succeeded, seen_cors, final_cors)
        else:
            if final_cors != seen_cors:
                fail('%s: recorder after CORS saw %r but final is %r' % (tag, seen_cors, final_cors))
            # property-level expectations that need no knowledge of the pre state
            allowed = origin is not None and (cfg[0] == '*' or origin in as_set(cfg[0]))
            responder_presets = path.startswith('/preset')
            if not allowed and not responder_presets:
                for k in (ACAO, ACAC, ACEH, ACAM, ACAH, ACMA):
                    if k in final:
                        fail('%s: %s present although origin not allowed' % (tag, k))
            if allowed and not responder_presets and ACAC in final:
                if final.get(ACAO) != origin:
                    fail('%s: credentials with ACAO %r' % (tag, final.get(ACAO)))
            if ACAM in final and not responder_presets:
                if not (allowed and succeeded and method == 'OPTIONS' and acrm):
                    fail('%s: preflight approved unexpectedly' % tag)
                if ALLOW in final:
                    fail('%s: Allow kept on approved preflight' % tag)
        count('C')
        return final_cors, succeeded, result.status_code

    # hard-coded expectations taken from the unmodified tree (default config,
    # cors_enable=True), for both flavours
    for entry in apps:
        asgi, cfg, layout, client, rec = entry
        if cfg != ('*', None, None) or layout != 'cm-last':
            continue
        table = [
            (('/plain', 'GET', A, None, None), ({ACAO: '*'}, True, 200)),
            (('/plain', 'GET', None, None, None), ({}, True, 200)),
            (('/plain', 'OPTIONS', None, 'GET', None), ({ALLOW: 'GET, POST'}, True, 200)),
            (('/plain', 'OPTIONS', A, None, None), ({ACAO: '*', ALLOW: 'GET, POST'}, True, 200)),
            (('/plain', 'OPTIONS', A, 'GET', None),
             ({ACAO: '*', ACAM: 'GET, POST', ACAH: '*', ACMA: '86400'}, True, 200)),
            (('/plain', 'OPTIONS', A, 'POST', 'X-A, X-B'),
             ({ACAO: '*', ACAM: 'GET, POST', ACAH: 'X-A, X-B', ACMA: '86400'}, True, 200)),
            (('/plain', 'DELETE', A, None, None), ({ACAO: '*', ALLOW: 'GET, POST, OPTIONS'}, False, 405)),
            (('/noallow', 'OPTIONS', A, 'GET', None), ({}, True, 200)),
            (('/allow', 'OPTIONS', A, 'GET', None),
             ({ACAO: '*', ACAM: 'GET, PATCH', ACAH: '*', ACMA: '86400'}, True, 204)),
            (('/preset', 'GET', A, None, None), ({ACAO: 'https://preset.example'}, True, 200)),
            (('/preset_all', 'OPTIONS', A, 'GET', None), ({}, True, 200)),
            (('/failing', 'OPTIONS', A, 'GET', None), ({ACAO: '*', ALLOW: 'GET'}, False, 403)),
            (('/failing', 'GET', A, None, None), ({ACAO: '*'}, False, 400)),
            (('/exploding', 'OPTIONS', A, 'GET', None), ({ACAO: '*', ALLOW: 'GET'}, False, 500)),
            (('/sink/allow', 'OPTIONS', A, 'PUT', None),
             ({ACAO: '*', ACAM: 'GET, PUT', ACAH: '*', ACMA: '86400'}, True, 200)),
            (('/sink/plain', 'OPTIONS', A, 'PUT', None), ({}, True, 200)),
            (('/sink/allow/fail', 'OPTIONS', A, 'PUT', None), ({ACAO: '*', ALLOW: 'GET, PUT'}, False, 409)),
            (('/static/file.txt', 'OPTIONS', A, 'GET', None),
             ({ACAO: '*', ACAM: 'GET', ACAH: '*', ACMA: '86400'}, True, 200)),
            (('/static/file.txt', 'GET', A, None, None), ({ACAO: '*'}, True, 200)),
            (('/static/missing.txt', 'GET', A, None, None), ({ACAO: '*'}, False, 404)),
            (('/unrouted', 'OPTIONS', A, 'GET', None), ({ACAO: '*'}, False, 404)),
            (('/unrouted', 'GET', None, None, None), ({}, False, 404)),
        ]
        for args, want in table:
            got = one(entry, *args)
            if got != want:
                fail('C[hard-coded %s %r]: got %r, want %r' % ('asgi' if asgi else 'wsgi', args, got, want))

    for i in range(900):
        entry = rng.choice(apps)
        one(
            entry,
            rng.choice(PATHS),
            rng.choice(['GET', 'POST', 'OPTIONS', 'OPTIONS', 'OPTIONS', 'DELETE', 'HEAD']),
            rng.choice([None, A, A, B, C, 'https://A.example', 'https://evil.example', 'null']),
            rng.choice([None, 'GET', 'GET', 'PUT', '']),
            rng.choice([None, None, 'X-A, X-B', 'content-type']),
        )


# ---------------------------------------------------------------------------
# D. cors_enable wiring and duplicate guard
# ---------------------------------------------------------------------------


class Dummy:
    def process_request(self, req, resp):
        pass

    async def process_request_async(self, req, resp):
        pass


def section_d():
    for cls in (falcon.App, falcon.asgi.App):
        d1, d2 = Dummy(), Dummy()
        shapes = [
            (None, []),
            (d1, [d1]),
            ([d1], [d1]),
            ([d1, d2], [d1, d2]),
            ((d1, d2), [d1, d2]),
            (iter([d2, d1]), [d2, d1]),
            ((m for m in [d1]), [d1]),
            ([], []),
            ((), []),
        ]
        for mw, others in shapes:
            count('D')
            app = cls(cors_enable=True, middleware=mw)
            um = app._unprepared_middleware
            if um[:-1] != others or not isinstance(um[-1], CORSMiddleware):
                fail('D: %s cors_enable middleware=%r -> %r' % (cls.__module__, mw, um))
                continue
            cm = um[-1]
            if cm.allow_origins != '*' or cm.allow_credentials != frozenset() or cm.expose_headers is not None:
                fail('D: cors_enable does not use the default (wildcard, no credentials) policy')
            # more middleware may be added later, but never a second CORSMiddleware
            app.add_middleware(Dummy())
            app.add_middleware([Dummy(), Dummy()])
            app.add_middleware(None)
            app.add_middleware([])
            for extra in (CORSMiddleware(), [CORSMiddleware()], [Dummy(), CORSMiddleware(A)],
                          (CORSMiddleware(),), iter([CORSMiddleware()])):
                n = len(app._unprepared_middleware)
                try:
                    app.add_middleware(extra)
                except ValueError as ex:
                    if 'CORSMiddleware' not in str(ex) or 'cors_enable' not in str(ex):
                        fail('D: unexpected guard message %r' % str(ex))
                    if type(ex) is not ValueError:
                        fail('D: guard raised %r' % type(ex))
                else:
                    fail('D: second CORSMiddleware accepted with cors_enable')
                if len(app._unprepared_middleware) != n:
                    fail('D: rejected middleware was registered anyway')
            if sum(isinstance(m, CORSMiddleware) for m in app._unprepared_middleware) != 1:
                fail('D: not exactly one CORSMiddleware after rejected additions')

        # passing an instance alongside cors_enable is rejected up front
        for mw in (CORSMiddleware(), [CORSMiddleware()], [Dummy(), CORSMiddleware(), Dummy()],
                   (CORSMiddleware(A),)):
            count('D')
            try:
                cls(cors_enable=True, middleware=mw)
            except ValueError as ex:
                if 'CORSMiddleware' not in str(ex) or 'cors_enable' not in str(ex):
                    fail('D: unexpected guard message %r' % str(ex))
            else:
                fail('D: cors_enable + explicit CORSMiddleware accepted')

        # without cors_enable any number of instances is fine (no guard)
        count('D')
        app = cls(middleware=[CORSMiddleware(A), CORSMiddleware(B)])
        app.add_middleware(CORSMiddleware())
        if sum(isinstance(m, CORSMiddleware) for m in app._unprepared_middleware) != 3:
            fail('D: explicit instances without cors_enable were dropped')
        app = cls()
        if any(isinstance(m, CORSMiddleware) for m in app._unprepared_middleware):
            fail('D: CORS active although cors_enable is False')

        # a subclass instance also counts as a duplicate
        class Sub(CORSMiddleware):
            pass

        count('D')
        try:
            cls(cors_enable=True, middleware=[Sub()])
        except ValueError:
            pass
        else:
            fail('D: CORSMiddleware subclass not caught by the guard')


# ---------------------------------------------------------------------------
# F. Allow header sources
# ---------------------------------------------------------------------------


def section_f(static_dir):
    from falcon import responders
    from falcon.routing.static import StaticRoute, StaticRouteAsync

    for methods in (['GET'], ['GET', 'POST'], ('PUT', 'DELETE', 'OPTIONS'), [], iter(['GET', 'HEAD'])):
        methods_l = list(methods)
        want = ', '.join(methods_l)
        count('F')
        fn = responders.create_default_options(methods_l)
        resp = falcon.Response()
        fn(testing.create_req(method='OPTIONS'), resp)
        if resp.get_header('Allow') != want or resp.get_header('Content-Length') != '0' \
                or resp.status not in (falcon.HTTP_200, 200):
            fail('F: default OPTIONS responder for %r -> %r' % (methods_l, resp.headers))
        afn = responders.create_default_options(methods_l, asgi=True)
        aresp = falcon.asgi.Response()
        asyncio.run(afn(testing.create_asgi_req(method='OPTIONS'), aresp))
        if aresp.get_header('Allow') != want or aresp.get_header('Content-Length') != '0':
            fail('F: default async OPTIONS responder for %r -> %r' % (methods_l, aresp.headers))

    for downloadable in (False, True):
        count('F')
        sr = StaticRoute('/static', static_dir, downloadable=downloadable)
        resp = falcon.Response()
        sr(testing.create_req(method='OPTIONS', path='/static/file.txt'), resp)
        if resp.headers != {'allow': 'GET', 'content-length': '0'} or resp.stream is not None:
            fail('F: static OPTIONS -> %r' % (resp.headers,))
        resp = falcon.Response()
        sr(testing.create_req(method='GET', path='/static/file.txt'), resp)
        if 'allow' in resp.headers or resp.stream is None:
            fail('F: static GET -> %r' % (resp.headers,))
        resp.stream.close()
        sra = StaticRouteAsync('/static', static_dir, downloadable=downloadable)
        aresp = falcon.asgi.Response()
        asyncio.run(sra(testing.create_asgi_req(method='OPTIONS', path='/static/file.txt'), aresp))
        if aresp.headers != {'allow': 'GET', 'content-length': '0'} or aresp.stream is not None:
            fail('F: async static OPTIONS -> %r' % (aresp.headers,))


def extra_checks():
    """Change 2 (performance: attributes/wildcard test read once, lazy ACRH lookup).

    * histories where the public policy attributes are reassigned between
      requests, to every container type a user might plausibly assign;
    * a subclass exposing the attributes as (changing) properties;
    * request objects whose Access-Control-Request-Headers lookup is observed;
    * one instance shared by several threads.
    """
    import threading

    rng = random.Random(2)
    cm = CORSMiddleware()
    cfg = ['*', None, None]

    def rand_origins():
        items = rng.sample([A, B, C, 'null', ''], rng.randrange(0, 4))
        shape = rng.choice([list, tuple, set, frozenset])
        return shape(items), items

    for i in range(1500):
        count('X2')
        r = rng.random()
        if r < 0.10:
            cm.allow_origins = '*'
            cfg[0] = '*'
        elif r < 0.25:
            cm.allow_origins, cfg[0] = rand_origins()
        elif r < 0.32:
            cm.allow_credentials = '*'
            cfg[1] = '*'
        elif r < 0.45:
            cm.allow_credentials, cfg[1] = rand_origins()
        elif r < 0.50:
            cm.allow_credentials = frozenset()
            cfg[1] = None
        elif r < 0.58:
            v = rng.choice([None, '', 'X-One', 'X-One, X-Two'])
            cm.expose_headers = v
            cfg[2] = v
        asgi = rng.random() < 0.5
        method = rng.choice(['GET', 'OPTIONS', 'OPTIONS', 'POST'])
        origin = rng.choice([None, A, B, C, 'null', '', 'https://evil.example', '*'])
        acrm = rng.choice([None, 'GET', ''])
        acrh = rng.choice([None, 'X-A', ''])
        succeeded = rng.random() < 0.75
        preset = rng.choice(PRESET_POOL)
        req = make_req(asgi, method, origin, acrm, acrh, rng.randrange(3))
        resp = make_resp(asgi, preset)
        pre = dict(resp.headers)
        run_direct(cm, 'async' if rng.random() < 0.1 else 'sync', req, resp, None, succeeded)
        expected = model(tuple(cfg), origin, method, acrm, acrh, succeeded, pre)
        if list(resp.headers.items()) != list(expected.items()):
            fail('X2: cfg=%r origin=%r %s acrm=%r ok=%r pre=%r: %r != %r' % (
                cfg, origin, method, acrm, succeeded, pre, dict(resp.headers), expected))
        check_invariants('X2', tuple(cfg), origin, method, acrm, succeeded, pre, dict(resp.headers))

    # attributes served by properties of a subclass
    class Dynamic(CORSMiddleware):
        current = ('*', frozenset(), None)
        allow_origins = property(lambda self: self.current[0], lambda self, v: None)
        allow_credentials = property(lambda self: self.current[1], lambda self, v: None)
        expose_headers = property(lambda self: self.current[2], lambda self, v: None)

    dyn = Dynamic()
    for cfg2 in CONFIGS:
        ao, ac, eh = cfg2
        ref = CORSMiddleware(ao, eh, ac)
        Dynamic.current = (ref.allow_origins, ref.allow_credentials, ref.expose_headers)
        for origin in (None, A, B, 'https://evil.example'):
            for method, acrm, preset in (('GET', None, {}), ('OPTIONS', 'GET', {ALLOW: 'GET'}),
                                         ('OPTIONS', 'GET', {}), ('OPTIONS', 'GET', {ACAO: 'pre'})):
                count('X2')
                req = make_req(False, method, origin, acrm, 'X-A', 0)
                resp = make_resp(False, preset)
                pre = dict(resp.headers)
                dyn.process_response(req, resp, None, True)
                expected = model(cfg2, origin, method, acrm, 'X-A', True, pre)
                if list(resp.headers.items()) != list(expected.items()):
                    fail('X2: property-backed cfg=%r origin=%r: %r != %r' % (
                        cfg2, origin, dict(resp.headers), expected))

    # the ACRH value that is echoed is the one the request reports, whatever
    # the number of lookups; and a request type with a "noisy" get_header gets
    # the same answer
    class NoisyReq(falcon.Request):
        def get_header(self, name, required=False, default=None):
            self.context.setdefault('seen', []).append(name.lower())
            return super().get_header(name, required=required, default=default)

    cm2 = CORSMiddleware(allow_origins=[A], allow_credentials=[A], expose_headers='X-One')
    for preset, acrh in itertools.product(({}, {ALLOW: 'GET, PUT'}), (None, '', 'X-A, X-B')):
        count('X2')
        headers = {'Origin': A, 'Access-Control-Request-Method': 'PUT'}
        if acrh is not None:
            headers['Access-Control-Request-Headers'] = acrh
        req = NoisyReq(testing.create_environ(method='OPTIONS', headers=headers))
        resp = make_resp(False, preset)
        pre = dict(resp.headers)
        cm2.process_response(req, resp, None, True)
        expected = model(([A], [A], 'X-One'), A, 'OPTIONS', 'PUT', acrh, True, pre)
        if list(resp.headers.items()) != list(expected.items()):
            fail('X2: noisy request preset=%r acrh=%r: %r != %r' % (
                preset, acrh, dict(resp.headers), expected))
        seen = req.context['seen']
        if seen[:2] != ['origin', 'access-control-request-method']:
            fail('X2: unexpected header lookups %r' % seen)
        if preset and 'access-control-request-headers' not in seen:
            fail('X2: approved preflight did not consult Access-Control-Request-Headers')

    # shared instance, several threads
    shared_cfg = ([A, B], [B], ['X-One'])
    shared = CORSMiddleware(allow_origins=shared_cfg[0], allow_credentials=shared_cfg[1],
                            expose_headers=shared_cfg[2])
    errors = []

    def worker(seed):
        r = random.Random(seed)
        for _ in range(250):
            asgi = r.random() < 0.5
            method = r.choice(['GET', 'OPTIONS'])
            origin = r.choice([None, A, B, C])
            acrm = r.choice([None, 'GET'])
            preset = r.choice(PRESET_POOL)
            succeeded = r.random() < 0.8
            req = make_req(asgi, method, origin, acrm, None, 0)
            resp = make_resp(asgi, preset)
            pre = dict(resp.headers)
            shared.process_response(req, resp, None, succeeded)
            expected = model(shared_cfg, origin, method, acrm, None, succeeded, pre)
            if list(resp.headers.items()) != list(expected.items()):
                errors.append((origin, method, acrm, pre, dict(resp.headers), expected))

    threads = [threading.Thread(target=worker, args=(s,)) for s in range(4)]
    for t in threads:
        t.start()
    for t in threads:
        t.join()
    count('X2', 1000)
    for e in errors[:3]:
        fail('X2: threaded mismatch %r' % (e,))


def main():
    rng = random.Random(20200)
    static_dir = tempfile.mkdtemp(prefix='c20_static_')
    try:
        with open(os.path.join(static_dir, 'file.txt'), 'w') as f:
            f.write('static content')
        section_a()
        section_b(rng)
        section_c(rng, static_dir)
        section_d()
        section_f(static_dir)
        extra_checks()
    finally:
        shutil.rmtree(static_dir, ignore_errors=True)
    finish()


if __name__ == '__main__':
    main()
