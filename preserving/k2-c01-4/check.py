#!/usr/bin/env python
# check.py for change 4: kind 8 (additive, inert): CompiledRouterNode.__repr__.
"""Property C01 check: the compiled router resolves every path exactly as a
plain depth-first walk of the URI-template tree dictates.

Run as:  PYTHONPATH=<falcon tree> /venv/bin/python check.py

The program drives falcon.routing.CompiledRouter through seeded random
histories of add_route calls (accepted and rejected, with and without
compile=True, on a WSGI-style and an ASGI-style router) interleaved with
lookups, and compares

  (a) every add_route outcome (accepted / rejected + message) and every
      lookup result (resource identity, uri_template, params) with an
      independent reference model (a tiny interpreter that walks the template
      tree depth first: literal < multi-field < single-field, backtracking,
      converters may veto, trailing path converter swallows the rest), and
  (b) a digest of all outcomes, lookup results and generated finder sources
      with the value recorded on the UNMODIFIED tree (EXPECTED_DIGEST).

Prints PASS and exits 0 when everything agrees.
"""

import copy
import datetime
import hashlib
import itertools
import keyword
import math
import random
import re
import sys
import threading
import uuid

import falcon
from falcon.routing import CompiledRouter
from falcon.routing.compiled import CompiledRouterNode
from falcon.routing.compiled import UnacceptableRouteError

EXPECTED_DIGEST = 'f3a08d1bedef1e52f3dbea6370eba123fae175258161caa18be002fde3d08b7c'

# ---------------------------------------------------------------------------
# Reference model
# ---------------------------------------------------------------------------

FIELD = re.compile(
    r'{((?P<fname>[^}:]*)((?P<cname_sep>:(?P<cname>[^}\(]*))(\((?P<argstr>[^}]*)\))?)?)}'
)
IDENT = re.compile(r'[A-Za-z_][A-Za-z0-9_]*\Z')

STATIC, COMPLEX, SIMPLE = 0, 1, 2


def conv_int(num_digits=None, lo=None, hi=None):
    def convert(value):
        if num_digits is not None and len(value) != num_digits:
            return None
        if value.strip() != value:
            return None
        try:
            n = int(value)
        except ValueError:
            return None
        if lo is not None and n < lo:
            return None
        if hi is not None and n > hi:
            return None
        return n

    return convert


def conv_float(finite=True):
    def convert(value):
        if value.strip() != value:
            return None
        try:
            f = float(value)
        except ValueError:
            return None
        if finite and not math.isfinite(f):
            return None
        return f

    return convert


def conv_uuid(value):
    try:
        return uuid.UUID(value)
    except ValueError:
        return None


def conv_dt(fmt):
    def convert(value):
        try:
            return datetime.datetime.strptime(value, fmt)
        except ValueError:
            return None

    return convert


# (converter name, argstr) -> converter function, 'PATH', or 'BAD' (cannot be
# instantiated).  Names that are not listed at all are unknown converters.
CONVERTERS = {
    ('int', None): conv_int(),
    ('int', '2'): conv_int(2),
    ('int', 'num_digits=3'): conv_int(3),
    ('int', 'min=1, max=50'): conv_int(None, 1, 50),
    ('int', '0'): 'BAD',
    ('int', 'nope=1'): 'BAD',
    ('float', None): conv_float(),
    ('float', 'finite=False'): conv_float(False),
    ('uuid', None): conv_uuid,
    ('dt', '"%Y-%m-%d"'): conv_dt('%Y-%m-%d'),
    ('path', None): 'PATH',
}
KNOWN_NAMES = {'int', 'float', 'uuid', 'dt', 'path'}


class Reject(Exception):
    pass


class MNode:
    def __init__(self, raw):
        self.raw = raw
        self.children = []
        self.route = None  # (resource, uri_template)
        fields = list(FIELD.finditer(raw))
        self.convs = [
            (m.group('fname'), CONVERTERS[(m.group('cname'), m.group('argstr'))])
            for m in fields
            if m.group('cname')
        ]
        self.nfields = len(fields)
        self.regex = None
        self.name = None
        if not fields:
            self.kind = STATIC
        elif fields[0].span() == (0, len(raw)):
            self.kind = SIMPLE
            self.name = fields[0].group('fname')
        else:
            self.kind = COMPLEX
            esc = re.sub(r'[\.\(\)\[\]\?\$\*\+\^\|]', r'\\\g<0>', raw)
            self.regex = re.compile('^' + FIELD.sub(r'(?P<\2>.+)', esc) + '$')
            self.shape = FIELD.sub('v', raw)

    def path_conv(self):
        for name, conv in self.convs:
            if conv == 'PATH':
                return name
        return None


class Model:
    def __init__(self):
        self.roots = []

    # -- validation (everything that happens before the tree is touched) ----
    @staticmethod
    def validate(template):
        if re.search(r'\s', FIELD.sub('{FIELD}', template)):
            raise Reject('whitespace')
        used = set()
        for segment in template.lstrip('/').split('/'):
            if re.search(r'\s', FIELD.sub('{FIELD}', segment)):
                raise Reject('whitespace')
            for m in FIELD.finditer(segment):
                name = m.group('fname')
                if not IDENT.match(name) or keyword.iskeyword(name):
                    raise Reject('identifier')
                if name in used:
                    raise Reject('duplicate')
                used.add(name)
                if m.group('cname_sep') == ':':
                    raise Reject('missing converter')
                cname = m.group('cname')
                if cname:
                    if cname not in KNOWN_NAMES:
                        raise Reject('unknown converter')
                    if CONVERTERS[(cname, m.group('argstr'))] == 'BAD':
                        raise Reject('cannot instantiate')

    def add(self, template, resource):
        """Insert the template or raise Reject leaving the model unchanged."""
        self.validate(template)
        segs = template.lstrip('/').split('/')
        roots = copy.deepcopy(self.roots)
        nodes = roots
        for i, seg in enumerate(segs):
            last = i == len(segs) - 1
            new = MNode(seg)
            found = None
            for n in nodes:
                if n.raw == seg:
                    found = n
                    break
                # conflict rules: two single-field segments, or two
                # multi-field segments of the same shape, at the same level
                if n.kind == SIMPLE and new.kind == SIMPLE:
                    raise Reject('conflict')
                if n.kind == COMPLEX and new.kind == COMPLEX and n.shape == new.shape:
                    raise Reject('conflict')
            if found is None:
                if new.kind == COMPLEX and new.path_conv():
                    raise Reject('path converter in multi-field segment')
                nodes.append(new)
                found = new
            if last:
                found.route = (resource, template)
            else:
                if found.path_conv():
                    raise Reject('path converter must be last')
                nodes = found.children
        self.roots = roots

    # -- lookup: a plain depth-first walk ----------------------------------
    def find(self, uri):
        segs = uri.lstrip('/').split('/')
        return self._walk(self.roots, 0, segs)

    def _walk(self, nodes, level, segs):
        if level >= len(segs):
            return None
        seg = segs[level]
        for n in sorted(nodes, key=lambda n: n.kind):
            captured = {}
            if n.kind == STATIC:
                if seg != n.raw:
                    continue
            elif n.kind == COMPLEX:
                m = n.regex.match(seg)
                if m is None:
                    continue
                groups = m.groupdict()
                ok = True
                for name, conv in n.convs:
                    value = conv(groups.pop(name))
                    if value is None:
                        ok = False
                        break
                    captured[name] = value
                if not ok:
                    continue
                captured.update(groups)
            else:
                if n.convs:
                    (name, conv), = n.convs
                    if conv == 'PATH':
                        # swallows the rest; always a leaf with a route
                        assert n.route is not None and not n.children
                        return n.route, {name: '/'.join(segs[level:])}
                    value = conv(seg)
                    if value is None:
                        continue
                    captured[name] = value
                else:
                    captured[n.name] = seg
            deeper = self._walk(n.children, level + 1, segs)
            if deeper is not None:
                captured.update(deeper[1])
                return deeper[0], captured
            if n.route is not None and len(segs) == level + 1:
                return n.route, captured
        return None


# ---------------------------------------------------------------------------
# Generators
# ---------------------------------------------------------------------------

LITERALS = ['a', 'b', 'v', 'A', '', 'a.b', "it's", 'x\\y', '12', 'foo.json', 'vv', '{x:int(}']
SIMPLES = [
    '{x}', '{y}', '{z}', '{x:int}', '{y:int(2)}', '{z:int(num_digits=3)}',
    '{x:int(min=1, max=50)}', '{u:uuid}', '{d:dt("%Y-%m-%d")}', '{f:float}',
    '{g:float(finite=False)}', '{p:path}', '{q:path}',
]
COMPLEXES = [
    '{x}.{y}', '{a}.{b}', '{a}-{b:int}', 'pre{x}', 'pre{w}', '{x}v', 'v{x}',
    '{x:int}.{y:int(2)}', '{x}.json', '{n:int}.json', 'a+{x}', '({x})', '{x}$',
    '{x}{y}', '{a}-{b}-{c}', '{a:int}-{b}-{c:float}', '{p:path}x', 'x{p:path}',
    '[{x}]|{y}', '{x}^*?',
]
INVALIDS = [
    '{9x}', '{class}', '{x} {y}', 'a b', '{x:nope}', '{x:}', '{x:int(0)}',
    '{x:int(nope=1)}', '{}', '{x-y}', '{x}.{x}', '{ x }', 'a\tb', '{None}',
]
SEGMENTS = LITERALS * 3 + SIMPLES * 2 + COMPLEXES * 2 + INVALIDS

UUID_S = '12345678-1234-5678-1234-567812345678'
REQ_SEGS = [
    'a', 'b', 'v', 'A', '', 'a.b', "it's", 'x\\y', '12', '7', '007', '-3', ' 12',
    '12 ', '1.5', 'nan', 'inf', '1e3', 'x.y.z', '3.45', '3.4', 'a-5', 'a-b', '1-b-2.5',
    'a-b-c', 'prefoo', 'pre', 'foov', 'vfoo', 'vv', UUID_S, UUID_S.replace('-', ''),
    '2020-01-31', '2020-13-31', 'a+b', 'a+', '(q)', '()', 'q$', 'foo.json',
    '.json', '5.json', '123', '50', '51', '0', 'ab', '[q]|r', 'q^*?', '{x:int(}',
    '٣', 'x', '{x}', 'px', 'xq',
]


def gen_template(rng):
    n = rng.choice([1, 1, 2, 2, 2, 3, 3, 4])
    segs = [rng.choice(SEGMENTS) for _ in range(n)]
    t = '/' + '/'.join(segs)
    if rng.random() < 0.05:
        t = t.lstrip('/')  # no leading slash
    if rng.random() < 0.05:
        t = '/' + t  # doubled leading slash
    return t


def paths_for(model, rng, extra):
    """Request paths: walks guided by the model tree + random ones."""
    paths = set()

    def reps(node):
        out = [node.raw]
        if node.kind != STATIC:
            out += rng.sample(REQ_SEGS, 6)
        return out

    def walk(nodes, prefix, depth):
        for n in nodes:
            for r in reps(n)[: 4 if depth else 7]:
                p = prefix + [r]
                paths.add('/' + '/'.join(p))
                if depth < 3:
                    walk(n.children, p, depth + 1)

    walk(model.roots, [], 0)
    paths = sorted(paths)
    if len(paths) > extra * 3:
        paths = rng.sample(paths, extra * 3)
    for _ in range(extra):
        n = rng.choice([1, 1, 2, 2, 3, 4, 5])
        paths.append('/' + '/'.join(rng.choice(REQ_SEGS) for _ in range(n)))
    paths += ['/', '', '//', '/a/', 'a']
    return paths


class SyncRes:
    def __init__(self, tag):
        self.tag = tag

    def on_get(self, req, resp, **kw):
        pass

    def __repr__(self):
        return 'R%s' % (self.tag,)

    def __deepcopy__(self, memo):
        return self


class AsyncRes:
    def __init__(self, tag):
        self.tag = tag

    async def on_get(self, req, resp, **kw):
        pass

    def __repr__(self):
        return 'R%s' % (self.tag,)

    def __deepcopy__(self, memo):
        return self


# ---------------------------------------------------------------------------
# Driver
# ---------------------------------------------------------------------------

class Failure(Exception):
    pass


def canon_params(params):
    return sorted((k, type(v).__name__, repr(v)) for k, v in params.items())


def run_history(seed, asgi, digest, stats):
    rng = random.Random(seed)
    router = CompiledRouter()
    model = Model()
    n_adds = rng.choice([3, 5, 8, 12, 16])
    tag = 0
    for step in range(n_adds):
        template = gen_template(rng)
        if rng.random() < 0.15 and model.roots:
            # re-add an existing template (override) or extend one
            pool = []

            def collect(nodes):
                for n in nodes:
                    if n.route:
                        pool.append(n.route[1])
                    collect(n.children)

            collect(model.roots)
            if pool:
                template = rng.choice(pool)
                if rng.random() < 0.5:
                    template = template + '/' + rng.choice(SEGMENTS)
        tag += 1
        res = AsyncRes(tag) if asgi else SyncRes(tag)
        kwargs = {}
        if asgi:
            kwargs['_asgi'] = True
        compile_flag = rng.random() < 0.3
        if compile_flag:
            kwargs['compile'] = True
        elif rng.random() < 0.2:
            kwargs['compile'] = False

        try:
            model.add(template, res)
            expected = 'ok'
        except Reject:
            expected = 'rejected'

        before_find = router._find
        try:
            router.add_route(template, res, **kwargs)
            outcome = 'ok'
        except UnacceptableRouteError as ex:
            outcome = 'rejected'
            digest.update(('E:%s:%s\n' % (type(ex).__name__, ex)).encode())
            if not isinstance(ex, ValueError):
                raise Failure('rejection is not a ValueError')
        except Exception as ex:  # anything else is an internal error
            raise Failure(
                'seed %r: add_route(%r) raised %s: %s'
                % (seed, template, type(ex).__name__, ex)
            )
        digest.update(('A:%s:%s\n' % (template, outcome)).encode())
        stats[outcome] += 1
        if outcome != expected:
            raise Failure(
                'seed %r asgi=%r: add_route(%r) was %s, model says %s'
                % (seed, asgi, template, outcome, expected)
            )
        if outcome == 'rejected' and router._find is not before_find:
            if router._find != before_find:
                raise Failure('rejected add_route replaced the finder')

        # interleaved lookups (always after the last add, sometimes between)
        if step == n_adds - 1 or rng.random() < 0.4:
            for uri in paths_for(model, rng, 12):
                want = model.find(uri)
                try:
                    got = router.find(uri)
                except Exception as ex:
                    raise Failure(
                        'seed %r: find(%r) raised %s: %s'
                        % (seed, uri, type(ex).__name__, ex)
                    )
                stats['lookups'] += 1
                if got is None:
                    line = 'F:%s:None\n' % (uri,)
                    if want is not None:
                        raise Failure(
                            'seed %r asgi=%r: find(%r) -> None, model says %r'
                            % (seed, asgi, uri, want)
                        )
                else:
                    resource, method_map, params, tmpl = got
                    line = 'F:%s:%r:%s:%r\n' % (uri, resource, tmpl, canon_params(params))
                    stats['hits'] += 1
                    if want is None:
                        raise Failure(
                            'seed %r asgi=%r: find(%r) -> %r %r, model says None'
                            % (seed, asgi, uri, tmpl, params)
                        )
                    (wres, wtmpl), wparams = want
                    if (
                        resource is not wres
                        or tmpl != wtmpl
                        or canon_params(params) != canon_params(wparams)
                    ):
                        raise Failure(
                            'seed %r asgi=%r: find(%r) -> %r %r %r, model says %r %r %r'
                            % (seed, asgi, uri, resource, tmpl, params, wres, wtmpl, wparams)
                        )
                    responder = method_map.get('GET')
                    if getattr(responder, '__self__', None) is not resource:
                        raise Failure('method map does not belong to the resource')
                digest.update(line.encode())
            if rng.random() < 0.5:
                digest.update(router.finder_src.encode())
    digest.update(router.finder_src.encode())
    return router, model


def fixed_cases(digest):
    """Hard-coded expectations (taken from the unmodified tree)."""
    r = CompiledRouter()
    res = {}

    def add(t, ok=True, **kw):
        res[t] = SyncRes(t)
        try:
            r.add_route(t, res[t], **kw)
            got = True
        except UnacceptableRouteError:
            got = False
        if got != ok:
            raise Failure('fixed: add_route(%r) accepted=%r, expected %r' % (t, got, ok))

    def chk(uri, t, params=None):
        got = r.find(uri)
        if t is None:
            if got is not None:
                raise Failure('fixed: find(%r) -> %r, expected None' % (uri, got))
            return
        if got is None:
            raise Failure('fixed: find(%r) -> None, expected %r' % (uri, t))
        if got[0] is not res[t] or got[3] != t or got[2] != params:
            raise Failure('fixed: find(%r) -> %r, expected %r %r' % (uri, got, t, params))

    add('/')
    chk('/', '/', {})
    chk('', '/', {})
    add('/users/{id:int}')
    add('/users/{name}', ok=False)  # two single-field segments at one level
    chk('/users/x', None)
    add('/users/{id:int}/posts/{slug}.{ext}')
    add('/users/{id:int}/posts/{other}.{fmt}', ok=False)
    add('/users/{id:int}/posts/latest', compile=True)
    add('/users/{id:int}/posts/{slug}')
    chk('/users/7/posts/latest', '/users/{id:int}/posts/latest', {'id': 7})
    chk('/users/7/posts/a.b', '/users/{id:int}/posts/{slug}.{ext}',
        {'id': 7, 'slug': 'a', 'ext': 'b'})
    chk('/users/7/posts/ab', '/users/{id:int}/posts/{slug}', {'id': 7, 'slug': 'ab'})
    chk('/users/x/posts/ab', None)
    chk('/users/7/posts', None)
    chk('/users/7', '/users/{id:int}', {'id': 7})
    add('/files/{p:path}')
    add('/files/{p:path}/x', ok=False)  # nothing may follow a path converter
    add('/files/{q:path}', ok=False)
    add('/files/x{p:path}', ok=False)
    add('/new/{p:path}/child/deeper', ok=False)  # must not leave '/new' behind
    add('/new/{z}/{z}', ok=False)
    add('/fresh/{a}/{b:path}/c', ok=False)  # rejected deep in a fresh branch
    add('/fresh/{other}')  # would conflict with a leaked '{a}' node
    chk('/fresh/1', '/fresh/{other}', {'other': '1'})
    chk('/files/a/b/c', '/files/{p:path}', {'p': 'a/b/c'})
    chk('/files/', '/files/{p:path}', {'p': ''})
    chk('/files', None)
    chk('/new', None)
    chk('/new/a', None)
    # literal before multi-field before single-field, whatever the add order
    add('/o/{s}')
    add('/o/{a}-{b}')
    add('/o/x-y')
    chk('/o/x-y', '/o/x-y', {})
    chk('/o/x-z', '/o/{a}-{b}', {'a': 'x', 'b': 'z'})
    chk('/o/xz', '/o/{s}', {'s': 'xz'})
    # backtracking + no leak from the abandoned branch
    add('/b/{a}-{n:int}/end')
    add('/b/{s}/end2')
    chk('/b/q-5/end', '/b/{a}-{n:int}/end', {'a': 'q', 'n': 5})
    chk('/b/q-5/end2', '/b/{s}/end2', {'s': 'q-5'})
    chk('/b/q-x/end', None)
    chk('/b/q-x/end2', '/b/{s}/end2', {'s': 'q-x'})
    # override
    add('/o/x-y')
    chk('/o/x-y', '/o/x-y', {})
    digest.update(r.finder_src.encode())

    # conflicts_with truth table
    table = [
        ('{a}', '{b}', True), ('{a}', '{b:int}', True), ('{a:int}', '{b}', True),
        ('{a}', 'lit', False), ('lit', '{a}', False), ('lit', 'lit2', False),
        ('{a}', '{a}.{b}', False), ('{a}.{b}', '{a}', False),
        ('{a}.{b}', '{c}.{d}', True), ('{a}.{b}', '{c}-{d}', False),
        ('{a}.{b}', 'x.y', False), ('x.y', '{a}.{b}', False),
        ('{a}v', 'v{a}', True), ('pre{a}', 'pre{b:int}', True),
        ('pre{a}', 'prf{a}', False), ('{a}.{b}', '{a}.{b}.{c}', False),
    ]
    for this, other, want in table:
        got = CompiledRouterNode(this).conflicts_with(other)
        if got is not want:
            raise Failure('fixed: %r.conflicts_with(%r) -> %r' % (this, other, got))
        if not CompiledRouterNode(this).matches(this):
            raise Failure('fixed: matches')


def thread_case():
    """First lookups racing on an uncompiled router all see the right route."""
    r = CompiledRouter()
    a, b = SyncRes('a'), SyncRes('b')
    r.add_route('/t/{x:int}', a)
    r.add_route('/t/{x}.{y}', b)
    out = []

    def work():
        out.append((r.find('/t/5'), r.find('/t/5.6'), r.find('/t/q')))

    ts = [threading.Thread(target=work) for _ in range(8)]
    for t in ts:
        t.start()
    for t in ts:
        t.join()
    for one, two, three in out:
        if one is None or one[0] is not a or one[2] != {'x': 5}:
            raise Failure('thread: /t/5')
        if two is None or two[0] is not b or two[2] != {'x': '5', 'y': '6'}:
            raise Failure('thread: /t/5.6')
        if three is not None:
            raise Failure('thread: /t/q')
    if len(out) != 8:
        raise Failure('thread: a worker failed')


def app_case():
    """End to end through falcon.App and falcon.asgi.App."""
    import falcon.asgi
    import falcon.testing as testing

    class S:
        def on_get(self, req, resp, **kw):
            resp.media = {k: str(v) for k, v in kw.items()}

    class A:
        async def on_get(self, req, resp, **kw):
            resp.media = {k: str(v) for k, v in kw.items()}

    for app, res in ((falcon.App(), S()), (falcon.asgi.App(), A())):
        app.add_route('/i/{n:int}/{rest:path}', res)
        app.add_route('/i/{a}.{b}', res)
        try:
            app.add_route('/i/{n:int}/{other:path}/more', res)
        except ValueError:
            pass
        else:
            raise Failure('app: accepted a child of a path converter')
        client = testing.TestClient(app)
        r1 = client.simulate_get('/i/5/x/y')
        r2 = client.simulate_get('/i/q.r')
        r3 = client.simulate_get('/i/q')
        if (r1.status_code, r1.json) != (200, {'n': '5', 'rest': 'x/y'}):
            raise Failure('app: %r %r' % (r1.status_code, r1.text))
        if (r2.status_code, r2.json) != (200, {'a': 'q', 'b': 'r'}):
            raise Failure('app: %r %r' % (r2.status_code, r2.text))
        if r3.status_code != 404:
            raise Failure('app: %r' % (r3.status_code,))


SRC_ROUTES = [
    '/', '/a', '/a/{x:int}', '/a/{x:int}/c', '/a/{p}.{q:int}/d', '/a/lit',
    '/files/{rest:path}', '/b/{y}', '/b/{y}/z', '/c/{m}-{n}', '/c/{o:int(2)}.{r}.{s}',
    '/d/e/f', '/d/e/g', "/it's/{u:uuid}",
]
EXPECTED_SRC = (
    'def find(path, return_values, patterns, converters, params):\n'
    '    path_len = len(path)\n'
    '    if path_len > 0:\n'
    '        if path[0] == "it\'s":\n'
    '            if path_len > 1:\n'
    '                fragment = path[1]\n'
    '                field_value_1 = converters[0].convert(fragment)\n'
    '                if field_value_1 is not None:\n'
    '                    if path_len == 2:\n'
    "                        params['u'] = field_value_1\n"
    '                        return return_values[0]\n'
    '                    return None\n'
    '            return None\n'
    "        if path[0] == 'd':\n"
    '            if path_len > 1:\n'
    "                if path[1] == 'e':\n"
    '                    if path_len > 2:\n'
    "                        if path[2] == 'g':\n"
    '                            if path_len == 3:\n'
    '                                return return_values[1]\n'
    '                            return None\n'
    "                        if path[2] == 'f':\n"
    '                            if path_len == 3:\n'
    '                                return return_values[2]\n'
    '                            return None\n'
    '                        return None\n'
    '                    return None\n'
    '                return None\n'
    '            return None\n'
    "        if path[0] == 'c':\n"
    '            if path_len > 1:\n'
    '                match = patterns[0].match(path[1])  # ^(?P<o>.+)\\.(?P<r>.+)\\.(?P<s>.+)$\n'
    '                if match is not None:\n'
    '                    groups = match.groupdict()\n'
    "                    fragment = groups.pop('o')\n"
    '                    field_value_1 = converters[1].convert(fragment)\n'
    '                    if field_value_1 is not None:\n'
    '                        dict_groups_2 = groups\n'
    '                        if path_len == 2:\n'
    "                            params['o'] = field_value_1\n"
    '                            params.update(dict_groups_2)\n'
    '                            return return_values[3]\n'
    '                match = patterns[1].match(path[1])  # ^(?P<m>.+)-(?P<n>.+)$\n'
    '                if match is not None:\n'
    '                    dict_match_1 = match.groupdict()\n'
    '                    if path_len == 2:\n'
    '                        params.update(dict_match_1)\n'
    '                        return return_values[4]\n'
    '            return None\n'
    "        if path[0] == 'b':\n"
    '            if path_len > 1:\n'
    '                if path_len > 2:\n'
    "                    if path[2] == 'z':\n"
    '                        if path_len == 3:\n'
    "                            params['y'] = path[1]\n"
    '                            return return_values[6]\n'
    '                        return None\n'
    '                    return None\n'
    '                if path_len == 2:\n'
    "                    params['y'] = path[1]\n"
    '                    return return_values[5]\n'
    '                return None\n'
    '            return None\n'
    "        if path[0] == 'files':\n"
    '            if path_len > 1:\n'
    '                fragment = path[1:]\n'
    '                field_value_1 = converters[2].convert(fragment)\n'
    '                if field_value_1 is not None:\n'
    "                    params['rest'] = field_value_1\n"
    '                    return return_values[7]\n'
    '            return None\n'
    "        if path[0] == 'a':\n"
    '            if path_len > 1:\n'
    "                if path[1] == 'lit':\n"
    '                    if path_len == 2:\n'
    '                        return return_values[9]\n'
    '                match = patterns[2].match(path[1])  # ^(?P<p>.+)\\.(?P<q>.+)$\n'
    '                if match is not None:\n'
    '                    groups = match.groupdict()\n'
    "                    fragment = groups.pop('q')\n"
    '                    field_value_1 = converters[3].convert(fragment)\n'
    '                    if field_value_1 is not None:\n'
    '                        dict_groups_2 = groups\n'
    '                        if path_len > 2:\n'
    "                            if path[2] == 'd':\n"
    '                                if path_len == 3:\n'
    "                                    params['q'] = field_value_1\n"
    '                                    params.update(dict_groups_2)\n'
    '                                    return return_values[10]\n'
    '                fragment = path[1]\n'
    '                field_value_1 = converters[4].convert(fragment)\n'
    '                if field_value_1 is not None:\n'
    '                    if path_len > 2:\n'
    "                        if path[2] == 'c':\n"
    '                            if path_len == 3:\n'
    "                                params['x'] = field_value_1\n"
    '                                return return_values[12]\n'
    '                    if path_len == 2:\n'
    "                        params['x'] = field_value_1\n"
    '                        return return_values[11]\n'
    '            if path_len == 1:\n'
    '                return return_values[8]\n'
    '            return None\n'
    "        if path[0] == '':\n"
    '            if path_len == 1:\n'
    '                return return_values[13]\n'
    '            return None\n'
    '        return None\n'
    '    return None\n'
)[:-1]

EXPECTED_MESSAGES = [('/f/{p:path}', 'ok'),
 ('/f/{p:path}/more',
  'Cannot add route with template "/f/{p:path}/more". Field name "p" uses the '
  'converter "path" that will consume all the path, making it impossible to match this '
  'route.'),
 ('/g/{p:path}/more',
  'Cannot add route with template "/g/{p:path}/more". Field name "p" uses the '
  'converter "path" that will consume all the path, making it impossible to match this '
  'route.'),
 ('/g/x{p:path}',
  'Cannot use converter "path" of variable "p" in a template that includes other '
  'characters or variables.'),
 ('/g/{p:path}{q}/more',
  'Cannot use converter "path" of variable "p" in a template that includes other '
  'characters or variables.'),
 ('/f/{q:path}',
  "The URI template for this route is inconsistent or conflicts with another route's "
  'template. This is usually caused by configuring a field converter differently for '
  'the same field in two different routes, or by using different field names at the '
  "same level in the path (e.g.,'/parents/{id}' and '/parents/{parent_id}/children')"),
 ('/h/{a}', 'ok'),
 ('/h/{b}/c',
  "The URI template for this route is inconsistent or conflicts with another route's "
  'template. This is usually caused by configuring a field converter differently for '
  'the same field in two different routes, or by using different field names at the '
  "same level in the path (e.g.,'/parents/{id}' and '/parents/{parent_id}/children')"),
 ('/h/{a}.{b}', 'ok'),
 ('/h/{c}.{d}',
  "The URI template for this route is inconsistent or conflicts with another route's "
  'template. This is usually caused by configuring a field converter differently for '
  'the same field in two different routes, or by using different field names at the '
  "same level in the path (e.g.,'/parents/{id}' and '/parents/{parent_id}/children')"),
 ('/h/{a}/{p:path}', 'ok'),
 ('/h/{a}/{p:path}/x',
  'Cannot add route with template "/h/{a}/{p:path}/x". Field name "p" uses the '
  'converter "path" that will consume all the path, making it impossible to match this '
  'route.'),
 ('/h/{a}/{a}', 'Field names may not be duplicated ("a" was used more than once)'),
 ('/h/{a:int(0)}', 'Cannot instantiate converter "int"'),
 ('/h/{a:zzz}', 'Unknown converter: "zzz"'),
 ('/h/{a:}', 'Missing converter for field "a"'),
 ('/h/{1a}', 'Field names must be valid identifiers ("1a" is not valid)'),
 ('/h/ {a}', 'URI templates may not include whitespace.'),
 ('/h/{a}/y', 'ok')]
MESSAGE_HISTORY = [
    '/f/{p:path}', '/f/{p:path}/more', '/g/{p:path}/more', '/g/x{p:path}',
    '/g/{p:path}{q}/more', '/f/{q:path}', '/h/{a}', '/h/{b}/c', '/h/{a}.{b}',
    '/h/{c}.{d}', '/h/{a}/{p:path}', '/h/{a}/{p:path}/x', '/h/{a}/{a}',
    '/h/{a:int(0)}', '/h/{a:zzz}', '/h/{a:}', '/h/{1a}', '/h/ {a}', '/h/{a}/y',
]


def extra_checks():
    """Checks aimed at the code the delivered change touches."""
    # (i) the generated program for a fixed route set is exactly the one the
    #     unmodified tree generates (fast_return pruning, delayed params, the
    #     path-converter leaf, ordering).
    r = CompiledRouter()
    for t in reversed(SRC_ROUTES):
        r.add_route(t, SyncRes(t))
    if r.finder_src != EXPECTED_SRC:
        raise Failure('extra: generated finder source differs:\n' + r.finder_src)

    # (ii) accepted/rejected outcomes and messages of a fixed history that
    #      hits every rejection branch of insert(), including the rollbacks.
    r = CompiledRouter()
    got = []
    for t in MESSAGE_HISTORY:
        try:
            r.add_route(t, SyncRes(t))
            got.append((t, 'ok'))
        except UnacceptableRouteError as ex:
            got.append((t, str(ex)))
    if got != EXPECTED_MESSAGES:
        raise Failure('extra: outcomes/messages differ: %r' % (got,))
    if r.find('/g') is not None or r.find('/g/a/more') is not None:
        raise Failure('extra: rejected template left something behind')
    hit = r.find('/h/5/y')
    if hit is None or hit[3] != '/h/{a}/y' or hit[2] != {'a': '5'}:
        raise Failure('extra: /h/5/y -> %r' % (hit,))

    # (iii) every node the router can build classifies its segment like the
    #       reference model does; repr() of a node is harmless.
    for seg in LITERALS + SIMPLES + COMPLEXES:
        try:
            Model.validate('/' + seg)
        except Reject:
            continue
        node = CompiledRouterNode(seg)
        m = MNode(seg)
        kind = STATIC if not node.is_var else (COMPLEX if node.is_complex else SIMPLE)
        if (
            kind != m.kind
            or node.num_fields != m.nfields
            or node.var_name != m.name
            or [c[0] for c in node.var_converter_map] != [c[0] for c in m.convs]
            or (node.var_pattern.pattern if node.var_pattern else None)
            != (m.regex.pattern if m.regex else None)
            or node.children != []
            or node.resource is not None
        ):
            raise Failure('extra: node for %r is classified differently' % (seg,))
        if not isinstance(repr(node), str) or not isinstance(repr([node]), str):
            raise Failure('extra: repr')

    # (iv) looking at the tree (repr of every node) between lookups changes
    #      nothing.
    router, model = run_history(7, False, hashlib.sha256(), dict.fromkeys(
        ('ok', 'rejected', 'lookups', 'hits'), 0))
    rng = random.Random(99)
    uris = paths_for(model, rng, 40)
    before = [router.find(u) for u in uris]

    def visit(nodes):
        for n in nodes:
            repr(n)
            visit(n.children)

    visit(router._roots)
    if [router.find(u) for u in uris] != before:
        raise Failure('extra: lookups changed after inspecting the tree')


def main():
    digest = hashlib.sha256()
    stats = {'ok': 0, 'rejected': 0, 'lookups': 0, 'hits': 0}
    try:
        fixed_cases(digest)
        thread_case()
        app_case()
        for seed in range(260):
            for asgi in (False, True):
                run_history(seed, asgi, digest, stats)
        extra_checks()
    except Failure as ex:
        print('FAIL:', ex)
        return 1
    got = digest.hexdigest()
    print(
        'histories=520 adds_ok=%(ok)d adds_rejected=%(rejected)d '
        'lookups=%(lookups)d hits=%(hits)d' % stats
    )
    if '--print-digest' in sys.argv:
        print('DIGEST', got)
        return 0
    if got != EXPECTED_DIGEST:
        print('FAIL: digest %s differs from the unmodified tree (%s)' % (got, EXPECTED_DIGEST))
        return 1
    print('PASS')
    return 0


if __name__ == '__main__':
    sys.exit(main())
