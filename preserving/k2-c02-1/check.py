"""Property C02 check: dispatch picks route, then sink/static by recency;
404/405/OPTIONS are exact.

Self-contained.  Run as:  PYTHONPATH=<tree> /venv/bin/python check.py

It builds several hundred generated app configurations (WSGI and ASGI, both
values of sink_before_static_route, arbitrary interleavings of add_route /
add_sink / add_static_route, resources implementing arbitrary subsets of the
HTTP/WebDAV methods with and without a suffix) and compares what falcon does
with an independent oracle written below, at two levels:

  * level D (direct): App._get_responder(req) -> (responder, params, resource,
    uri_template) after EVERY configuration step (history check), for HTTP
    requests, unknown methods and (ASGI) WebSocket requests;
  * level E (end to end): simulated requests through the WSGI / ASGI app:
    status, X-Who / X-Kw headers set by the responder that ran, Allow,
    Content-Length, body of static files.

Plus unit checks of falcon.routing.map_http_methods / set_default_responders
and falcon.responders.create_* against hard-coded expectations.
"""

import inspect
import itertools
import json
import os
import random
import re
import shutil
import sys
import tempfile
import warnings
import wsgiref.validate

sys.dont_write_bytecode = True

import falcon  # noqa: E402
import falcon.asgi  # noqa: E402
import falcon.inspect  # noqa: E402
from falcon import constants, responders, routing, testing  # noqa: E402
from falcon.routing.util import SuffixedMethodNotFoundError  # noqa: E402

FOCUS = 'change 1 (kind 5): App._get_responder, for/else -> preset 404 default + continue'

# wsgiref's validator only knows the RFC 2616 methods; WebDAV ones are fine here
warnings.filterwarnings('ignore', category=wsgiref.validate.WSGIWarning)

# Hard-coded from the unmodified tree (falcon/constants.py)
HTTP = ['CONNECT', 'DELETE', 'GET', 'HEAD', 'OPTIONS', 'PATCH', 'POST', 'PUT', 'TRACE']
WEBDAV = [
    'CHECKIN', 'CHECKOUT', 'COPY', 'LOCK', 'MKCOL', 'MOVE', 'PROPFIND',
    'PROPPATCH', 'REPORT', 'UNCHECKIN', 'UNLOCK', 'UPDATE', 'VERSION-CONTROL',
]
META = ['WEBSOCKET']
COMBINED = HTTP + WEBDAV + META
UNKNOWN_METHODS = ['FOO', 'get', 'Get', 'OPTION', '', 'WEBSOCKETS', 'websocket']

FAILURES = []
COUNTS = {'direct': 0, 'e2e': 0, 'unit': 0, 'configs': 0}


def fail(msg):
    FAILURES.append(msg)
    if len(FAILURES) > 25:
        finish()


def expect(cond, msg):
    if not cond:
        fail(msg)


def finish():
    if FAILURES:
        print('FAIL (%d)' % len(FAILURES))
        for f in FAILURES[:25]:
            print('  -', f)
        sys.exit(1)
    print(
        'PASS  configs=%(configs)d direct=%(direct)d e2e=%(e2e)d unit=%(unit)d'
        % COUNTS
    )
    sys.exit(0)


def drive(coro):
    """Run a coroutine that never really awaits anything."""
    try:
        coro.send(None)
    except StopIteration as si:
        return si.value
    raise AssertionError('coroutine suspended unexpectedly')


# --------------------------------------------------------------------------
# Resources / sinks
# --------------------------------------------------------------------------


def responder_name(method, suffix):
    name = 'on_' + method.lower()
    if suffix:
        name += '_' + suffix
    return name


def make_responder(tag, asgi):
    if asgi:

        async def r(self, req, resp, **kw):
            resp.set_header('X-Who', tag)
            resp.set_header('X-Kw', json.dumps(kw, sort_keys=True))

    else:

        def r(self, req, resp, **kw):
            resp.set_header('X-Who', tag)
            resp.set_header('X-Kw', json.dumps(kw, sort_keys=True))

    return r


_RES_COUNTER = itertools.count()


def make_resource(asgi, impl_plain, impl_sfx, noncallable_plain=(), noncallable_sfx=()):
    """A resource implementing exactly impl_plain (no suffix) and impl_sfx
    (suffix 'sfx'); noncallable_* are attributes that exist but are not
    callable and therefore must not count as implemented."""
    rid = next(_RES_COUNTER)
    ns = {}
    for m in impl_plain:
        ns[responder_name(m, None)] = make_responder('res%d:%s:' % (rid, m), asgi)
    for m in impl_sfx:
        ns[responder_name(m, 'sfx')] = make_responder('res%d:%s:sfx' % (rid, m), asgi)
    for m in noncallable_plain:
        ns[responder_name(m, None)] = 5
    for m in noncallable_sfx:
        ns[responder_name(m, 'sfx')] = None
    cls = type('Res%d' % rid, (object,), {})
    for k, v in ns.items():
        setattr(cls, k, v)  # setattr: 'on_version-control' is not an identifier
    obj = cls()
    obj.rid = rid
    obj.impl = {None: frozenset(impl_plain), 'sfx': frozenset(impl_sfx)}
    return obj


_SINK_COUNTER = itertools.count()


def make_sink(asgi):
    sid = next(_SINK_COUNTER)
    tag = 'sink%d' % sid
    if asgi:

        async def sink(req, resp, **kw):
            resp.set_header('X-Who', tag)
            resp.set_header('X-Kw', json.dumps(kw, sort_keys=True))

    else:

        def sink(req, resp, **kw):
            resp.set_header('X-Who', tag)
            resp.set_header('X-Kw', json.dumps(kw, sort_keys=True))

    sink.tag = tag
    return sink


# --------------------------------------------------------------------------
# Pools
# --------------------------------------------------------------------------

ROUTE_TEMPLATES = [
    '/r0',
    '/r1/{id}',
    '/r2/{a}/x/{b}',
    '/r3/lit',
    '/r3/{v}',
    '/st/api',
    '/s/{name}',
    '/',
]
ROUTE_HEADS = {'r0', 'r1', 'r2', 'r3'}

SINK_PREFIXES = [
    '/',
    '/s',
    r'/s/(?P<name>[^/]+)',
    r'/r1',
    r'/st',
    r'/(?P<a>\w+)/(?P<b>\w+)',
    re.compile(r'/x(?P<n>\d+)?'),
    r'/zzz$',
    r'/r3/(?P<v>lit)',
    re.compile(r'/PUB', re.I),
]
SINK_WEIGHTS = [1, 3, 3, 3, 3, 2, 3, 2, 2, 2]

STATIC_PREFIXES = ['/st', '/st/deep', '/s', '/r0', '/pub/', '/x1']

TOKENS = ['a', 'b7', 'lit', 'x', 'Zed', 'f.txt', 'a-b_c', '42', 'api', 'deep', 'LIT']


class StaticSpec:
    def __init__(self, idx, prefix, directory, fallback):
        self.idx = idx
        self.prefix = prefix
        self.norm = prefix if prefix.endswith('/') else prefix + '/'
        self.directory = directory
        self.fallback = fallback

    def match(self, path):
        if path.startswith(self.norm):
            return True
        return bool(self.fallback) and path == self.norm[:-1]

    def content(self, path):
        """Expected bytes served, or None for a 404."""
        rest = path[len(self.norm):]
        assert rest in ('', 'f.txt', 'deep/f.txt', 'missing.txt', 'api'), rest
        if rest in ('f.txt', 'deep/f.txt'):
            with open(os.path.join(self.directory, rest), 'rb') as fh:
                return fh.read()
        if self.fallback:
            with open(os.path.join(self.directory, self.fallback), 'rb') as fh:
                return fh.read()
        return None


class StaticDirs:
    def __init__(self):
        self.root = tempfile.mkdtemp(prefix='c02check_')
        self.n = 0

    def new(self):
        self.n += 1
        d = os.path.join(self.root, 'd%d' % self.n)
        os.makedirs(os.path.join(d, 'deep'))
        with open(os.path.join(d, 'f.txt'), 'wb') as fh:
            fh.write(b'F' * (10 + 2 * self.n))
        with open(os.path.join(d, 'deep', 'f.txt'), 'wb') as fh:
            fh.write(b'D' * (11 + 2 * self.n))
        return d

    def cleanup(self):
        shutil.rmtree(self.root, ignore_errors=True)


# --------------------------------------------------------------------------
# The model (independent oracle)
# --------------------------------------------------------------------------


class Model:
    def __init__(self, asgi, sbs):
        self.asgi = asgi
        self.sbs = sbs
        self.routes = {}  # template -> (resource, suffix)
        self.sinks = []  # oldest first: (compiled pattern, sink fn)
        self.statics = []  # oldest first: StaticSpec

    # -- route matching -------------------------------------------------
    def match_route(self, path):
        psegs = path.split('/')[1:]
        best = None
        for template, (resource, suffix) in self.routes.items():
            tsegs = template.split('/')[1:]
            if len(tsegs) != len(psegs):
                continue
            params = {}
            rank = []
            ok = True
            for t, p in zip(tsegs, psegs):
                if t.startswith('{'):
                    # NOTE: the compiled router lets a field match an empty
                    # segment ('/s/' -> name=''); taken from the unmodified tree.
                    params[t[1:-1]] = p
                    rank.append(1)
                else:
                    if t != p:
                        ok = False
                        break
                    rank.append(0)
            if ok and (best is None or rank < best[0]):
                best = (rank, template, resource, suffix, params)
        return best

    def fallback_chain(self):
        sinks = [('sink', s) for s in reversed(self.sinks)]
        statics = [('static', s) for s in reversed(self.statics)]
        return sinks + statics if self.sbs else statics + sinks

    def expect(self, path, method):
        """Returns a dict describing who must handle (path, method)."""
        m = self.match_route(path)
        if m is not None:
            _, template, resource, suffix, params = m
            impl = resource.impl[suffix]
            http_impl = sorted(x for x in impl if x != 'WEBSOCKET')
            base = dict(
                template=template, resource=resource, suffix=suffix, params=params
            )
            if method in impl:
                return dict(base, kind='responder')
            if method == 'OPTIONS':
                return dict(base, kind='auto_options', allow=', '.join(http_impl))
            if method in COMBINED:
                allow = list(http_impl)
                if 'OPTIONS' not in impl:
                    allow.append('OPTIONS')
                return dict(base, kind='405', allow=', '.join(allow))
            return dict(base, kind='400')
        for kind, obj in self.fallback_chain():
            if kind == 'sink':
                pattern, fn = obj
                mo = pattern.match(path)
                if mo is not None:
                    return dict(kind='sink', sink=fn, params=mo.groupdict())
            else:
                if obj.match(path):
                    return dict(kind='static', static=obj)
        return dict(kind='404')


# --------------------------------------------------------------------------
# Request generation
# --------------------------------------------------------------------------


def gen_paths(rng, model, n):
    out = []
    for _ in range(n):
        c = rng.random()
        if c < 0.40:
            t = rng.choice(ROUTE_TEMPLATES)
            segs = t.split('/')[1:]
            segs = [rng.choice(TOKENS) if s.startswith('{') else s for s in segs]
            p = '/' + '/'.join(segs)
            if rng.random() < 0.15 and p != '/':
                p += '/' + rng.choice(TOKENS)  # one segment too many
            if rng.random() < 0.08:
                p = p.upper()
        elif c < 0.65:
            pre = rng.choice(STATIC_PREFIXES)
            pre = pre if pre.endswith('/') else pre + '/'
            rest = rng.choice(['f.txt', 'deep/f.txt', 'missing.txt', '', 'f.txt'])
            p = pre + rest
            if rng.random() < 0.1:
                p = pre[:-1]
        elif c < 0.90:
            p = rng.choice(
                [
                    '/s', '/s/bob', '/s/bob/more', '/st', '/x', '/x12', '/x12/y',
                    '/zzz', '/zzzz', '/zzz/a', '/aa/bb', '/aa/bb/cc', '/pub',
                    '/PUB', '/Pub/q', '/nothing', '/sx', '/r1', '/r3/lit',
                    '/r3/lit/x', '/r2/a/y/b',
                ]
            )
        else:
            p = '/' + '/'.join(
                rng.choice(TOKENS) for _ in range(rng.randint(0, 3))
            )
        # never an empty segment behind a route head (not modelled)
        segs = p.split('/')[1:]
        if segs and segs[0].lower() in ROUTE_HEADS and '' in segs:
            p = p.rstrip('/')
        out.append(p)
    return out


def static_path_ok(path, spec):
    rest = path[len(spec.norm):]
    return rest in ('', 'f.txt', 'deep/f.txt', 'missing.txt', 'api')


# --------------------------------------------------------------------------
# Level D: _get_responder
# --------------------------------------------------------------------------


async def _noop_receive():
    return {'type': 'websocket.disconnect'}


def make_req(asgi, path, method, ws=False):
    if asgi:
        if ws:
            scope = testing.create_scope_ws(path=path)
            return falcon.asgi.Request(scope, _noop_receive)
        scope = testing.create_scope(path=path, method='GET')
        scope['method'] = method  # create_scope() would upper-case it
        return falcon.asgi.Request(scope, _noop_receive)
    return testing.create_req(path=path, method=method)


def call_default(responder, asgi, req):
    """Invoke a default responder; return ('raised', exc) or ('resp', resp)."""
    resp = falcon.asgi.Response() if asgi else falcon.Response()
    try:
        if asgi:
            drive(responder(req, resp, extra='ignored'))
        else:
            responder(req, resp, extra='ignored')
    except falcon.HTTPError as ex:
        return 'raised', ex
    return 'resp', resp


def check_direct(app, model, path, method, ws=False):
    COUNTS['direct'] += 1
    asgi = model.asgi
    req = make_req(asgi, path, method, ws=ws)
    lookup = 'WEBSOCKET' if ws else method
    exp = model.expect(path, lookup)
    got = app._get_responder(req)
    ctx = '[D asgi=%s sbs=%s ws=%s %s %r] exp=%s' % (
        asgi, model.sbs, ws, method, path, exp['kind'],
    )
    expect(isinstance(got, tuple) and len(got) == 4, ctx + ' not a 4-tuple')
    responder, params, resource, uri_template = got
    kind = exp['kind']

    if kind in ('responder', 'auto_options', '405', '400'):
        expect(resource is exp['resource'], ctx + ' wrong resource')
        expect(uri_template == exp['template'], ctx + ' template %r' % (uri_template,))
        expect(params == exp['params'], ctx + ' params %r' % (params,))
    else:
        expect(resource is None, ctx + ' resource must be None')
        expect(uri_template is None, ctx + ' uri_template must be None')

    if kind == 'responder':
        want = getattr(exp['resource'], responder_name(lookup, exp['suffix']))
        expect(responder == want, ctx + ' wrong responder %r' % (responder,))
    elif kind == 'auto_options':
        how, r = call_default(responder, asgi, req)
        expect(how == 'resp', ctx + ' auto OPTIONS raised')
        if how == 'resp':
            expect(r.status == falcon.HTTP_200, ctx + ' status %r' % (r.status,))
            expect(r.get_header('Allow') == exp['allow'], ctx + ' Allow %r != %r' % (
                r.get_header('Allow'), exp['allow']))
            expect(r.get_header('Content-Length') == '0', ctx + ' C-L')
    elif kind == '405':
        how, r = call_default(responder, asgi, req)
        expect(
            how == 'raised' and isinstance(r, falcon.HTTPMethodNotAllowed),
            ctx + ' expected HTTPMethodNotAllowed, got %r' % (r,),
        )
        if how == 'raised':
            expect(r.headers.get('Allow') == exp['allow'], ctx + ' Allow %r != %r' % (
                r.headers.get('Allow'), exp['allow']))
    elif kind == '400':
        want = responders.bad_request_async if asgi else responders.bad_request
        expect(responder is want, ctx + ' expected bad_request, got %r' % (responder,))
    elif kind == 'sink':
        expect(responder is exp['sink'], ctx + ' wrong sink %r' % (
            getattr(responder, 'tag', responder),))
        expect(params == exp['params'], ctx + ' sink params %r != %r' % (
            params, exp['params']))
    elif kind == 'static':
        spec = exp['static']
        expect(isinstance(responder, routing.StaticRoute), ctx + ' not a StaticRoute')
        expect(
            getattr(responder, '_directory', None) == os.path.normpath(spec.directory),
            ctx + ' wrong static route (dir %r)' % (getattr(responder, '_directory', None),),
        )
        expect(params == {}, ctx + ' static params %r' % (params,))
    elif kind == '404':
        want = responders.path_not_found_async if asgi else responders.path_not_found
        expect(responder is want, ctx + ' expected path_not_found, got %r' % (responder,))
        expect(params == {}, ctx + ' 404 params %r' % (params,))
    else:
        raise AssertionError(kind)


# --------------------------------------------------------------------------
# Level E: end to end
# --------------------------------------------------------------------------


def check_e2e(client, model, path, method):
    COUNTS['e2e'] += 1
    exp = model.expect(path, method)
    kind = exp['kind']
    if kind == 'static' and not static_path_ok(path, exp['static']):
        return
    result = client.simulate_request(method=method, path=path)
    ctx = '[E asgi=%s sbs=%s %s %r] exp=%s got=%s' % (
        model.asgi, model.sbs, method, path, kind, result.status,
    )
    who = result.headers.get('X-Who')
    if method == 'WEBSOCKET':
        # meta methods are rejected for HTTP before any routing
        expect(result.status_code == 400, ctx + ' meta method must be a 400')
        expect(who is None, ctx + ' no responder may run for a meta method')
        return
    if kind == 'responder':
        expect(result.status_code == 200, ctx)
        tag = 'res%d:%s:%s' % (exp['resource'].rid, method, exp['suffix'] or '')
        expect(who == tag, ctx + ' X-Who %r != %r' % (who, tag))
        expect(json.loads(result.headers['X-Kw']) == exp['params'], ctx + ' kwargs')
    elif kind == 'auto_options':
        expect(result.status_code == 200, ctx)
        expect(who is None, ctx + ' a user responder ran')
        expect(result.headers.get('Allow') == exp['allow'], ctx + ' Allow %r != %r' % (
            result.headers.get('Allow'), exp['allow']))
        expect(result.headers.get('Content-Length') == '0', ctx + ' C-L')
    elif kind == '405':
        expect(result.status_code == 405, ctx)
        expect(who is None, ctx + ' a user responder ran')
        expect(result.headers.get('Allow') == exp['allow'], ctx + ' Allow %r != %r' % (
            result.headers.get('Allow'), exp['allow']))
    elif kind == 'sink':
        expect(result.status_code == 200, ctx)
        expect(who == exp['sink'].tag, ctx + ' X-Who %r != %r' % (who, exp['sink'].tag))
        expect(json.loads(result.headers['X-Kw']) == exp['params'], ctx + ' kwargs')
    elif kind == 'static':
        spec = exp['static']
        expect(who is None, ctx + ' a user responder ran')
        if method == 'OPTIONS':
            expect(result.status_code == 200, ctx)
            expect(result.headers.get('Allow') == 'GET', ctx + ' static OPTIONS Allow')
            return
        content = spec.content(path)
        if content is None:
            expect(result.status_code == 404, ctx)
        else:
            expect(result.status_code == 200, ctx)
            expect(result.headers.get('Content-Length') == str(len(content)),
                   ctx + ' static C-L %r != %d' % (
                       result.headers.get('Content-Length'), len(content)))
            if method != 'HEAD':
                expect(result.content == content, ctx + ' static body')
    elif kind == '404':
        expect(result.status_code == 404, ctx)
        expect(who is None, ctx + ' a user responder ran')
    else:
        raise AssertionError(kind)


# --------------------------------------------------------------------------
# Configuration generation
# --------------------------------------------------------------------------


def random_subset(rng, universe, style):
    if style == 'empty':
        return []
    if style == 'full':
        return list(universe)
    if style == 'single':
        return [rng.choice(universe)]
    if style == 'few':
        return rng.sample(universe, rng.randint(1, 4))
    p = rng.random()
    return [m for m in universe if rng.random() < p]


def gen_resource(rng, asgi):
    style = rng.choice(['empty', 'full', 'single', 'few', 'random', 'random', 'random'])
    plain = random_subset(rng, COMBINED, style)
    sfx = random_subset(rng, COMBINED, rng.choice(['single', 'few', 'random', 'full']))
    if not sfx:
        sfx = [rng.choice(COMBINED)]
    nc_plain = [m for m in COMBINED if m not in plain and rng.random() < 0.1]
    nc_sfx = [m for m in COMBINED if m not in sfx and rng.random() < 0.1]
    return make_resource(asgi, plain, sfx, nc_plain, nc_sfx)


def apply_random_op(rng, app, model, dirs):
    c = rng.random()
    if c < 0.45:
        template = rng.choice(ROUTE_TEMPLATES)
        resource = gen_resource(rng, model.asgi)
        suffix = 'sfx' if rng.random() < 0.4 else None
        if suffix:
            app.add_route(template, resource, suffix=suffix)
        else:
            app.add_route(template, resource)
        model.routes[template] = (resource, suffix)
        return 'route %s sfx=%s' % (template, suffix)
    if c < 0.75:
        prefix = rng.choices(SINK_PREFIXES, SINK_WEIGHTS)[0]
        fn = make_sink(model.asgi)
        if prefix == '/' and rng.random() < 0.5:
            app.add_sink(fn)  # default prefix
        else:
            app.add_sink(fn, prefix)
        pattern = prefix if hasattr(prefix, 'match') else re.compile(prefix)
        model.sinks.append((pattern, fn))
        return 'sink %s' % (pattern.pattern,)
    prefix = rng.choice(STATIC_PREFIXES)
    d = dirs.new()
    fallback = rng.choice([None, None, 'f.txt', 'deep/f.txt'])
    kwargs = {}
    if fallback:
        kwargs['fallback_filename'] = fallback
    if rng.random() < 0.3:
        kwargs['downloadable'] = True
    app.add_static_route(prefix, d, **kwargs)
    model.statics.append(StaticSpec(len(model.statics), prefix, d, fallback))
    return 'static %s fb=%s' % (prefix, fallback)


def new_app(asgi, sbs, rng):
    cls = falcon.asgi.App if asgi else falcon.App
    if sbs is True and rng.random() < 0.5:
        return cls()  # the default is True
    return cls(sink_before_static_route=sbs)


def check_inspect(app, model):
    COUNTS['unit'] += 1
    sinks = falcon.inspect.inspect_sinks(app)
    expect(
        [s.prefix for s in sinks] == [p.pattern for p, _ in reversed(model.sinks)],
        'inspect_sinks order (newest first)',
    )
    statics = falcon.inspect.inspect_static_routes(app)
    expect(
        [(s.prefix, s.directory) for s in statics]
        == [(s.norm, os.path.normpath(s.directory)) for s in reversed(model.statics)],
        'inspect_static_routes order (newest first)',
    )
    flag = getattr(app, 'sink_before_static_route', model.sbs)
    expect(flag is model.sbs, 'sink_before_static_route reads %r' % (flag,))
    if hasattr(type(app), 'sink_before_static_route'):
        # if the tree exposes it, it must be read-only (nothing may flip the
        # configured order behind add_sink()/add_static_route()'s back)
        try:
            app.sink_before_static_route = not model.sbs
        except AttributeError:
            pass
        else:
            fail('sink_before_static_route is writable')


def run_config(seed, asgi, sbs, dirs, e2e):
    COUNTS['configs'] += 1
    rng = random.Random(seed * 4 + asgi * 2 + sbs)
    app = new_app(asgi, sbs, rng)
    model = Model(asgi, sbs)
    n_ops = rng.randint(0, 12)
    client = testing.TestClient(app) if e2e else None
    for step in range(n_ops + 1):
        if step > 0:
            apply_random_op(rng, app, model, dirs)
        # history check: the promise must hold after every single step
        n = 12 if step < n_ops else 40
        for path in gen_paths(rng, model, n):
            r = rng.random()
            if r < 0.12:
                method = rng.choice(UNKNOWN_METHODS)
            elif r < 0.5:
                method = rng.choice(HTTP)
            else:
                method = rng.choice(COMBINED)
            check_direct(app, model, path, method)
            if asgi and rng.random() < 0.25:
                check_direct(app, model, path, 'GET', ws=True)
        if e2e and (step == n_ops or rng.random() < 0.3):
            for path in gen_paths(rng, model, 6 if step < n_ops else 20):
                method = rng.choice(HTTP) if rng.random() < 0.5 else rng.choice(COMBINED)
                check_e2e(client, model, path, method)
        check_inspect(app, model)


# --------------------------------------------------------------------------
# Hand-written corner cases
# --------------------------------------------------------------------------


def corner_cases(dirs):
    for asgi in (False, True):
        for sbs in (True, False):
            rng = random.Random(99)
            cls = falcon.asgi.App if asgi else falcon.App
            app = cls(sink_before_static_route=sbs)
            model = Model(asgi, sbs)
            client = testing.TestClient(app)

            def everything():
                for path in ['/', '/s', '/s/f.txt', '/s/bob', '/st/f.txt', '/st/api',
                             '/st/deep/f.txt', '/r0', '/r0/f.txt', '/r1/7', '/nothing',
                             '/x', '/x5', '/s/missing.txt', '/st', '/st/']:
                    for method in COMBINED:
                        check_direct(app, model, path, method)
                    for method in UNKNOWN_METHODS:
                        check_direct(app, model, path, method)
                    if asgi:
                        check_direct(app, model, path, 'GET', ws=True)
                    for method in ('GET', 'HEAD', 'OPTIONS', 'POST', 'PROPFIND',
                                   'VERSION-CONTROL', 'WEBSOCKET'):
                        check_e2e(client, model, path, method)
                check_inspect(app, model)

            everything()  # empty app: everything is a 404

            # same prefix twice, sinks and statics: the latest wins
            for _ in range(2):
                fn = make_sink(asgi)
                app.add_sink(fn, '/s')
                model.sinks.append((re.compile('/s'), fn))
                d = dirs.new()
                app.add_static_route('/s', d)
                model.statics.append(StaticSpec(len(model.statics), '/s', d, None))
                everything()

            # a route masks both; empty resource -> 405 everywhere, Allow: OPTIONS
            res = make_resource(asgi, [], ['GET'])
            app.add_route('/s/{name}', res)
            model.routes['/s/{name}'] = (res, None)
            everything()

            # replacing the route's resource, now with a suffix
            res = make_resource(asgi, COMBINED, ['OPTIONS', 'WEBSOCKET'], (), ['GET'])
            app.add_route('/s/{name}', res, suffix='sfx')
            model.routes['/s/{name}'] = (res, 'sfx')
            everything()

            # resource implementing only WEBSOCKET: Allow must not list it
            res = make_resource(asgi, ['WEBSOCKET'], ['WEBSOCKET', 'VERSION-CONTROL'])
            app.add_route('/r0', res)
            model.routes['/r0'] = (res, None)
            app.add_route('/r1/{id}', res, suffix='sfx')
            model.routes['/r1/{id}'] = (res, 'sfx')
            everything()

            # catch-all sink added last, then a static added after it
            fn = make_sink(asgi)
            app.add_sink(fn)
            model.sinks.append((re.compile('/'), fn))
            everything()
            d = dirs.new()
            app.add_static_route('/st', d, fallback_filename='f.txt')
            model.statics.append(StaticSpec(len(model.statics), '/st', d, 'f.txt'))
            everything()

            # suffix with no (callable) responder at all is refused at add time
            res = make_resource(asgi, ['GET'], [], (), ['GET', 'POST'])
            try:
                app.add_route('/r2/{a}/x/{b}', res, suffix='sfx')
            except SuffixedMethodNotFoundError:
                pass
            else:
                fail('suffix without responders was accepted')
            try:
                app.add_route('/r2/{a}/x/{b}', res, suffix='other')
            except SuffixedMethodNotFoundError:
                pass
            else:
                fail('unknown suffix was accepted')
            everything()
            del rng


# --------------------------------------------------------------------------
# Unit level: map_http_methods / set_default_responders / responders.create_*
# --------------------------------------------------------------------------


def unit_checks():
    expect(list(constants.COMBINED_METHODS) == COMBINED, 'COMBINED_METHODS changed')
    expect(list(constants._META_METHODS) == META, '_META_METHODS changed')
    expect(falcon.App._META_METHODS == frozenset(META), 'App._META_METHODS')
    expect(falcon.asgi.App._META_METHODS == frozenset(META), 'asgi App._META_METHODS')

    rng = random.Random(2024)
    for i in range(400):
        COUNTS['unit'] += 1
        asgi = bool(i % 2)
        res = gen_resource(rng, asgi)
        for suffix in (None, 'sfx'):
            mm = routing.map_http_methods(res, suffix=suffix) if suffix else (
                routing.map_http_methods(res) if rng.random() < 0.5
                else routing.map_http_methods(res, suffix=rng.choice([None, ''])))
            impl = res.impl[suffix]
            expect(set(mm) == set(impl), 'map_http_methods keys %r != %r' % (
                sorted(mm), sorted(impl)))
            expect(list(mm) == [m for m in COMBINED if m in impl],
                   'map_http_methods key order')
            for m, r in mm.items():
                expect(r == getattr(res, responder_name(m, suffix)),
                       'map_http_methods responder for %s' % m)

            # extra, user supplied keys (custom routers may add their own)
            extra = rng.choice([[], [], ['FOO'], ['zzz', 'AAA']])
            for k in extra:
                mm[k] = mm.get('GET') or (lambda *a, **k: None)
            before = dict(mm)
            if asgi or rng.random() < 0.5:
                ret = routing.set_default_responders(mm, asgi=asgi)
            else:
                ret = routing.set_default_responders(mm)
            expect(ret is None, 'set_default_responders returns None')
            expect(set(mm) == set(COMBINED) | set(before), 'default responders keys')
            expect(list(mm)[:len(before)] == list(before), 'existing keys order kept')
            for k, v in before.items():
                expect(mm[k] is v, 'explicit responder for %s replaced' % k)
            http_impl = sorted(k for k in before if k != 'WEBSOCKET')
            opt_allow = ', '.join(http_impl)
            na_allow = ', '.join(http_impl + ([] if 'OPTIONS' in before else ['OPTIONS']))
            defaults = [mm[m] for m in COMBINED if m not in before and m != 'OPTIONS']
            expect(all(d is defaults[0] for d in defaults), 'one shared 405 responder')
            req = make_req(asgi, '/', 'GET')
            for d in defaults[:1]:
                expect(asgi == inspect.iscoroutinefunction(d), '405 responder flavour')
                how, r = call_default(d, asgi, req)
                expect(how == 'raised' and isinstance(r, falcon.HTTPMethodNotAllowed),
                       '405 responder must raise HTTPMethodNotAllowed')
                if how == 'raised':
                    expect(r.headers.get('Allow') == na_allow,
                           '405 Allow %r != %r' % (r.headers.get('Allow'), na_allow))
                # and again: the Allow list must be stable across calls
                how, r = call_default(d, asgi, req)
                if how == 'raised':
                    expect(r.headers.get('Allow') == na_allow, '405 Allow (2nd call)')
            if 'OPTIONS' not in before:
                expect(mm['OPTIONS'] not in defaults, 'OPTIONS is not the 405 responder')
                how, r = call_default(mm['OPTIONS'], asgi, req)
                expect(how == 'resp', 'auto OPTIONS must not raise')
                if how == 'resp':
                    expect(r.status == falcon.HTTP_200, 'auto OPTIONS status')
                    expect(r.get_header('Allow') == opt_allow,
                           'auto OPTIONS Allow %r != %r' % (r.get_header('Allow'), opt_allow))
                    expect(r.get_header('Content-Length') == '0', 'auto OPTIONS C-L')

    # suffix corner cases
    res = make_resource(False, ['GET'], [], (), ['GET'])
    for bad in ('sfx', 'nope'):
        try:
            routing.map_http_methods(res, suffix=bad)
        except SuffixedMethodNotFoundError as ex:
            expect(ex.message == 'No responders found for the specified suffix', 'msg')
        else:
            fail('map_http_methods accepted suffix %r' % bad)
    expect(list(routing.map_http_methods(object())) == [], 'no responders, no suffix')
    try:
        routing.map_http_methods(res, suffix=7)
    except TypeError:
        pass
    else:
        fail('non-str suffix must raise TypeError')

    # responders.create_*: the list handed over is read when the 405 is raised
    for asgi in (False, True):
        COUNTS['unit'] += 1
        req = make_req(asgi, '/', 'GET')
        lst = ['GET', 'PUT']
        na = responders.create_method_not_allowed(lst, asgi=asgi)
        opt = responders.create_default_options(lst, asgi=asgi)
        how, r = call_default(na, asgi, req)
        expect(how == 'raised' and r.headers.get('Allow') == 'GET, PUT', 'create 405')
        how, r = call_default(opt, asgi, req)
        expect(how == 'resp' and r.get_header('Allow') == 'GET, PUT', 'create OPTIONS')
        na2 = responders.create_method_not_allowed(iter(()), asgi=asgi)
        how, r = call_default(na2, asgi, req)
        expect(how == 'raised' and r.headers.get('Allow') == '', 'create 405 (empty)')


def main():
    dirs = StaticDirs()
    try:
        unit_checks()
        corner_cases(dirs)
        for seed in range(70):
            for asgi in (False, True):
                for sbs in (True, False):
                    run_config(seed, asgi, sbs, dirs, e2e=(seed % 3 == 0))
    finally:
        dirs.cleanup()
    finish()


if __name__ == '__main__':
    main()
