"""Model-based check of falcon's middleware / hook / responder stack discipline.

Run as:  PYTHONPATH=<falcon tree> /venv/bin/python check.py

The program generates stacks of middleware components (each implementing any
subset of process_request / process_resource / process_response, with the
sync, coroutine and *_async spellings), stacks of before/after hooks (method
level and class level), both ``independent_middleware`` settings, routed and
unrouted requests, and an action for every call site (return, set
``resp.complete``, raise an HTTPError / HTTPStatus, raise an application
error with a handler, with a handler that itself raises an HTTPError, with a
handler that itself blows up, or a plain ValueError).  Every case is executed
against a real ``falcon.App`` (WSGI) and ``falcon.asgi.App`` (ASGI) and the
recorded call sequence is compared with a small reference model of the
documented discipline.  ASGI lifespan sequencing and the structure returned
by ``prepare_middleware`` are checked against reference models, too.

Prints PASS and exits 0 when every case agrees with the model.
"""

import asyncio
import io
import itertools
import logging
import random
import sys

import falcon
import falcon.app_helpers
import falcon.asgi
import falcon.testing


# An exception that escapes App.__call__ leaves the simulated ASGI client's
# helper task pending; silence asyncio's note about that (stderr only).
logging.getLogger('asyncio').setLevel(logging.CRITICAL)

LOG = []
ACTIONS = {}

RAISING = ('http', 'status', 'generic', 'app', 'app_http', 'app_boom')
ALL_ACTIONS = ('ok', 'complete') + RAISING


class AppError(Exception):
    pass


class AppErrorHTTP(Exception):
    pass


class AppErrorBoom(Exception):
    pass


class Boom(RuntimeError):
    pass


def act(key, resp):
    """Perform the action assigned to call site *key* (real side)."""
    a = ACTIONS.get(key, 'ok')
    if a == 'ok':
        return
    if a == 'complete':
        resp.complete = True
        return
    if a == 'http':
        raise falcon.HTTPBadRequest()
    if a == 'status':
        raise falcon.HTTPStatus(falcon.HTTP_202)
    if a == 'generic':
        raise ValueError('generic failure at %r' % (key,))
    if a == 'app':
        raise AppError(key)
    if a == 'app_http':
        raise AppErrorHTTP(key)
    if a == 'app_boom':
        raise AppErrorBoom(key)
    raise AssertionError(a)


# ---------------------------------------------------------------------------
# Error handlers
# ---------------------------------------------------------------------------


def h_app(req, resp, ex, params):
    LOG.append(('handler', 'app'))


def h_app_http(req, resp, ex, params):
    LOG.append(('handler', 'app_http'))
    raise falcon.HTTPForbidden()


def h_app_boom(req, resp, ex, params):
    LOG.append(('handler', 'app_boom'))
    raise Boom('error handler failed')


async def ah_app(req, resp, ex, params):
    LOG.append(('handler', 'app'))


async def ah_app_http(req, resp, ex, params):
    LOG.append(('handler', 'app_http'))
    raise falcon.HTTPForbidden()


async def ah_app_boom(req, resp, ex, params):
    LOG.append(('handler', 'app_boom'))
    raise Boom('error handler failed')


# ---------------------------------------------------------------------------
# Middleware component factories
# ---------------------------------------------------------------------------


def _sync_methods(i):
    def process_request(self, req, resp):
        LOG.append(('req', i))
        act(('req', i), resp)

    def process_resource(self, req, resp, resource, params):
        LOG.append(('rsrc', i, params.get('id'), resource is not None))
        act(('rsrc', i), resp)

    def process_response(self, req, resp, resource, req_succeeded):
        LOG.append(('resp', i, req_succeeded, resource is not None))
        act(('resp', i), resp)

    return {
        'req': process_request,
        'rsrc': process_resource,
        'resp': process_response,
    }


def _async_methods(i):
    async def process_request(self, req, resp):
        LOG.append(('req', i))
        act(('req', i), resp)

    async def process_resource(self, req, resp, resource, params):
        LOG.append(('rsrc', i, params.get('id'), resource is not None))
        act(('rsrc', i), resp)

    async def process_response(self, req, resp, resource, req_succeeded):
        LOG.append(('resp', i, req_succeeded, resource is not None))
        act(('resp', i), resp)

    return {
        'req': process_request,
        'rsrc': process_resource,
        'resp': process_response,
    }


def _wrong_methods(i):
    # Sync twins that must NOT be picked on the ASGI side when an *_async
    # version exists.
    def process_request(self, req, resp):
        LOG.append(('WRONG-req', i))

    def process_resource(self, req, resp, resource, params):
        LOG.append(('WRONG-rsrc', i))

    def process_response(self, req, resp, resource, req_succeeded):
        LOG.append(('WRONG-resp', i))

    return {
        'req': process_request,
        'rsrc': process_resource,
        'resp': process_response,
    }


NAMES = {
    'req': 'process_request',
    'rsrc': 'process_resource',
    'resp': 'process_response',
}


def make_component(i, shape, asgi, flavour, lifespan=False):
    """Build a middleware object.

    shape: subset of {'req', 'rsrc', 'resp'}
    flavour (ASGI only): 'plain' -> coroutine process_*;
                         'suffix' -> process_*_async;
                         'dual' -> process_*_async plus sync process_* twins.
    """
    ns = {}
    if not asgi:
        meths = _sync_methods(i)
        for s in shape:
            ns[NAMES[s]] = meths[s]
        if flavour == 'dual':
            # *_async twins are ignored by WSGI apps
            ameths = _async_methods(i)
            for s in shape:
                ns[NAMES[s] + '_async'] = ameths[s]
    else:
        meths = _async_methods(i)
        for s in shape:
            if flavour == 'plain':
                ns[NAMES[s]] = meths[s]
            else:
                ns[NAMES[s] + '_async'] = meths[s]
        if flavour == 'dual':
            wrong = _wrong_methods(i)
            for s in shape:
                ns[NAMES[s]] = wrong[s]
    if lifespan:

        async def process_startup(self, scope, event):
            LOG.append(('startup', i))

        ns['process_startup'] = process_startup
    ns['__repr__'] = lambda self: '<C%d %s>' % (i, ''.join(sorted(shape)))
    return type('C%d' % i, (), ns)()


# ---------------------------------------------------------------------------
# Hooks and resources
# ---------------------------------------------------------------------------


def before_hook(req, resp, resource, params, *args, **kwargs):
    name = args[0] if args else kwargs['tag']
    LOG.append(('hook', name, isinstance(params, dict), resource is not None))
    act(('hook', name), resp)


def after_hook(req, resp, resource, *args, **kwargs):
    name = args[0] if args else kwargs['tag']
    LOG.append(('hook', name, True, resource is not None))
    act(('hook', name), resp)


async def before_hook_async(req, resp, resource, params, *args, **kwargs):
    name = args[0] if args else kwargs['tag']
    LOG.append(('hook', name, isinstance(params, dict), resource is not None))
    act(('hook', name), resp)


async def after_hook_async(req, resp, resource, *args, **kwargs):
    name = args[0] if args else kwargs['tag']
    LOG.append(('hook', name, True, resource is not None))
    act(('hook', name), resp)


def _decorator(kind, name, asgi, n):
    # Alternate positional / keyword pass-through of the extra hook argument.
    # (Coroutine responders require coroutine hooks outside falcon's own
    # test mode, so the ASGI side always uses the async twins.)
    if kind == 'before':
        fn = before_hook_async if asgi else before_hook
        deco = falcon.before
    else:
        fn = after_hook_async if asgi else after_hook
        deco = falcon.after
    if n % 2:
        return deco(fn, name)
    return deco(fn, tag=name)


def make_resource(method_wrappers, class_wrappers, asgi, via_super):
    """Build a resource whose on_get is wrapped by the given hook stacks.

    Each wrappers list is ordered outermost first.
    """
    if asgi:

        async def on_get(self, req, resp, id):
            LOG.append(('responder', id))
            act(('responder',), resp)

    else:

        def on_get(self, req, resp, id):
            LOG.append(('responder', id))
            act(('responder',), resp)

    n = 0
    fn = on_get
    for kind, name in reversed(method_wrappers):
        fn = _decorator(kind, name, asgi, n)(fn)
        n += 1

    cls = type('Res', (), {'on_get': fn})
    for kind, name in reversed(class_wrappers):
        cls = _decorator(kind, name, asgi, n)(cls)
        n += 1

    if via_super:
        # The subclass calls the (wrapped) parent responder with a positional
        # argument, which exercises _merge_responder_args().
        if asgi:

            class Sub(cls):
                async def on_get(self, req, resp, id):
                    await super().on_get(req, resp, id)

        else:

            class Sub(cls):
                def on_get(self, req, resp, id):
                    super().on_get(req, resp, id)

        cls = Sub
    return cls()


# ---------------------------------------------------------------------------
# Reference model
# ---------------------------------------------------------------------------


class _Raised(Exception):
    def __init__(self, a):
        self.a = a


class _Propagate(Exception):
    pass


def model(case):
    shapes = case['shapes']
    indep = case['independent']
    routed = case['routed']
    actions = case['actions']
    wrappers = list(case['class_wrappers']) + list(case['method_wrappers'])

    ev = []
    st = {'complete': False}

    def site(key):
        a = actions.get(key, 'ok')
        if a == 'ok':
            return
        if a == 'complete':
            st['complete'] = True
            return
        raise _Raised(a)

    def handle(a):
        if a in ('app', 'app_http', 'app_boom'):
            ev.append(('handler', a))
        if a == 'app_boom':
            raise _Propagate()

    def run(ws, have_resource):
        if not ws:
            ev.append(('responder', '7'))
            site(('responder',))
            return
        kind, name = ws[0]
        if kind == 'before':
            ev.append(('hook', name, True, have_resource))
            site(('hook', name))
            run(ws[1:], have_resource)
        else:
            run(ws[1:], have_resource)
            ev.append(('hook', name, True, have_resource))
            site(('hook', name))

    succeeded = False
    have_resource = False
    queued = []
    propagated = False
    try:
        ok1 = True
        try:
            if indep:
                for i, shape in enumerate(shapes):
                    if 'req' in shape:
                        ev.append(('req', i))
                        site(('req', i))
                        if st['complete']:
                            break
            else:
                for i, shape in enumerate(shapes):
                    if 'req' in shape or 'resp' in shape:
                        if 'req' in shape and not st['complete']:
                            ev.append(('req', i))
                            site(('req', i))
                        if 'resp' in shape:
                            queued.insert(0, i)
            if not st['complete']:
                have_resource = routed
        except _Raised as r:
            ok1 = False
            handle(r.a)

        if ok1:
            try:
                if have_resource:
                    for i, shape in enumerate(shapes):
                        if 'rsrc' in shape:
                            ev.append(('rsrc', i, '7', True))
                            site(('rsrc', i))
                            if st['complete']:
                                break
                if not st['complete']:
                    if routed:
                        run(wrappers, True)
                    else:
                        raise _Raised('http')  # default 404 responder
                succeeded = True
            except _Raised as r:
                handle(r.a)

        if indep:
            stack = [i for i, s in reversed(list(enumerate(shapes))) if 'resp' in s]
        else:
            stack = queued
        for i in stack:
            ev.append(('resp', i, succeeded, have_resource))
            try:
                site(('resp', i))
            except _Raised as r:
                handle(r.a)
                succeeded = False
    except _Propagate:
        propagated = True
    return ev, propagated


# ---------------------------------------------------------------------------
# Real execution
# ---------------------------------------------------------------------------


def build_app(case, asgi):
    shapes = case['shapes']
    comps = [
        make_component(i, shape, asgi, case['flavours'][i])
        for i, shape in enumerate(shapes)
    ]
    cls = falcon.asgi.App if asgi else falcon.App
    split = case['ctor_split']
    first, rest = comps[:split], comps[split:]
    if case['ctor_style'] == 'single' and len(first) == 1:
        mw = first[0]
    elif case['ctor_style'] == 'none' and not first:
        mw = None
    else:
        mw = first
    app = cls(middleware=mw, independent_middleware=case['independent'])
    if case['add_style'] == 'one_by_one':
        for c in rest:
            app.add_middleware(c)
    elif rest:
        app.add_middleware(rest)

    if asgi:
        app.add_error_handler(AppError, ah_app)
        app.add_error_handler(AppErrorHTTP, ah_app_http)
        app.add_error_handler(AppErrorBoom, ah_app_boom)
    else:
        app.add_error_handler(AppError, h_app)
        app.add_error_handler(AppErrorHTTP, h_app_http)
        app.add_error_handler(AppErrorBoom, h_app_boom)

    res = make_resource(
        case['method_wrappers'], case['class_wrappers'], asgi, case['via_super']
    )
    app.add_route('/r/{id}', res)
    return app


def execute(case, asgi):
    global ACTIONS
    app = build_app(case, asgi)
    del LOG[:]
    ACTIONS = case['actions']
    path = '/r/7' if case['routed'] else '/nowhere'
    propagated = False
    try:
        if asgi:
            falcon.testing.simulate_get(app, path)
        else:
            falcon.testing.simulate_get(app, path, wsgierrors=io.StringIO())
    except Boom:
        propagated = True
    return list(LOG), propagated


FAILURES = []
COUNT = [0]


def check_case(case):
    expected = model(case)
    for asgi in (False, True):
        got = execute(case, asgi)
        COUNT[0] += 1
        if got != expected:
            FAILURES.append((('ASGI' if asgi else 'WSGI'), case, expected, got))


def base_case(**kw):
    case = {
        'shapes': [],
        'flavours': [],
        'independent': True,
        'routed': True,
        'actions': {},
        'method_wrappers': [],
        'class_wrappers': [],
        'via_super': False,
        'ctor_split': 0,
        'ctor_style': 'list',
        'add_style': 'list',
    }
    case.update(kw)
    if not case['flavours']:
        case['flavours'] = ['plain'] * len(case['shapes'])
    if 'ctor_split' not in kw:
        case['ctor_split'] = len(case['shapes'])
    return case


ALL_SHAPES = [
    frozenset(c)
    for n in (1, 2, 3)
    for c in itertools.combinations(('req', 'rsrc', 'resp'), n)
]


def sites_of(case):
    sites = []
    for i, s in enumerate(case['shapes']):
        for k in ('req', 'rsrc', 'resp'):
            if k in s:
                sites.append((k, i))
    for _, name in case['class_wrappers'] + case['method_wrappers']:
        sites.append(('hook', name))
    sites.append(('responder',))
    return sites


def gen_exhaustive_single_fault():
    full = frozenset(('req', 'rsrc', 'resp'))
    for indep in (True, False):
        for routed in (True, False):
            proto = base_case(
                shapes=[full, full, full],
                independent=indep,
                routed=routed,
                method_wrappers=[('before', 'b1'), ('after', 'a1')],
            )
            for site in sites_of(proto):
                for a in ALL_ACTIONS:
                    case = dict(proto)
                    case['actions'] = {site: a}
                    yield case


def gen_double_fault():
    # Every pair (fault in a request/resource/responder site, fault in a
    # process_response site) for a 3-component stack, both modes.
    full = frozenset(('req', 'rsrc', 'resp'))
    shapes = [full, frozenset(('req', 'resp')), full]
    for indep in (True, False):
        proto = base_case(shapes=shapes, independent=indep)
        early = [s for s in sites_of(proto) if s[0] != 'resp']
        late = [s for s in sites_of(proto) if s[0] == 'resp']
        for e in early:
            for ea in ('complete', 'http', 'app', 'app_boom'):
                for l in late:
                    for la in ('http', 'app_http', 'app_boom'):
                        case = dict(proto)
                        case['actions'] = {e: ea, l: la}
                        yield case


def gen_shapes_exhaustive():
    # All shape pairs, no faults and one 'complete' in the first request site.
    for s0 in ALL_SHAPES:
        for s1 in ALL_SHAPES:
            for indep in (True, False):
                yield base_case(shapes=[s0, s1], independent=indep)
                if 'req' in s0:
                    yield base_case(
                        shapes=[s0, s1],
                        independent=indep,
                        actions={('req', 0): 'complete'},
                    )
                    yield base_case(
                        shapes=[s0, s1],
                        independent=indep,
                        actions={('req', 0): 'app'},
                    )


def gen_random(rng, n):
    for _ in range(n):
        ncomp = rng.randint(0, 4)
        shapes = [rng.choice(ALL_SHAPES) for _ in range(ncomp)]
        flavours = [rng.choice(('plain', 'suffix', 'dual')) for _ in range(ncomp)]
        nb = rng.randint(0, 3)
        names = ['h%d' % k for k in range(nb + 2)]
        wr = [(rng.choice(('before', 'after')), nm) for nm in names[:nb]]
        cut = rng.randint(0, len(wr))
        case = base_case(
            shapes=shapes,
            flavours=flavours,
            independent=rng.random() < 0.5,
            routed=rng.random() < 0.8,
            class_wrappers=wr[:cut],
            method_wrappers=wr[cut:],
            via_super=rng.random() < 0.3,
            ctor_split=rng.randint(0, ncomp),
            ctor_style=rng.choice(('list', 'single', 'none')),
            add_style=rng.choice(('list', 'one_by_one')),
        )
        sites = sites_of(case)
        nfaults = rng.choice((0, 1, 1, 2, 2, 3, 4))
        actions = {}
        for _ in range(nfaults):
            actions[rng.choice(sites)] = rng.choice(ALL_ACTIONS)
        case['actions'] = actions
        yield case


# ---------------------------------------------------------------------------
# Direct calls of hook-wrapped responders (sync and async twins)
# ---------------------------------------------------------------------------


def check_hooks_direct():
    global ACTIONS
    n = 0
    for asgi in (False, True):
        for stack in itertools.product(('before', 'after'), repeat=3):
            for cut in range(4):
                for faulty in (None, 0, 1, 2, 'responder'):
                    for a in ('complete', 'http', 'app'):
                        wr = [(k, 'd%d' % j) for j, k in enumerate(stack)]
                        case = base_case(
                            class_wrappers=wr[:cut], method_wrappers=wr[cut:]
                        )
                        if faulty is None:
                            if a != 'complete':
                                continue
                            actions = {}
                        elif faulty == 'responder':
                            actions = {('responder',): a}
                        else:
                            actions = {('hook', 'd%d' % faulty): a}
                        res = make_resource(wr[cut:], wr[:cut], asgi, False)

                        # Expected, from the model's recursive discipline
                        exp = []
                        raised = [None]

                        def run(ws):
                            if not ws:
                                exp.append(('responder', '7'))
                                aa = actions.get(('responder',), 'ok')
                                if aa not in ('ok', 'complete'):
                                    raise _Raised(aa)
                                return
                            kind, name = ws[0]
                            if kind == 'before':
                                exp.append(('hook', name, True, True))
                                aa = actions.get(('hook', name), 'ok')
                                if aa not in ('ok', 'complete'):
                                    raise _Raised(aa)
                                run(ws[1:])
                            else:
                                run(ws[1:])
                                exp.append(('hook', name, True, True))
                                aa = actions.get(('hook', name), 'ok')
                                if aa not in ('ok', 'complete'):
                                    raise _Raised(aa)

                        try:
                            run(wr)
                        except _Raised as r:
                            raised[0] = r.a

                        del LOG[:]
                        ACTIONS = actions
                        resp = falcon.Response()
                        got_raised = None
                        for style in ('kw', 'pos'):
                            del LOG[:]
                            got_raised = None
                            try:
                                if asgi:
                                    if style == 'kw':
                                        coro = res.on_get(None, resp, id='7')
                                    else:
                                        coro = res.on_get(None, resp, '7')
                                    asyncio.run(coro)
                                else:
                                    if style == 'kw':
                                        res.on_get(None, resp, id='7')
                                    else:
                                        res.on_get(None, resp, '7')
                            except falcon.HTTPBadRequest:
                                got_raised = 'http'
                            except AppError:
                                got_raised = 'app'
                            n += 1
                            if list(LOG) != exp or got_raised != raised[0]:
                                FAILURES.append(
                                    ('hooks-direct', asgi, wr, cut, actions, exp, list(LOG))
                                )
    return n


# ---------------------------------------------------------------------------
# prepare_middleware structure
# ---------------------------------------------------------------------------


def check_prepare_middleware(rng):
    n = 0
    pm = falcon.app_helpers.prepare_middleware
    for _ in range(300):
        asgi = rng.random() < 0.5
        indep = rng.random() < 0.5
        ncomp = rng.randint(0, 5)
        shapes = [rng.choice(ALL_SHAPES) for _ in range(ncomp)]
        flavours = [rng.choice(('plain', 'suffix', 'dual')) for _ in range(ncomp)]
        comps = [
            make_component(i, s, asgi, f)
            for i, (s, f) in enumerate(zip(shapes, flavours))
        ]
        # sprinkle lifespan-only components on the ASGI side
        if asgi and rng.random() < 0.5:
            pos = rng.randint(0, len(comps))
            comps.insert(pos, make_component(99, frozenset(), True, 'plain', True))
            shapes.insert(pos, frozenset())
            flavours.insert(pos, 'plain')
        source = rng.choice(('list', 'tuple', 'iter'))
        arg = {'list': list, 'tuple': tuple, 'iter': iter}[source](comps)
        if rng.random() < 0.5:
            result = pm(arg, indep, asgi)
        else:
            result = pm(arg, independent_middleware=indep, asgi=asgi)
        n += 1

        def meth(c, s, f):
            name = NAMES[s]
            if asgi and f != 'plain':
                name += '_async'
            return getattr(c, name)

        exp_req = []
        exp_rsrc = []
        exp_resp = []
        for c, s, f in zip(comps, shapes, flavours):
            rq = meth(c, 'req', f) if 'req' in s else None
            rs = meth(c, 'resp', f) if 'resp' in s else None
            if indep:
                if rq:
                    exp_req.append(rq)
                if rs:
                    exp_resp.insert(0, rs)
            elif rq or rs:
                exp_req.append((rq, rs))
            if 'rsrc' in s:
                exp_rsrc.append(meth(c, 'rsrc', f))
        expected = (tuple(exp_req), tuple(exp_rsrc), tuple(exp_resp))
        ok = (
            type(result) is tuple
            and len(result) == 3
            and all(type(x) is tuple for x in result)
            and result == expected
        )
        if ok and not indep:
            ok = all(type(p) is tuple and len(p) == 2 for p in result[0])
        if not ok:
            FAILURES.append(('prepare_middleware', asgi, indep, shapes, result, expected))

    # Error reporting
    class Nothing:
        pass

    class SyncOnly:
        def process_request(self, req, resp):
            pass

    class CoroOnly:
        async def process_response(self, req, resp, resource, ok):
            pass

    class WsOnly:
        async def process_request_ws(self, req, ws):
            pass

    class ShutdownOnly:
        async def process_shutdown(self, scope, event):
            pass

    good = make_component(0, frozenset(('req',)), False, 'plain')
    agood = make_component(0, frozenset(('req',)), True, 'plain')
    for indep in (True, False):
        for asgi, comps, exc in (
            (False, [Nothing()], TypeError),
            (True, [Nothing()], TypeError),
            (False, [good, Nothing()], TypeError),
            (False, [WsOnly()], TypeError),
            (False, [ShutdownOnly()], TypeError),
            (False, [CoroOnly()], falcon.CompatibilityError),
            (False, [good, CoroOnly()], falcon.CompatibilityError),
            (True, [SyncOnly()], falcon.CompatibilityError),
            (True, [agood, SyncOnly()], falcon.CompatibilityError),
        ):
            n += 1
            try:
                pm(comps, indep, asgi)
            except exc:
                pass
            except Exception as ex:  # pragma: no cover
                FAILURES.append(('prepare_middleware-exc', asgi, comps, repr(ex)))
            else:
                FAILURES.append(('prepare_middleware-noexc', asgi, comps))
        for comps in ([WsOnly()], [ShutdownOnly()], [agood, WsOnly()]):
            n += 1
            r = pm(comps, indep, True)
            exp_first = ((agood.process_request,) if indep else ((agood.process_request, None),)) if len(comps) == 2 else ()
            if r != (exp_first, (), ()):
                FAILURES.append(('prepare_middleware-lifespan-only', comps, r))
    return n


# ---------------------------------------------------------------------------
# ASGI lifespan
# ---------------------------------------------------------------------------


def make_lifespan_component(i, shape, acts):
    ns = {}
    if 'startup' in shape:

        async def process_startup(self, scope, event):
            LOG.append(('startup', i, event['type']))
            if acts.get(('startup', i)) == 'raise':
                raise ValueError('startup %d failed' % i)

        ns['process_startup'] = process_startup
    if 'shutdown' in shape:

        async def process_shutdown(self, scope, event):
            LOG.append(('shutdown', i, event['type']))
            if acts.get(('shutdown', i)) == 'raise':
                raise ValueError('shutdown %d failed' % i)

        ns['process_shutdown'] = process_shutdown
    if 'req' in shape:

        async def process_request(self, req, resp):
            pass

        ns['process_request'] = process_request
    return type('L%d' % i, (), ns)()


def lifespan_model(shapes, acts):
    ev = []
    sent = []
    receives = 1
    for i, s in enumerate(shapes):
        if 'startup' in s:
            ev.append(('startup', i, 'lifespan.startup'))
            if acts.get(('startup', i)) == 'raise':
                sent.append(('lifespan.startup.failed', 'startup %d failed' % i))
                return ev, sent, receives
    sent.append(('lifespan.startup.complete', None))
    receives += 1
    for i, s in reversed(list(enumerate(shapes))):
        if 'shutdown' in s:
            ev.append(('shutdown', i, 'lifespan.shutdown'))
            if acts.get(('shutdown', i)) == 'raise':
                sent.append(('lifespan.shutdown.failed', 'shutdown %d failed' % i))
                return ev, sent, receives
    sent.append(('lifespan.shutdown.complete', None))
    return ev, sent, receives


def run_lifespan(app, version='3.0', events=('lifespan.startup', 'lifespan.shutdown')):
    sent = []
    nrecv = [0]
    pending = list(events)

    async def receive():
        nrecv[0] += 1
        if not pending:
            raise AssertionError('receive() called after the last event')
        return {'type': pending.pop(0)}

    async def send(msg):
        sent.append(msg)

    scope = {'type': 'lifespan', 'asgi': {'version': version, 'spec_version': '2.0'}}
    del LOG[:]
    asyncio.run(app(scope, receive, send))
    return list(LOG), sent, nrecv[0]


def check_lifespan(rng):
    n = 0
    shapes_pool = [
        frozenset(c)
        for k in (1, 2, 3)
        for c in itertools.combinations(('startup', 'shutdown', 'req'), k)
    ]
    cases = []
    # exhaustive: 3 full components, every single/double fault placement
    full = frozenset(('startup', 'shutdown', 'req'))
    sites = [('startup', i) for i in range(3)] + [('shutdown', i) for i in range(3)]
    for k in (0, 1, 2):
        for combo in itertools.combinations(sites, k):
            cases.append(([full] * 3, {s: 'raise' for s in combo}))
    for _ in range(250):
        ncomp = rng.randint(0, 5)
        shapes = [rng.choice(shapes_pool) for _ in range(ncomp)]
        acts = {}
        for i, s in enumerate(shapes):
            for k in ('startup', 'shutdown'):
                if k in s and rng.random() < 0.2:
                    acts[(k, i)] = 'raise'
        cases.append((shapes, acts))

    for shapes, acts in cases:
        comps = [make_lifespan_component(i, s, acts) for i, s in enumerate(shapes)]
        split = rng.randint(0, len(comps))
        app = falcon.asgi.App(
            middleware=comps[:split], independent_middleware=rng.random() < 0.5
        )
        for c in comps[split:]:
            app.add_middleware(c)
        exp_ev, exp_sent, exp_recv = lifespan_model(shapes, acts)
        ev, sent, nrecv = run_lifespan(app)
        n += 1
        ok = ev == exp_ev and nrecv == exp_recv and len(sent) == len(exp_sent)
        if ok:
            for msg, (typ, text) in zip(sent, exp_sent):
                if msg['type'] != typ:
                    ok = False
                elif text is None:
                    ok = ok and set(msg) == {'type'}
                else:
                    ok = (
                        ok
                        and set(msg) == {'type', 'message'}
                        and isinstance(msg['message'], str)
                        and msg['message'].startswith('Traceback')
                        and msg['message'].rstrip().endswith('ValueError: ' + text)
                    )
        if not ok:
            FAILURES.append(('lifespan', shapes, acts, (exp_ev, exp_sent, exp_recv), (ev, sent, nrecv)))

    # Pre-flight failures stop the sequence before any handler runs.
    full3 = [make_lifespan_component(i, full, {}) for i in range(3)]
    app = falcon.asgi.App(middleware=full3)
    ev, sent, nrecv = run_lifespan(app, version='2.0')
    n += 1
    if ev or nrecv != 1 or [m['type'] for m in sent] != ['lifespan.startup.failed']:
        FAILURES.append(('lifespan-version', ev, sent, nrecv))
    app = falcon.asgi.App(middleware=full3)
    app.req_options._auto_parse_form_urlencoded = True
    ev, sent, nrecv = run_lifespan(app)
    n += 1
    if ev or nrecv != 1 or [m['type'] for m in sent] != ['lifespan.startup.failed']:
        FAILURES.append(('lifespan-form', ev, sent, nrecv))
    # Shutdown only (no startup event first)
    app = falcon.asgi.App(middleware=full3)
    ev, sent, nrecv = run_lifespan(app, events=('lifespan.shutdown',))
    n += 1
    if (
        ev != [('shutdown', i, 'lifespan.shutdown') for i in (2, 1, 0)]
        or nrecv != 1
        or sent != [{'type': 'lifespan.shutdown.complete'}]
    ):
        FAILURES.append(('lifespan-shutdown-only', ev, sent, nrecv))
    return n


def main():
    rng = random.Random(20240601)
    for gen in (
        gen_exhaustive_single_fault(),
        gen_double_fault(),
        gen_shapes_exhaustive(),
        gen_random(rng, 700),
    ):
        for case in gen:
            check_case(case)
    n_hooks = check_hooks_direct()
    n_pm = check_prepare_middleware(rng)
    n_ls = check_lifespan(rng)

    print(
        'request-cycle executions: %d, direct hook calls: %d, '
        'prepare_middleware cases: %d, lifespan cases: %d'
        % (COUNT[0], n_hooks, n_pm, n_ls)
    )
    if FAILURES:
        print('FAIL: %d mismatches; first few:' % len(FAILURES))
        for f in FAILURES[:5]:
            print('  ', f)
        sys.exit(1)
    print('PASS')


if __name__ == '__main__':
    main()
