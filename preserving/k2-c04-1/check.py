"""Property C04 check: every raised exception becomes the response its most
specific handler defines.

Run as:  PYTHONPATH=<falcon tree> /venv/bin/python check.py

Parts
  A. _find_error_handler() against a reference model (argmin over the MRO, latest
     registration per class wins) on random class hierarchies / registration
     histories, including BaseException-only classes and unregistered lineages.
  B. End to end, WSGI and ASGI: random hierarchies, random registration histories,
     every raise site (request/resource/response middleware, before/after hooks,
     responder, routing 404, body rendering, the error handlers themselves),
     junk text/data/media set before the raise must be discarded.
  C. Default serialization: random unicode title/description/code/href/headers,
     many Accept headers x several media-handler configurations; the chosen
     representation is compared with a table recorded on the UNMODIFIED tree and
     the body is decoded and compared with a reference model of to_dict().
  D. A few focused checks for the code touched by this change (see bottom).
"""

import io
import json
import random
import sys
import urllib.parse
import xml.etree.ElementTree as ET

import falcon
import falcon.asgi
import falcon.media
import falcon.testing as testing

FAILURES = []
COUNTS = {'A': 0, 'B': 0, 'C': 0, 'D': 0}


def fail(part, msg):
    FAILURES.append('[%s] %s' % (part, msg))


def check(part, cond, msg):
    COUNTS[part] += 1
    if not cond:
        fail(part, msg)


# ---------------------------------------------------------------------------
# Random exception hierarchies
# ---------------------------------------------------------------------------


class St(falcon.HTTPStatus):
    """An HTTPStatus subclass that can be raised without arguments."""


def _init_instance(cls):
    """Build an instance of cls, initialising the falcon base explicitly."""
    inst = cls.__new__(cls)
    if issubclass(cls, falcon.HTTPStatus):
        falcon.HTTPStatus.__init__(
            inst, falcon.HTTP_203, headers={'X-St': '1'}, text='st-text'
        )
    elif issubclass(cls, falcon.HTTPConflict):
        falcon.HTTPConflict.__init__(inst)
    elif issubclass(cls, falcon.HTTPNotFound):
        falcon.HTTPNotFound.__init__(inst)
    elif issubclass(cls, falcon.HTTPError):
        falcon.HTTPError.__init__(inst, falcon.HTTP_418)
    else:
        BaseException.__init__(inst, 'boom')
    return inst


ROOTS = [
    Exception,
    Exception,
    ValueError,
    KeyError,
    LookupError,
    RuntimeError,
    falcon.HTTPNotFound,
    falcon.HTTPConflict,
    falcon.HTTPError,
    St,
]


def make_hierarchy(rng, n, allow_base_only=False):
    """Return a list of n new exception classes forming a random DAG."""
    classes = []
    attempts = 0
    while len(classes) < n and attempts < 200:
        attempts += 1
        pool = ROOTS + classes * 3
        if allow_base_only:
            pool = pool + [BaseException, KeyboardInterrupt]
        k = rng.choice([1, 1, 1, 2, 2, 3])
        bases = []
        for _ in range(k):
            b = rng.choice(pool)
            if b not in bases:
                bases.append(b)
        name = 'E%d' % len(classes)
        try:
            cls = type(name, tuple(bases), {})
            _init_instance(cls)
        except TypeError:
            continue  # MRO or layout conflict; try another combination
        classes.append(cls)
    return classes


def ref_find(history, cls):
    """Reference model: nearest class in the MRO; latest registration wins."""
    latest = {}
    for c, h in history:
        latest[c] = h
    for c in cls.__mro__:
        if c in latest:
            return latest[c]
    return None


# ---------------------------------------------------------------------------
# Part A
# ---------------------------------------------------------------------------


def part_a(seed, n_cases):
    rng = random.Random(seed)
    for case in range(n_cases):
        asgi = bool(case % 2)
        app = falcon.asgi.App() if asgi else falcon.App()
        classes = make_hierarchy(rng, rng.randint(3, 9), allow_base_only=True)
        history = [
            (Exception, app._python_error_handler),
            (falcon.HTTPError, app._http_error_handler),
            (falcon.HTTPStatus, app._http_status_handler),
        ]
        clear_defaults = rng.random() < 0.25
        if clear_defaults:
            # Exercise lineages with no handler at all.
            app._error_handlers.clear()
            history = []
        regpool = classes + [
            Exception,
            falcon.HTTPError,
            falcon.HTTPNotFound,
            falcon.HTTPStatus,
            BaseException,
            ValueError,
            LookupError,
        ]
        for i in range(rng.randint(0, 8)):
            if asgi:

                async def h(req, resp, ex, params):
                    pass
            else:

                def h(req, resp, ex, params):
                    pass

            if rng.random() < 0.2:
                targets = tuple(rng.sample(regpool, 2))
                app.add_error_handler(targets, h)
                # NOTE: same handler object; in ASGI a wrapper could be made,
                # but coroutine functions are registered as they are.
                for t in targets:
                    history.append((t, h))
            else:
                t = rng.choice(regpool)
                app.add_error_handler(t, h)
                history.append((t, h))

        probes = classes + [
            Exception,
            ValueError,
            KeyError,
            BaseException,
            KeyboardInterrupt,
            SystemExit,
            GeneratorExit,
            falcon.HTTPRouteNotFound,
            falcon.HTTPNotFound,
            falcon.HTTPError,
            falcon.HTTPStatus,
            St,
            falcon.HTTPMovedPermanently,
        ]
        for cls in probes:
            try:
                inst = _init_instance(cls)
            except Exception:
                inst = cls.__new__(cls)
            got = app._find_error_handler(inst)
            want = ref_find(history, cls)
            check(
                'A',
                got == want,
                'case %d asgi=%s %s mro=%s: got %r want %r'
                % (case, asgi, cls.__name__, [c.__name__ for c in cls.__mro__], got, want),
            )


# ---------------------------------------------------------------------------
# Part B
# ---------------------------------------------------------------------------

HANDLER_KINDS = ['text', 'data', 'media', 'nothing', 'raise_error', 'raise_status']
SITES = [
    'process_request',
    'process_resource',
    'before_hook',
    'responder',
    'after_hook',
    'process_response',
    'render',
    'not_found',
]
BOOM_TYPE = 'application/x-boom'


def handler_body(i, kind, req, resp, ex, params):
    name = type(ex).__name__
    if kind == 'text':
        resp.status = 202
        resp.set_header('X-Handler', str(i))
        resp.text = 'H%d:%s:\u00e9' % (i, name)
    elif kind == 'data':
        resp.status = 202
        resp.set_header('X-Handler', str(i))
        resp.data = ('B%d:%s' % (i, name)).encode()
    elif kind == 'media':
        resp.status = 202
        resp.set_header('X-Handler', str(i))
        resp.media = {'h': i, 'cls': name}
    elif kind == 'nothing':
        resp.status = 202
        resp.set_header('X-Handler', str(i))
    elif kind == 'raise_error':
        raise falcon.HTTPError(
            422,
            title='T%d\u00e9<' % i,
            description='D%d & "q" %s' % (i, name),
            headers={'X-Handler': str(i)},
            code=i,
        )
    elif kind == 'raise_status':
        raise falcon.HTTPStatus(
            207, headers={'X-Handler': str(i)}, text='S%d\u00fc%s' % (i, name)
        )
    else:
        raise AssertionError(kind)


def make_handler(i, kind, asgi):
    if asgi:

        async def handler(req, resp, ex, params):
            handler_body(i, kind, req, resp, ex, params)
    else:

        def handler(req, resp, ex, params):
            handler_body(i, kind, req, resp, ex, params)

    return handler


def set_junk(rng_choice, resp):
    if rng_choice == 0:
        resp.text = 'JUNK-TEXT'
    elif rng_choice == 1:
        resp.data = b'JUNK-DATA'
    elif rng_choice == 2:
        resp.media = {'junk': True}
    else:
        resp.text = 'JUNK-TEXT'
        resp.media = {'junk': True}


class BoomHandler(falcon.media.BaseHandler):
    def __init__(self, current):
        self.current = current

    def serialize(self, media, content_type):
        raise self.current['make']()

    async def serialize_async(self, media, content_type):
        raise self.current['make']()

    def deserialize(self, stream, content_type, content_length):
        raise NotImplementedError


def build_app(asgi, current):
    """An app whose raise site / exception are chosen through ``current``."""

    def maybe_raise(site, resp):
        if current['site'] == site:
            if resp is not None:
                set_junk(current['junk'], resp)
            raise current['make']()

    if asgi:

        class MW:
            async def process_request(self, req, resp):
                maybe_raise('process_request', resp)

            async def process_resource(self, req, resp, resource, params):
                maybe_raise('process_resource', resp)

            async def process_response(self, req, resp, resource, req_succeeded):
                maybe_raise('process_response', resp)

        async def before(req, resp, resource, params):
            maybe_raise('before_hook', resp)

        async def after(req, resp, resource):
            maybe_raise('after_hook', resp)

        class Res:
            @falcon.before(before)
            @falcon.after(after)
            async def on_get(self, req, resp):
                resp.text = 'OK-BODY'
                maybe_raise('responder', resp)
                if current['site'] == 'render':
                    resp.text = None
                    resp.media = {'will': 'boom'}
                    resp.content_type = BOOM_TYPE

        app = falcon.asgi.App(middleware=[MW()])
    else:

        class MW:
            def process_request(self, req, resp):
                maybe_raise('process_request', resp)

            def process_resource(self, req, resp, resource, params):
                maybe_raise('process_resource', resp)

            def process_response(self, req, resp, resource, req_succeeded):
                maybe_raise('process_response', resp)

        def before(req, resp, resource, params):
            maybe_raise('before_hook', resp)

        def after(req, resp, resource):
            maybe_raise('after_hook', resp)

        class Res:
            @falcon.before(before)
            @falcon.after(after)
            def on_get(self, req, resp):
                resp.text = 'OK-BODY'
                maybe_raise('responder', resp)
                if current['site'] == 'render':
                    resp.text = None
                    resp.media = {'will': 'boom'}
                    resp.content_type = BOOM_TYPE

        app = falcon.App(middleware=[MW()])

    app.add_route('/r', Res())
    app.resp_options.media_handlers[BOOM_TYPE] = BoomHandler(current)
    return app


def expected_response(desc, inst, site):
    """Return (status, headers-subset, body) the selected handler defines."""
    name = type(inst).__name__
    if desc == 'py':
        status, hdrs = 500, {'vary': 'Accept', 'content-type': 'application/json'}
        body = {'title': '500 Internal Server Error'}
    elif desc == 'err':
        status = inst.status_code
        hdrs = {'vary': 'Accept', 'content-type': 'application/json'}
        body = {'title': inst.title}
    elif desc == 'st':
        status, hdrs, body = 203, {'x-st': '1'}, b'st-text'
    else:
        i, kind = desc
        hdrs = {'x-handler': str(i)}
        if kind == 'text':
            status, body = 202, ('H%d:%s:\u00e9' % (i, name)).encode()
        elif kind == 'data':
            status, body = 202, ('B%d:%s' % (i, name)).encode()
        elif kind == 'media':
            status, body = 202, {'h': i, 'cls': name}
        elif kind == 'nothing':
            status, body = 202, b''
        elif kind == 'raise_error':
            status = 422
            hdrs['vary'] = 'Accept'
            hdrs['content-type'] = 'application/json'
            body = {
                'title': 'T%d\u00e9<' % i,
                'description': 'D%d & "q" %s' % (i, name),
                'code': i,
            }
        elif kind == 'raise_status':
            status, body = 207, ('S%d\u00fc%s' % (i, name)).encode()
    if site == 'render':
        # The body was being rendered when the error happened; the handler's
        # status and headers are used, no second rendering takes place.
        body = b''
    return status, hdrs, body


def part_b(seed, n_apps):
    rng = random.Random(seed)
    for appno in range(n_apps):
        asgi = bool(appno % 2)
        current = {'site': None, 'make': None, 'junk': 0}
        app = build_app(asgi, current)
        classes = make_hierarchy(rng, rng.randint(4, 8))
        history = [(Exception, 'py'), (falcon.HTTPError, 'err'), (falcon.HTTPStatus, 'st')]
        regpool = classes * 2 + [
            Exception,
            falcon.HTTPError,
            falcon.HTTPNotFound,
            falcon.HTTPStatus,
            ValueError,
            LookupError,
        ]
        for i in range(rng.randint(0, 7)):
            kind = rng.choice(HANDLER_KINDS)
            h = make_handler(i, kind, asgi)
            if rng.random() < 0.2:
                targets = rng.sample(regpool, 2)
                app.add_error_handler(
                    targets if rng.random() < 0.5 else tuple(targets), h
                )
                for t in targets:
                    history.append((t, (i, kind)))
            else:
                t = rng.choice(regpool)
                app.add_error_handler(t, h)
                history.append((t, (i, kind)))

        client = testing.TestClient(app)
        probes = [(c, s) for c in classes for s in rng.sample(SITES[:-1], 2)]
        probes.append((falcon.HTTPRouteNotFound, 'not_found'))
        probes.append((ValueError, rng.choice(SITES[:-1])))
        probes.append((falcon.HTTPNotFound, rng.choice(SITES[:-1])))
        for cls, site in probes:
            current['site'] = site
            current['make'] = lambda cls=cls: _init_instance(cls)
            current['junk'] = rng.randint(0, 3)
            path = '/nope' if site == 'not_found' else '/r'
            label = 'app %d asgi=%s %s@%s mro=%s' % (
                appno,
                asgi,
                cls.__name__,
                site,
                [c.__name__ for c in cls.__mro__[:-1]],
            )
            try:
                result = client.simulate_get(path, headers={'Accept': 'application/json'})
            except Exception as ex:  # escaped to the server
                check('B', False, '%s: ESCAPED %r' % (label, ex))
                continue
            desc = ref_find(history, cls)
            inst = _init_instance(cls)
            status, hdrs, body = expected_response(desc, inst, site)
            ok = result.status_code == status
            for k, v in hdrs.items():
                if k == 'content-type' and site == 'render':
                    continue
                ok = ok and result.headers.get(k) == v
            if isinstance(body, dict):
                try:
                    ok = ok and json.loads(result.content.decode('utf-8')) == body
                except ValueError:
                    ok = False
            else:
                ok = ok and result.content == body
            ok = ok and b'JUNK' not in result.content and b'junk' not in result.content
            check(
                'B',
                ok,
                '%s: handler %r: want (%r, %r, %r) got (%r, %r, %r)'
                % (
                    label,
                    desc,
                    status,
                    hdrs,
                    body,
                    result.status_code,
                    dict(result.headers),
                    result.content,
                ),
            )


# ---------------------------------------------------------------------------
# Part C
# ---------------------------------------------------------------------------

ALPHABET = list('abcXYZ019 <>&"\'\\/;,=%+#?') + [
    '\n',
    '\t',
    '\u00e9',
    '\u00df',
    '\u4e2d',
    '\U0001f600',
    '\u2028',
    '\x7f',
    '\u0416',
]


def rand_str(rng, lo=0, hi=12):
    return ''.join(rng.choice(ALPHABET) for _ in range(rng.randint(lo, hi)))


class YAMLishHandler(falcon.media.BaseHandler):
    def serialize(self, media, content_type):
        return b'YAML:' + json.dumps(media, ensure_ascii=False).encode('utf-8')

    def deserialize(self, stream, content_type, content_length):
        raise NotImplementedError


class CustomXMLHandler(falcon.media.BaseHandler):
    def serialize(self, media, content_type):
        return b'<custom>' + json.dumps(media).encode('utf-8') + b'</custom>'

    def deserialize(self, stream, content_type, content_length):
        raise NotImplementedError


CONFIGS = [
    'default',
    'noxml',
    'yaml',
    'noxml_yaml_customxml',
    'nojson',
    'yaml_first',
    'only_json_xml',
    'only_json_noxml',
]


def configure(app, cfg):
    opts = app.resp_options
    if cfg == 'default':
        pass
    elif cfg == 'noxml':
        opts.xml_error_serialization = False
        # NOTE: without XML, "json;q=0, */*" selects the multipart handler,
        # which cannot serialize (pre-existing; not what is checked here).
        opts.media_handlers.pop(falcon.MEDIA_MULTIPART)
    elif cfg == 'yaml':
        opts.media_handlers['application/yaml'] = YAMLishHandler()
    elif cfg == 'noxml_yaml_customxml':
        opts.xml_error_serialization = False
        opts.media_handlers.pop(falcon.MEDIA_MULTIPART)
        opts.media_handlers['application/yaml'] = YAMLishHandler()
        opts.media_handlers['application/xml'] = CustomXMLHandler()
    elif cfg == 'nojson':
        opts.media_handlers.pop('application/json')
        opts.media_handlers['application/yaml'] = YAMLishHandler()
    elif cfg == 'yaml_first':
        opts.media_handlers = falcon.media.Handlers(
            {
                'application/yaml': YAMLishHandler(),
                'text/xml': CustomXMLHandler(),
                'application/json': falcon.media.JSONHandler(),
            }
        )
    elif cfg == 'only_json_xml':
        opts.media_handlers = falcon.media.Handlers(
            {'application/json': falcon.media.JSONHandler()}
        )
    elif cfg == 'only_json_noxml':
        opts.xml_error_serialization = False
        opts.media_handlers = falcon.media.Handlers(
            {'application/json': falcon.media.JSONHandler()}
        )
    else:
        raise AssertionError(cfg)


ACCEPTS = [
    None,
    '',
    '*/*',
    'application/json',
    'application/xml',
    'text/xml',
    'text/*',
    'application/*',
    'application/json;q=0.1, application/xml',
    'application/xml;q=0.5, application/json;q=0.5',
    'application/xml;q=0.5, text/xml;q=0.5',
    'text/xml;q=0.9, application/xml;q=0.8',
    'application/vnd.foo+json',
    'application/vnd.foo+xml',
    'APPLICATION/VND.FOO+JSON',
    'Application/Vnd.Foo+XML',
    'application/vnd.foo+xml, application/vnd.foo+json',
    'text/html',
    'text/html, application/xhtml+xml',
    'application/yaml',
    'application/yaml;q=0.9, application/json;q=0.8',
    'application/yaml;q=0.5, application/json;q=0.5',
    'application/yaml, application/xml',
    'application/yaml;q=0.2, text/xml;q=0.3',
    'application/x-www-form-urlencoded',
    'garbage',
    'a/b;q=x',
    'application/json;q=0',
    '*/*;q=0',
    'application/json;q=0, application/xml;q=0, */*',
    'application/json;q=0, */*',
    'application/xml, */*;q=0.1',
    ';;',
    'text/plain, application/vnd.api+json;q=0.2',
    'application/xml; charset="a,b", text/html',
    'Application/JSON',
    'TEXT/XML',
    'application/json; charset=utf-8',
    'image/png, application/x-boom+json;q=0',
    'application/json+xml',
    'text/*;q=0.3, application/*;q=0.2',
    'application/*;q=0.3, text/*;q=0.4',
]


def classify(content):
    if content == b'':
        return 'empty'
    if content.startswith(b'{'):
        return 'json'
    if content.startswith(b'<?xml version="1.0" encoding="UTF-8"?><error>'):
        return 'xml'
    if content.startswith(b'YAML:'):
        return 'yaml'
    if content.startswith(b'<custom>'):
        return 'customxml'
    if content.startswith(b'title='):
        return 'urlencoded'
    return 'other'


def make_serialization_app(asgi, cfg, current):
    if asgi:

        class Res:
            async def on_get(self, req, resp):
                resp.text = 'JUNK-TEXT'
                raise current['make']()

        app = falcon.asgi.App()
    else:

        class Res:
            def on_get(self, req, resp):
                resp.media = {'junk': 1}
                raise current['make']()

        app = falcon.App()
    app.add_route('/e', Res())
    configure(app, cfg)
    return app


SAFE = "-._~:/?#[]@!$&'()*+,;="


def rand_error(rng):
    """Return (factory, expected_status, expected_dict, expected_headers)."""
    title = rng.choice([None, '', rand_str(rng, 1), rand_str(rng, 1)])
    description = rng.choice([None, '', rand_str(rng), rand_str(rng, 1, 30)])
    code = rng.choice([None, 0, -1, 7, rng.randint(-(10**12), 10**12)])
    href = rng.choice(
        [None, '', 'http://example.com/a b?x=1&y=\u00e9#f', rand_str(rng, 1), rand_str(rng, 1)]
    )
    href_text = rng.choice([None, '', rand_str(rng, 1)])
    hval = ''.join(rng.choice('abc XYZ-_;=,09') for _ in range(rng.randint(1, 8))).strip() or 'v'
    headers = rng.choice([None, {'X-Err': hval}, [('X-Err', hval)]])
    which = rng.randint(0, 5)
    kwargs = dict(
        title=title,
        description=description,
        headers=headers,
        href=href,
        href_text=href_text,
        code=code,
    )
    if which == 0:
        status, dflt = 418, "418 I'm a teapot"
        factory = lambda: falcon.HTTPError(falcon.HTTP_418, **kwargs)  # noqa: E731
    elif which == 1:
        status, dflt = 404, '404 Not Found'
        factory = lambda: falcon.HTTPNotFound(**kwargs)  # noqa: E731
    elif which == 2:
        status, dflt = 409, '409 Conflict'
        factory = lambda: falcon.HTTPConflict(**kwargs)  # noqa: E731
    elif which == 3:
        status, dflt = 422, '422 Unprocessable Entity'
        factory = lambda: falcon.HTTPError(422, **kwargs)  # noqa: E731
    elif which == 4:
        status, dflt = 503, '503 Service Unavailable'
        factory = lambda: falcon.HTTPServiceUnavailable(**kwargs)  # noqa: E731
    else:
        status, dflt = 400, '400 Bad Request'
        factory = lambda: falcon.HTTPBadRequest(**kwargs)  # noqa: E731

    want = [('title', title or dflt)]
    if description is not None:
        want.append(('description', description))
    if code is not None:
        want.append(('code', code))
    if href:
        want.append(
            (
                'link',
                {
                    'text': href_text or 'Documentation related to this error',
                    'href': urllib.parse.quote(href, safe=SAFE),
                    'rel': 'help',
                },
            )
        )
    want_headers = {}
    if headers:
        want_headers['x-err'] = hval
    return factory, status, want, want_headers


def decode_xml(content):
    root = ET.fromstring(content.decode('utf-8'))
    assert root.tag == 'error'
    out = []
    for child in root:
        if child.tag == 'link':
            out.append(('link', {g.tag: g.text or '' for g in child}))
        elif child.tag == 'code':
            out.append(('code', int(child.text)))
        else:
            out.append((child.tag, child.text or ''))
    return out


def observe(cfg, accept, asgi, rng):
    """Perform one request; return (representation, content-type) + verify body."""
    current = {}
    app = make_serialization_app(asgi, cfg, current)
    factory, status, want, want_headers = rand_error(rng)
    current['make'] = factory
    headers = {} if accept is None else {'Accept': accept}
    client = testing.TestClient(app)
    result = client.simulate_get('/e', headers=headers)
    kind = classify(result.content)
    label = 'cfg=%s accept=%r asgi=%s want=%r' % (cfg, accept, asgi, want)

    check('C', result.status_code == status, '%s: status %r' % (label, result.status_code))
    check('C', result.headers.get('vary') == 'Accept', '%s: vary %r' % (label, result.headers.get('vary')))
    for k, v in want_headers.items():
        check('C', result.headers.get(k) == v, '%s: header %s=%r' % (label, k, result.headers.get(k)))
    check('C', b'JUNK' not in result.content and b'junk' not in result.content, '%s: junk kept' % label)

    got = None
    try:
        if kind == 'json':
            got = json.loads(result.content.decode('utf-8'), object_pairs_hook=list)
            got = [(k, dict(v) if isinstance(v, list) else v) for k, v in got]
        elif kind == 'yaml':
            got = json.loads(result.content[5:].decode('utf-8'), object_pairs_hook=list)
            got = [(k, dict(v) if isinstance(v, list) else v) for k, v in got]
        elif kind == 'customxml':
            got = json.loads(result.content[8:-9].decode('utf-8'), object_pairs_hook=list)
            got = [(k, dict(v) if isinstance(v, list) else v) for k, v in got]
        elif kind == 'xml':
            got = decode_xml(result.content)
    except Exception as ex:
        check('C', False, '%s: undecodable %s body %r (%r)' % (label, kind, result.content, ex))
        return kind, result.headers.get('content-type')
    if kind in ('json', 'yaml', 'customxml', 'xml'):
        check('C', got == want, '%s: %s body decodes to %r' % (label, kind, got))
    elif kind == 'urlencoded':
        pairs = urllib.parse.parse_qsl(
            result.content.decode('utf-8'), keep_blank_values=True
        )
        check('C', pairs[0] == want[0], '%s: urlencoded %r' % (label, pairs))
    elif kind == 'empty':
        pass
    else:
        check('C', False, '%s: unexpected body %r' % (label, result.content))
    return kind, result.headers.get('content-type')


# Recorded on the UNMODIFIED tree (commit a004b1b) by gen_table.py:
# TABLE[cfg][accept-index] == [representation, content-type]
TABLE = {
    'default': [
        ['json', 'application/json'],
        ['json', 'application/json'],
        ['json', 'application/json'],
        ['json', 'application/json'],
        ['xml', 'application/xml'],
        ['xml', 'text/xml'],
        ['xml', 'text/xml'],
        ['json', 'application/json'],
        ['xml', 'application/xml'],
        ['json', 'application/json'],
        ['xml', 'text/xml'],
        ['xml', 'text/xml'],
        ['json', 'application/json'],
        ['xml', 'application/xml'],
        ['json', 'application/json'],
        ['xml', 'application/xml'],
        ['json', 'application/json'],
        ['empty', 'application/json'],
        ['xml', 'application/xml'],
        ['empty', 'application/json'],
        ['json', 'application/json'],
        ['json', 'application/json'],
        ['xml', 'application/xml'],
        ['xml', 'text/xml'],
        ['urlencoded', 'application/x-www-form-urlencoded'],
        ['empty', 'application/json'],
        ['empty', 'application/json'],
        ['empty', 'application/json'],
        ['empty', 'application/json'],
        ['xml', 'text/xml'],
        ['xml', 'text/xml'],
        ['xml', 'application/xml'],
        ['empty', 'application/json'],
        ['json', 'application/json'],
        ['xml', 'application/xml'],
        ['empty', 'application/json'],
        ['empty', 'application/json'],
        ['json', 'application/json'],
        ['json', 'application/json'],
        ['xml', 'application/xml'],
        ['xml', 'text/xml'],
        ['xml', 'text/xml'],
    ],
    'noxml': [
        ['json', 'application/json'],
        ['json', 'application/json'],
        ['json', 'application/json'],
        ['json', 'application/json'],
        ['empty', 'application/json'],
        ['empty', 'application/json'],
        ['empty', 'application/json'],
        ['json', 'application/json'],
        ['json', 'application/json'],
        ['json', 'application/json'],
        ['empty', 'application/json'],
        ['empty', 'application/json'],
        ['json', 'application/json'],
        ['empty', 'application/xml'],
        ['json', 'application/json'],
        ['empty', 'application/xml'],
        ['json', 'application/json'],
        ['empty', 'application/json'],
        ['empty', 'application/xml'],
        ['empty', 'application/json'],
        ['json', 'application/json'],
        ['json', 'application/json'],
        ['empty', 'application/json'],
        ['empty', 'application/json'],
        ['urlencoded', 'application/x-www-form-urlencoded'],
        ['empty', 'application/json'],
        ['empty', 'application/json'],
        ['empty', 'application/json'],
        ['empty', 'application/json'],
        ['urlencoded', 'application/x-www-form-urlencoded'],
        ['urlencoded', 'application/x-www-form-urlencoded'],
        ['json', 'application/json'],
        ['empty', 'application/json'],
        ['json', 'application/json'],
        ['empty', 'application/json'],
        ['empty', 'application/json'],
        ['empty', 'application/json'],
        ['json', 'application/json'],
        ['json', 'application/json'],
        ['empty', 'application/xml'],
        ['json', 'application/json'],
        ['json', 'application/json'],
    ],
    'yaml': [
        ['json', 'application/json'],
        ['json', 'application/json'],
        ['json', 'application/json'],
        ['json', 'application/json'],
        ['xml', 'application/xml'],
        ['xml', 'text/xml'],
        ['xml', 'text/xml'],
        ['json', 'application/json'],
        ['xml', 'application/xml'],
        ['json', 'application/json'],
        ['xml', 'text/xml'],
        ['xml', 'text/xml'],
        ['json', 'application/json'],
        ['xml', 'application/xml'],
        ['json', 'application/json'],
        ['xml', 'application/xml'],
        ['json', 'application/json'],
        ['empty', 'application/json'],
        ['xml', 'application/xml'],
        ['yaml', 'application/yaml'],
        ['yaml', 'application/yaml'],
        ['json', 'application/json'],
        ['xml', 'application/xml'],
        ['xml', 'text/xml'],
        ['urlencoded', 'application/x-www-form-urlencoded'],
        ['empty', 'application/json'],
        ['empty', 'application/json'],
        ['empty', 'application/json'],
        ['empty', 'application/json'],
        ['xml', 'text/xml'],
        ['xml', 'text/xml'],
        ['xml', 'application/xml'],
        ['empty', 'application/json'],
        ['json', 'application/json'],
        ['xml', 'application/xml'],
        ['empty', 'application/json'],
        ['empty', 'application/json'],
        ['json', 'application/json'],
        ['json', 'application/json'],
        ['xml', 'application/xml'],
        ['xml', 'text/xml'],
        ['xml', 'text/xml'],
    ],
    'noxml_yaml_customxml': [
        ['json', 'application/json'],
        ['json', 'application/json'],
        ['json', 'application/json'],
        ['json', 'application/json'],
        ['customxml', 'application/xml'],
        ['empty', 'application/json'],
        ['empty', 'application/json'],
        ['json', 'application/json'],
        ['customxml', 'application/xml'],
        ['json', 'application/json'],
        ['customxml', 'application/xml'],
        ['customxml', 'application/xml'],
        ['json', 'application/json'],
        ['customxml', 'application/xml'],
        ['json', 'application/json'],
        ['customxml', 'application/xml'],
        ['json', 'application/json'],
        ['empty', 'application/json'],
        ['customxml', 'application/xml'],
        ['yaml', 'application/yaml'],
        ['yaml', 'application/yaml'],
        ['json', 'application/json'],
        ['yaml', 'application/yaml'],
        ['yaml', 'application/yaml'],
        ['urlencoded', 'application/x-www-form-urlencoded'],
        ['empty', 'application/json'],
        ['empty', 'application/json'],
        ['empty', 'application/json'],
        ['empty', 'application/json'],
        ['urlencoded', 'application/x-www-form-urlencoded'],
        ['urlencoded', 'application/x-www-form-urlencoded'],
        ['customxml', 'application/xml'],
        ['empty', 'application/json'],
        ['json', 'application/json'],
        ['customxml', 'application/xml'],
        ['empty', 'application/json'],
        ['empty', 'application/json'],
        ['json', 'application/json'],
        ['json', 'application/json'],
        ['customxml', 'application/xml'],
        ['json', 'application/json'],
        ['json', 'application/json'],
    ],
    'nojson': [
        ['json', 'application/json'],
        ['json', 'application/json'],
        ['json', 'application/json'],
        ['json', 'application/json'],
        ['xml', 'application/xml'],
        ['xml', 'text/xml'],
        ['xml', 'text/xml'],
        ['json', 'application/json'],
        ['xml', 'application/xml'],
        ['json', 'application/json'],
        ['xml', 'text/xml'],
        ['xml', 'text/xml'],
        ['json', 'application/json'],
        ['xml', 'application/xml'],
        ['json', 'application/json'],
        ['xml', 'application/xml'],
        ['json', 'application/json'],
        ['empty', 'application/json'],
        ['xml', 'application/xml'],
        ['yaml', 'application/yaml'],
        ['yaml', 'application/yaml'],
        ['json', 'application/json'],
        ['xml', 'application/xml'],
        ['xml', 'text/xml'],
        ['urlencoded', 'application/x-www-form-urlencoded'],
        ['empty', 'application/json'],
        ['empty', 'application/json'],
        ['empty', 'application/json'],
        ['empty', 'application/json'],
        ['xml', 'text/xml'],
        ['xml', 'text/xml'],
        ['xml', 'application/xml'],
        ['empty', 'application/json'],
        ['json', 'application/json'],
        ['xml', 'application/xml'],
        ['empty', 'application/json'],
        ['empty', 'application/json'],
        ['json', 'application/json'],
        ['json', 'application/json'],
        ['xml', 'application/xml'],
        ['xml', 'text/xml'],
        ['xml', 'text/xml'],
    ],
    'yaml_first': [
        ['json', 'application/json'],
        ['json', 'application/json'],
        ['json', 'application/json'],
        ['json', 'application/json'],
        ['xml', 'application/xml'],
        ['customxml', 'text/xml'],
        ['customxml', 'text/xml'],
        ['json', 'application/json'],
        ['xml', 'application/xml'],
        ['json', 'application/json'],
        ['customxml', 'text/xml'],
        ['customxml', 'text/xml'],
        ['json', 'application/json'],
        ['xml', 'application/xml'],
        ['json', 'application/json'],
        ['xml', 'application/xml'],
        ['json', 'application/json'],
        ['empty', 'application/json'],
        ['xml', 'application/xml'],
        ['yaml', 'application/yaml'],
        ['yaml', 'application/yaml'],
        ['json', 'application/json'],
        ['xml', 'application/xml'],
        ['customxml', 'text/xml'],
        ['empty', 'application/json'],
        ['empty', 'application/json'],
        ['empty', 'application/json'],
        ['empty', 'application/json'],
        ['empty', 'application/json'],
        ['customxml', 'text/xml'],
        ['customxml', 'text/xml'],
        ['xml', 'application/xml'],
        ['empty', 'application/json'],
        ['json', 'application/json'],
        ['xml', 'application/xml'],
        ['empty', 'application/json'],
        ['empty', 'application/json'],
        ['json', 'application/json'],
        ['json', 'application/json'],
        ['xml', 'application/xml'],
        ['customxml', 'text/xml'],
        ['customxml', 'text/xml'],
    ],
    'only_json_xml': [
        ['json', 'application/json'],
        ['json', 'application/json'],
        ['json', 'application/json'],
        ['json', 'application/json'],
        ['xml', 'application/xml'],
        ['xml', 'text/xml'],
        ['xml', 'text/xml'],
        ['json', 'application/json'],
        ['xml', 'application/xml'],
        ['json', 'application/json'],
        ['xml', 'text/xml'],
        ['xml', 'text/xml'],
        ['json', 'application/json'],
        ['xml', 'application/xml'],
        ['json', 'application/json'],
        ['xml', 'application/xml'],
        ['json', 'application/json'],
        ['empty', 'application/json'],
        ['xml', 'application/xml'],
        ['empty', 'application/json'],
        ['json', 'application/json'],
        ['json', 'application/json'],
        ['xml', 'application/xml'],
        ['xml', 'text/xml'],
        ['empty', 'application/json'],
        ['empty', 'application/json'],
        ['empty', 'application/json'],
        ['empty', 'application/json'],
        ['empty', 'application/json'],
        ['xml', 'text/xml'],
        ['xml', 'text/xml'],
        ['xml', 'application/xml'],
        ['empty', 'application/json'],
        ['json', 'application/json'],
        ['xml', 'application/xml'],
        ['empty', 'application/json'],
        ['empty', 'application/json'],
        ['json', 'application/json'],
        ['json', 'application/json'],
        ['xml', 'application/xml'],
        ['xml', 'text/xml'],
        ['xml', 'text/xml'],
    ],
    'only_json_noxml': [
        ['json', 'application/json'],
        ['json', 'application/json'],
        ['json', 'application/json'],
        ['json', 'application/json'],
        ['empty', 'application/json'],
        ['empty', 'application/json'],
        ['empty', 'application/json'],
        ['json', 'application/json'],
        ['json', 'application/json'],
        ['json', 'application/json'],
        ['empty', 'application/json'],
        ['empty', 'application/json'],
        ['json', 'application/json'],
        ['empty', 'application/xml'],
        ['json', 'application/json'],
        ['empty', 'application/xml'],
        ['json', 'application/json'],
        ['empty', 'application/json'],
        ['empty', 'application/xml'],
        ['empty', 'application/json'],
        ['json', 'application/json'],
        ['json', 'application/json'],
        ['empty', 'application/json'],
        ['empty', 'application/json'],
        ['empty', 'application/json'],
        ['empty', 'application/json'],
        ['empty', 'application/json'],
        ['empty', 'application/json'],
        ['empty', 'application/json'],
        ['empty', 'application/json'],
        ['empty', 'application/json'],
        ['json', 'application/json'],
        ['empty', 'application/json'],
        ['json', 'application/json'],
        ['empty', 'application/json'],
        ['empty', 'application/json'],
        ['empty', 'application/json'],
        ['json', 'application/json'],
        ['json', 'application/json'],
        ['empty', 'application/xml'],
        ['json', 'application/json'],
        ['json', 'application/json'],
    ],
}


def part_c(seed):
    rng = random.Random(seed)
    for cfg in CONFIGS:
        for idx, accept in enumerate(ACCEPTS):
            for asgi in (False, True):
                got = list(observe(cfg, accept, asgi, rng))
                want = TABLE[cfg][idx]
                check(
                    'C',
                    got == want,
                    'cfg=%s accept=%r asgi=%s: representation %r, recorded %r'
                    % (cfg, accept, asgi, got, want),
                )


# ---------------------------------------------------------------------------
# Part D + main
# ---------------------------------------------------------------------------


def part_d():
    # D1. _find_error_handler on long linear chains: the nearest registered
    #     ancestor wins, an unregistered lineage gives exactly None, and the
    #     lookup is stateless (same answer when repeated / interleaved).
    for asgi in (False, True):
        app = falcon.asgi.App() if asgi else falcon.App()
        app._error_handlers.clear()
        chain = [type('L0', (Exception,), {})]
        for i in range(1, 40):
            chain.append(type('L%d' % i, (chain[-1],), {}))
        registered = {}
        for i in (3, 4, 11, 25, 39):
            if asgi:

                async def h(req, resp, ex, params):
                    pass
            else:

                def h(req, resp, ex, params):
                    pass

            app.add_error_handler(chain[i], h)
            registered[i] = h
        for rounds in range(2):
            for i in reversed(range(40)):
                near = [j for j in registered if j <= i]
                want = registered[max(near)] if near else None
                got = app._find_error_handler(chain[i]())
                check('D', got is want, 'D1 asgi=%s depth %d: %r' % (asgi, i, got))
        check('D', app._find_error_handler(ValueError()) is None, 'D1 unregistered')
        check('D', app._find_error_handler(KeyboardInterrupt()) is None, 'D1 base-only')

    # D2. A subclass overriding _find_error_handler(self, ex) with the
    #     one-argument signature keeps working: the framework only ever passes
    #     the exception.
    seen = []

    class WApp(falcon.App):
        def _find_error_handler(self, ex):
            seen.append(type(ex).__name__)
            return super()._find_error_handler(ex)

    class AApp(falcon.asgi.App):
        def _find_error_handler(self, ex):
            seen.append(type(ex).__name__)
            return super()._find_error_handler(ex)

    class WRes:
        def on_get(self, req, resp):
            resp.text = 'JUNK-TEXT'
            raise KeyError('x')

    class ARes:
        async def on_get(self, req, resp):
            resp.text = 'JUNK-TEXT'
            raise KeyError('x')

    for app, res in ((WApp(), WRes()), (AApp(), ARes())):
        app.add_route('/k', res)
        result = testing.TestClient(app).simulate_get('/k')
        check('D', result.status_code == 500, 'D2 status %r' % result.status_code)
        check(
            'D',
            result.json == {'title': '500 Internal Server Error'},
            'D2 body %r' % result.content,
        )
    check('D', seen == ['KeyError', 'KeyError'], 'D2 seen %r' % seen)

    # D3. What default_serialize_error hands to Request.client_prefers(): a
    #     fresh list, JSON (and XML types when enabled) first, then the other
    #     registered handlers in registration order. A request type that
    #     mutates the list must not influence later requests.
    calls = []

    class NosyRequest(falcon.Request):
        def client_prefers(self, media_types):
            calls.append((type(media_types), list(media_types)))
            media_types.append('text/html')
            media_types.insert(0, 'image/png')
            return super().client_prefers(media_types)

    class Res3:
        def on_get(self, req, resp):
            raise falcon.HTTPConflict(title='té', description='<d>')

    for cfg in CONFIGS:
        app = falcon.App(request_type=NosyRequest)
        app.add_route('/c', Res3())
        configure(app, cfg)
        opts = app.resp_options
        base = (
            ['application/json', 'text/xml', 'application/xml']
            if opts.xml_error_serialization
            else ['application/json']
        )
        want_list = base + [mt for mt in opts.media_handlers if mt not in base]
        client = testing.TestClient(app)
        for accept, want_ct in (
            ('application/json', 'application/json'),
            ('text/html', 'text/html'),
            ('application/json', 'application/json'),
            ('image/png', 'image/png'),
            ('application/xml;q=0.1, application/json', 'application/json'),
        ):
            del calls[:]
            result = client.simulate_get('/c', headers={'Accept': accept})
            check('D', result.status_code == 409, 'D3 %s status' % cfg)
            check(
                'D',
                calls == [(list, want_list)],
                'D3 cfg=%s accept=%s: client_prefers got %r, want %r'
                % (cfg, accept, calls, want_list),
            )
            check(
                'D',
                result.headers.get('content-type') == want_ct,
                'D3 cfg=%s accept=%s content-type %r'
                % (cfg, accept, result.headers.get('content-type')),
            )
            check('D', result.headers.get('vary') == 'Accept', 'D3 vary')
            if want_ct == 'application/json':
                check(
                    'D',
                    result.json == {'title': 'té', 'description': '<d>'},
                    'D3 body %r' % result.content,
                )

    # D4. The public default_serialize_error can be called directly (as custom
    #     serializers that delegate to it do).
    from falcon.app_helpers import default_serialize_error

    for xml in (True, False):
        for accept, want_ct in (
            ('application/xml', 'application/xml' if xml else None),
            ('application/json', 'application/json'),
            ('text/plain', None),
        ):
            opts = falcon.ResponseOptions()
            opts.xml_error_serialization = xml
            req = falcon.Request(testing.create_environ(headers={'Accept': accept}))
            resp = falcon.Response(options=opts)
            default_serialize_error(req, resp, falcon.HTTPGone(description='g'))
            check('D', resp.get_header('Vary') == 'Accept', 'D4 vary')
            got_ct = resp.content_type
            check('D', got_ct == want_ct, 'D4 xml=%s %s -> %r' % (xml, accept, got_ct))


def main():
    real_stderr = sys.stderr
    sys.stderr = io.StringIO()  # the default 500 handler logs tracebacks
    try:
        for part, args in (
            (part_a, (0xC04A, 120)),
            (part_b, (0xC04B, 70)),
            (part_c, (0xC04C,)),
            (part_d, ()),
        ):
            try:
                part(*args)
            except Exception:
                import traceback

                fail(part.__name__, 'crashed:\n' + traceback.format_exc())
    finally:
        sys.stderr = real_stderr
    total = sum(COUNTS.values())
    if FAILURES:
        print('FAIL: %d of %d checks failed %r' % (len(FAILURES), total, COUNTS))
        for f in FAILURES[:40]:
            print('  ' + f)
        sys.exit(1)
    print('falcon from', falcon.__file__)
    print('checks per part:', COUNTS)
    print('PASS')


if __name__ == '__main__':
    main()
