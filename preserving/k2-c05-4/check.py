#!/usr/bin/env python
"""Property C05 check: responses are protocol-valid and length-consistent on
both server interfaces (WSGI and ASGI).

Run as:  PYTHONPATH=<falcon tree> /venv/bin/python check.py

The program drives falcon.App and falcon.asgi.App directly (no test client)
with a recording start_response / send, over a generated matrix of
status x method x body source x preset headers x response class, plus
fault-point enumeration for streams and for the server's send callable.
Every observation is compared against a small reference model that is written
here independently of falcon.  Prints PASS and exits 0 when everything
matches.
"""

import asyncio
import http
import itertools
import json
import random
import re
import sys

import falcon
import falcon.app_helpers
import falcon.asgi
from falcon.asgi import SSEvent
import falcon.testing as ft
from falcon.util import misc

FAILURES = []
COUNTS = {}


def fail(section, case, msg):
    FAILURES.append('[%s] %r: %s' % (section, case, msg))


def count(section, n=1):
    COUNTS[section] = COUNTS.get(section, 0) + n


class StreamBoom(Exception):
    pass


class SendBoom(Exception):
    pass


BLOCK = 8 * 1024
BODILESS = frozenset([100, 101, 204, 304])
TYPELESS = frozenset([204, 304])
STATUS_LINE_RE = re.compile(r'^[1-9][0-9][0-9] [^\r\n]+$')

STATUSES = [
    200,
    201,
    204,
    304,
    100,
    101,
    404,
    500,
    799,
    '200 OK',
    '204 No Content',
    '304 Not Modified',
    '418 I am a teapot',
    '101 Switching Protocols',
    http.HTTPStatus.OK,
    http.HTTPStatus.NO_CONTENT,
    http.HTTPStatus.NOT_MODIFIED,
    http.HTTPStatus.IM_A_TEAPOT,
]
METHODS = ['GET', 'HEAD', 'POST']


def model_code(status):
    if isinstance(status, http.HTTPStatus):
        return status.value
    if isinstance(status, int):
        return status
    return int(status[:3])


# ---------------------------------------------------------------------------
# Body sources
# ---------------------------------------------------------------------------

MEDIA_SAMPLES = [{'a': 1, 'ü': [1, 2, None]}, [], 0, '']

# (text, data, media) triples; None == not set.
RENDER_SOURCES = [
    (None, None, None),
    ('hello', None, None),
    ('', None, None),
    ('grüß ☃', None, None),
    (b'raw-bytes-as-text', None, None),
    (None, b'some data', None),
    (None, b'', None),
    (None, None, MEDIA_SAMPLES[0]),
    (None, None, MEDIA_SAMPLES[1]),
    (None, None, MEDIA_SAMPLES[2]),
    (None, None, MEDIA_SAMPLES[3]),
    ('txt', b'dat', None),
    ('txt', b'dat', {'m': 1}),
    (None, b'dat', {'m': 1}),
    ('txt', None, {'m': 1}),
]

PRESETS = [
    dict(cl=None, ct=None, cookies=False, extra=False),
    dict(cl=9999, ct=None, cookies=False, extra=False),
    dict(cl=None, ct='text/x-custom', cookies=True, extra=False),
    dict(cl=3, ct='application/x-thing', cookies=True, extra=True),
]


def model_rendered(text, data, media):
    """Reference model of the precedence text > data > media.

    Returns (kind, payload): kind in 'bytes', 'media', 'none'.
    """
    if text is not None:
        return 'bytes', (text.encode('utf-8') if isinstance(text, str) else text)
    if data is not None:
        return 'bytes', data
    if media is not None:
        return 'media', media
    return 'none', None


def rendered_matches(kind, payload, got):
    if kind == 'bytes':
        return got == payload
    if kind == 'media':
        try:
            return json.loads(got.decode('utf-8')) == payload
        except Exception:
            return False
    return got == b''


# --- WSGI stream doubles ---------------------------------------------------


class SyncIterClose:
    def __init__(self, chunks, raise_at=None):
        self.chunks = list(chunks)
        self.raise_at = raise_at
        self.calls = 0
        self.closed = 0
        self.begun = False

    def __iter__(self):
        self.begun = True
        return self

    def __next__(self):
        k = self.calls
        self.calls += 1
        if self.raise_at is not None and k == self.raise_at:
            raise StreamBoom()
        if k < len(self.chunks):
            return self.chunks[k]
        raise StopIteration

    def close(self):
        self.closed += 1


class SyncFile:
    def __init__(self, chunks, raise_at=None):
        self.chunks = list(chunks)
        self.raise_at = raise_at
        self.calls = 0
        self.closed = 0
        self.sizes = []

    @property
    def begun(self):
        return self.calls > 0

    def read(self, size=-1):
        self.sizes.append(size)
        k = self.calls
        self.calls += 1
        if self.raise_at is not None and k == self.raise_at:
            raise StreamBoom()
        if k < len(self.chunks):
            return self.chunks[k]
        return b''

    def close(self):
        self.closed += 1


class SyncFileNoClose:
    def __init__(self, chunks):
        self.chunks = list(chunks)
        self.calls = 0

    def read(self, size=-1):
        k = self.calls
        self.calls += 1
        if k < len(self.chunks):
            return self.chunks[k]
        return b''


class FileWrapper:
    """What a WSGI server would offer as wsgi.file_wrapper."""

    instances = 0

    def __init__(self, filelike, blksize=8192):
        FileWrapper.instances += 1
        self.filelike = filelike
        self.blksize = blksize

    def __iter__(self):
        return self

    def __next__(self):
        data = self.filelike.read(self.blksize)
        if data:
            return data
        raise StopIteration

    def close(self):
        if hasattr(self.filelike, 'close'):
            self.filelike.close()


def sync_gen(chunks, raise_at=None):
    for k, c in enumerate(chunks):
        if raise_at is not None and k == raise_at:
            raise StreamBoom()
        yield c
    if raise_at is not None and raise_at >= len(chunks):
        raise StreamBoom()


def make_wsgi_stream(kind, chunks, raise_at=None):
    if kind == 'list':
        return list(chunks)
    if kind == 'gen':
        return sync_gen(chunks, raise_at)
    if kind == 'iterclose':
        return SyncIterClose(chunks, raise_at)
    if kind == 'file':
        return SyncFile(chunks, raise_at)
    if kind == 'file_noclose':
        return SyncFileNoClose(chunks)
    raise AssertionError(kind)


# --- ASGI stream doubles ---------------------------------------------------


class AsyncIterClose:
    def __init__(self, chunks, raise_at=None):
        self.chunks = list(chunks)
        self.raise_at = raise_at
        self.calls = 0
        self.closed = 0
        self.begun = False

    def __aiter__(self):
        self.begun = True
        return self

    async def __anext__(self):
        k = self.calls
        self.calls += 1
        if self.raise_at is not None and k == self.raise_at:
            raise StreamBoom()
        if k < len(self.chunks):
            return self.chunks[k]
        raise StopAsyncIteration

    async def close(self):
        self.closed += 1


class AsyncFile:
    def __init__(self, chunks, raise_at=None):
        self.chunks = list(chunks)
        self.raise_at = raise_at
        self.calls = 0
        self.closed = 0
        self.sizes = []

    @property
    def begun(self):
        return self.calls > 0

    async def read(self, size=-1):
        self.sizes.append(size)
        k = self.calls
        self.calls += 1
        if self.raise_at is not None and k == self.raise_at:
            raise StreamBoom()
        if k < len(self.chunks):
            return self.chunks[k]
        return b''

    async def close(self):
        self.closed += 1


class AsyncFileNoClose:
    def __init__(self, chunks):
        self.chunks = list(chunks)
        self.calls = 0

    async def read(self, size=-1):
        k = self.calls
        self.calls += 1
        if k < len(self.chunks):
            return self.chunks[k]
        return b''


async def async_gen(chunks, raise_at=None):
    for k, c in enumerate(chunks):
        if raise_at is not None and k == raise_at:
            raise StreamBoom()
        yield c
    if raise_at is not None and raise_at >= len(chunks):
        raise StreamBoom()


def make_asgi_stream(kind, chunks, raise_at=None):
    if kind == 'agen':
        return async_gen(chunks, raise_at)
    if kind == 'aiterclose':
        return AsyncIterClose(chunks, raise_at)
    if kind == 'afile':
        return AsyncFile(chunks, raise_at)
    if kind == 'afile_noclose':
        return AsyncFileNoClose(chunks)
    raise AssertionError(kind)


# ---------------------------------------------------------------------------
# Apps under test
# ---------------------------------------------------------------------------


def apply_spec(resp, spec):
    resp.status = spec['status']
    if spec.get('text') is not None:
        resp.text = spec['text']
    if spec.get('data') is not None:
        resp.data = spec['data']
    if spec.get('media') is not None:
        resp.media = spec['media']
    if spec.get('stream') is not None:
        resp.stream = spec['stream']
    if spec.get('sse') is not None:
        resp.sse = spec['sse']
    p = spec['preset']
    if p['cl'] is not None:
        resp.content_length = p['cl']
    if p['ct'] is not None:
        resp.content_type = p['ct']
    if p['cookies']:
        resp.set_cookie('sid', 'abc123')
        resp.unset_cookie('old')
    if p['extra']:
        resp.append_header('X-Multi', 'one')
        resp.append_header('X-Multi', 'two')
        resp.append_header('Set-Cookie', 'raw=1')
        resp.set_header('X-Latin', 'café')


class WSGIResource:
    spec = None

    def _respond(self, req, resp):
        apply_spec(resp, self.spec)

    on_get = on_head = on_post = _respond


class ASGIResource:
    spec = None

    async def _respond(self, req, resp):
        apply_spec(resp, self.spec)

    on_get = on_head = on_post = _respond


class WSGIPlainSub(falcon.Response):
    pass


class WSGIOverrideSub(falcon.Response):
    def render_body(self):
        return super().render_body()


class ASGIPlainSub(falcon.asgi.Response):
    pass


class ASGIOverrideSub(falcon.asgi.Response):
    async def render_body(self):
        return await super().render_body()


def _register_custom_types(app):
    # resp.media must stay serializable under the preset content types
    for p in PRESETS:
        if p['ct'] is not None:
            app.resp_options.media_handlers[p['ct']] = falcon.media.JSONHandler()


def build_wsgi_apps():
    apps = {}
    for name, rt in (
        ('std', None),
        ('plain_sub', WSGIPlainSub),
        ('override_sub', WSGIOverrideSub),
    ):
        app = falcon.App() if rt is None else falcon.App(response_type=rt)
        res = WSGIResource()
        app.add_route('/', res)
        _register_custom_types(app)
        apps[name] = (app, res)
    return apps


def build_asgi_apps():
    apps = {}
    for name, rt in (
        ('std', None),
        ('plain_sub', ASGIPlainSub),
        ('override_sub', ASGIOverrideSub),
    ):
        app = (
            falcon.asgi.App() if rt is None else falcon.asgi.App(response_type=rt)
        )
        res = ASGIResource()
        app.add_route('/', res)
        _register_custom_types(app)
        apps[name] = (app, res)
    return apps


# ---------------------------------------------------------------------------
# Drivers (simulated servers)
# ---------------------------------------------------------------------------


def run_wsgi(app, method, file_wrapper):
    """Simulate a WSGI server; returns an observation dict."""
    env = ft.create_environ(path='/', method=method)
    if file_wrapper:
        env['wsgi.file_wrapper'] = FileWrapper
    else:
        env.pop('wsgi.file_wrapper', None)

    calls = []

    def start_response(status, headers, exc_info=None):
        calls.append((status, headers, exc_info))

    obs = dict(calls=calls, chunks=[], raised=None, iterable=None, app_raised=None)
    try:
        result = app(env, start_response)
    except Exception as ex:  # the property says this must not happen here
        obs['app_raised'] = ex
        return obs
    obs['iterable'] = result
    try:
        for chunk in result:
            obs['chunks'].append(chunk)
    except StreamBoom as ex:
        obs['raised'] = ex
    finally:
        if hasattr(result, 'close'):
            result.close()
    return obs


async def run_asgi(app, method, fail_send_at=None):
    """Simulate an ASGI server; returns an observation dict."""
    scope = ft.create_scope(path='/', method=method)
    events = []
    attempts = [0]
    first = [True]

    async def receive():
        if first[0]:
            first[0] = False
            return {'type': 'http.request', 'body': b'', 'more_body': False}
        await asyncio.Event().wait()  # never disconnects
        raise AssertionError('unreachable')

    async def send(event):
        k = attempts[0]
        attempts[0] += 1
        if fail_send_at is not None and k == fail_send_at:
            raise SendBoom()
        # copy: the framework may reuse constant event dicts
        events.append(dict(event))

    obs = dict(events=events, raised=None, attempts=attempts)
    try:
        await app(scope, receive, send)
    except (StreamBoom, SendBoom) as ex:
        obs['raised'] = ex
    return obs


# ---------------------------------------------------------------------------
# Validators
# ---------------------------------------------------------------------------


def header_values(headers, name):
    return [v for (n, v) in headers if n.lower() == name]


def check_wsgi_framing(section, case, obs, code):
    """Generic WSGI validity; returns (status, headers) or None."""
    if obs['app_raised'] is not None:
        fail(section, case, 'app raised %r' % (obs['app_raised'],))
        return None
    calls = obs['calls']
    if len(calls) != 1:
        fail(section, case, 'start_response called %d times' % len(calls))
        return None
    status, headers, exc_info = calls[0]
    if type(status) is not str or not STATUS_LINE_RE.match(status):
        fail(section, case, 'bad status line %r' % (status,))
    elif int(status[:3]) != code:
        fail(section, case, 'status line %r does not carry code %d' % (status, code))
    if type(headers) is not list:
        fail(section, case, 'headers is not a list: %r' % type(headers))
    for item in headers:
        if (
            type(item) is not tuple
            or len(item) != 2
            or type(item[0]) is not str
            or type(item[1]) is not str
        ):
            fail(section, case, 'bad header item %r' % (item,))
    for chunk in obs['chunks']:
        if type(chunk) is not bytes:
            fail(section, case, 'non-bytes body chunk %r' % (chunk,))
    return status, headers


def check_asgi_framing(section, case, obs, code, complete=True):
    """Generic ASGI validity; returns (headers, body_bytes) or None."""
    events = obs['events']
    if not events:
        if complete:
            fail(section, case, 'no events')
        return None
    start = events[0]
    if start.get('type') != 'http.response.start':
        fail(section, case, 'first event is %r' % (start,))
        return None
    if type(start.get('status')) is not int or start['status'] != code:
        fail(section, case, 'start status %r != %d' % (start.get('status'), code))
    headers = start.get('headers')
    if not isinstance(headers, list):
        fail(section, case, 'headers not a list')
        headers = list(headers)
    for item in headers:
        if (
            len(item) != 2
            or type(item[0]) is not bytes
            or type(item[1]) is not bytes
            or item[0] != item[0].lower()
        ):
            fail(section, case, 'bad header item %r' % (item,))
    body = b''
    rest = events[1:]
    for idx, ev in enumerate(rest):
        if ev.get('type') != 'http.response.body':
            fail(section, case, 'event %d is %r' % (idx + 1, ev))
            continue
        b = ev.get('body', b'')
        if type(b) is not bytes:
            fail(section, case, 'non-bytes body in event %r' % (ev,))
        else:
            body += b
        last = idx == len(rest) - 1
        more = bool(ev.get('more_body', False))
        if complete:
            if last and more:
                fail(section, case, 'last body event has more_body true')
            if not last and not more:
                fail(section, case, 'event %d ends the body early' % (idx + 1))
        else:
            if not more and not last:
                fail(section, case, 'event %d ends the body early' % (idx + 1))
    if complete and not rest:
        fail(section, case, 'no body event at all')
    return [(n.decode('latin-1'), v.decode('latin-1')) for n, v in headers], body


def check_common_headers(section, case, headers, spec, code, method, expect_cl, sse=False):
    """Content-Length / Content-Type / cookies / extra headers model."""
    p = spec['preset']
    cl = header_values(headers, 'content-length')
    if expect_cl is None:
        if cl:
            fail(section, case, 'unexpected content-length %r' % (cl,))
    elif cl != [str(expect_cl)]:
        fail(section, case, 'content-length %r, expected %r' % (cl, expect_cl))

    ct = header_values(headers, 'content-type')
    media_rendered = (
        spec.get('text') is None
        and spec.get('data') is None
        and spec.get('media') is not None
    )
    if len(ct) > 1:
        fail(section, case, 'duplicate content-type %r' % (ct,))
    if code in TYPELESS:
        # no framework-supplied default type; a type is only present when the
        # application set one (explicitly, or by choosing a media type for
        # resp.media).
        want = p['ct'] is not None or media_rendered
        if bool(ct) != want:
            fail(section, case, 'typeless status content-type %r' % (ct,))
    else:
        if len(ct) != 1:
            fail(section, case, 'missing content-type')
    if ct:
        if p['ct'] is not None:
            if ct != [p['ct']]:
                fail(section, case, 'content-type %r != preset' % (ct,))
        elif sse and not (code in BODILESS or method == 'HEAD') and not media_rendered:
            if ct != ['text/event-stream']:
                fail(section, case, 'SSE content-type %r' % (ct,))
        else:
            if ct != [falcon.DEFAULT_MEDIA_TYPE]:
                fail(section, case, 'content-type %r != default' % (ct,))

    sc = header_values(headers, 'set-cookie')
    want_sc = 0
    if p['extra']:
        want_sc += 1
    if p['cookies']:
        want_sc += 2
    if len(sc) != want_sc:
        fail(section, case, 'set-cookie count %d != %d' % (len(sc), want_sc))
    if p['extra']:
        if sc[0] != 'raw=1':
            fail(section, case, 'extra set-cookie must precede cookies: %r' % (sc,))
        if header_values(headers, 'x-multi') != ['one, two']:
            fail(section, case, 'x-multi %r' % (header_values(headers, 'x-multi'),))
        if header_values(headers, 'x-latin') != ['café']:
            fail(section, case, 'x-latin %r' % (header_values(headers, 'x-latin'),))
    if p['cookies']:
        tail = sc[-2:]
        if not tail[0].startswith('sid=abc123') or not tail[1].startswith('old='):
            fail(section, case, 'cookies %r' % (sc,))


def expected_cl_nonstream(spec, code, method, body_len):
    """Reference model for Content-Length when no stream is selected."""
    p = spec['preset']
    if code in BODILESS:
        return p['cl']
    if method == 'HEAD':
        return p['cl'] if p['cl'] is not None else body_len
    return body_len


# ---------------------------------------------------------------------------
# Section A: WSGI matrix (rendered bodies)
# ---------------------------------------------------------------------------


def section_wsgi_matrix():
    section = 'wsgi-matrix'
    apps = build_wsgi_apps()
    for rt, status, method, src, preset, fw in itertools.product(
        apps, STATUSES, METHODS, RENDER_SOURCES, PRESETS, (False, True)
    ):
        app, res = apps[rt]
        text, data, media = src
        case = (rt, status, method, src, preset, fw)
        spec = dict(status=status, text=text, data=data, media=media, preset=preset)
        res.spec = spec
        code = model_code(status)
        obs = run_wsgi(app, method, fw)
        count(section)
        r = check_wsgi_framing(section, case, obs, code)
        if r is None:
            continue
        _, headers = r
        got = b''.join(obs['chunks'])
        kind, payload = model_rendered(text, data, media)
        bodiless = method == 'HEAD' or code in BODILESS
        if bodiless:
            if got != b'':
                fail(section, case, 'bodiless response carries %r' % (got,))
            if kind == 'bytes':
                body_len = len(payload)
            elif kind == 'media':
                body_len = len(
                    json.dumps(payload, ensure_ascii=False).encode('utf-8')
                )
            else:
                body_len = 0
        else:
            if not rendered_matches(kind, payload, got):
                fail(section, case, 'body %r does not match model' % (got,))
            body_len = len(got)
        check_common_headers(
            section,
            case,
            headers,
            spec,
            code,
            method,
            expected_cl_nonstream(spec, code, method, body_len),
        )


# ---------------------------------------------------------------------------
# Section B: WSGI streams, precedence over streams, fault points
# ---------------------------------------------------------------------------

CHUNK_SETS = [
    [],
    [b'x'],
    [b'abc', b'de'],
    [b'a' * 100, b'b' * 8192, b'c'],
]


def section_wsgi_streams():
    section = 'wsgi-streams'
    apps = build_wsgi_apps()
    kinds = ['list', 'gen', 'iterclose', 'file', 'file_noclose']
    over = [(None, None, None), ('t', None, None), (None, b'd', None), (None, None, [1])]
    for rt, status, method, kind, chunks, preset, fw, src in itertools.product(
        apps,
        [200, 204, '304 Not Modified', http.HTTPStatus.CREATED, 799, 101],
        METHODS,
        kinds,
        CHUNK_SETS,
        PRESETS[:2] + PRESETS[3:],
        (False, True),
        over,
    ):
        if src != (None, None, None) and (chunks != CHUNK_SETS[2] or rt != 'std'):
            continue
        raise_points = [None]
        if kind in ('gen', 'iterclose', 'file') and src == (None, None, None):
            raise_points += list(range(len(chunks) + 1))
        for raise_at in raise_points:
            app, res = apps[rt]
            stream = make_wsgi_stream(kind, chunks, raise_at)
            text, data, media = src
            spec = dict(
                status=status,
                text=text,
                data=data,
                media=media,
                stream=stream,
                preset=preset,
            )
            res.spec = spec
            case = (rt, status, method, kind, chunks and [len(c) for c in chunks], preset, fw, src, raise_at)
            code = model_code(status)
            before = FileWrapper.instances
            obs = run_wsgi(app, method, fw)
            count(section)
            r = check_wsgi_framing(section, case, obs, code)
            if r is None:
                continue
            _, headers = r
            got = b''.join(obs['chunks'])
            bodiless = method == 'HEAD' or code in BODILESS
            rkind, payload = model_rendered(text, data, media)
            streamed = (not bodiless) and rkind == 'none'
            if bodiless:
                if got != b'':
                    fail(section, case, 'bodiless carries %r' % (got,))
            elif rkind != 'none':
                if not rendered_matches(rkind, payload, got):
                    fail(section, case, 'precedence violated: %r' % (got,))
            else:
                n = len(chunks) if raise_at is None else min(raise_at, len(chunks))
                want = b''.join(chunks[:n])
                if got != want:
                    fail(section, case, 'stream body %r != %r' % (got, want))
                if (raise_at is not None) != (obs['raised'] is not None):
                    fail(section, case, 'raise propagation mismatch')
            # Content-Length model
            if rkind == 'none':
                want_cl = preset['cl']  # unknown length: never forced
            else:
                if rkind == 'bytes':
                    blen = len(payload)
                else:
                    blen = len(json.dumps(payload, ensure_ascii=False).encode())
                want_cl = expected_cl_nonstream(spec, code, method, blen)
            check_common_headers(section, case, headers, spec, code, method, want_cl)
            # close() discipline
            if kind in ('iterclose', 'file'):
                if streamed:
                    if stream.closed != 1:
                        fail(section, case, 'close() called %d times' % stream.closed)
                elif stream.closed != 0 or stream.begun:
                    fail(section, case, 'stream that is not sent was touched')
            # file wrapper usage model
            used_fw = FileWrapper.instances - before
            want_fw = 1 if (fw and kind in ('file', 'file_noclose') and rkind == 'none') else 0
            if used_fw != want_fw:
                fail(section, case, 'file_wrapper used %d times, expected %d' % (used_fw, want_fw))
            if streamed and kind == 'file' and not fw:
                if type(obs['iterable']) is not falcon.app_helpers.CloseableStreamIterator:
                    fail(section, case, 'iterable is %r' % type(obs['iterable']))
                if any(s != BLOCK for s in stream.sizes):
                    fail(section, case, 'block sizes %r' % (stream.sizes,))
            if streamed and kind in ('list', 'gen', 'iterclose'):
                if obs['iterable'] is not stream:
                    fail(section, case, 'non file-like stream must be returned as is')


# ---------------------------------------------------------------------------
# Section C: direct App._get_body contract
# ---------------------------------------------------------------------------


def section_get_body():
    section = 'get-body'
    app = falcon.App()
    for src, kind, fw in itertools.product(
        RENDER_SOURCES, [None, 'list', 'gen', 'iterclose', 'file', 'file_noclose'], (None, FileWrapper)
    ):
        text, data, media = src
        case = (src, kind, fw is not None)
        resp = falcon.Response(options=app.resp_options)
        resp.text = text
        resp.data = data
        if media is not None:
            resp.media = media
        stream = make_wsgi_stream(kind, [b'ab', b'c']) if kind else None
        resp.stream = stream
        before = FileWrapper.instances
        if fw is None:
            body, length = app._get_body(resp)
        else:
            body, length = app._get_body(resp, fw)
        count(section)
        rkind, payload = model_rendered(text, data, media)
        if rkind != 'none':
            if type(body) is not list or len(body) != 1:
                fail(section, case, 'body %r' % (body,))
                continue
            if not rendered_matches(rkind, payload, body[0]) or length != len(body[0]):
                fail(section, case, 'rendered %r/%r' % (body, length))
            if FileWrapper.instances != before:
                fail(section, case, 'file wrapper touched')
        elif kind is None:
            if body != [] or type(body) is not list or length != 0:
                fail(section, case, 'empty body %r/%r' % (body, length))
        else:
            if length is not None:
                fail(section, case, 'stream length %r' % (length,))
            if kind in ('file', 'file_noclose'):
                if fw is None:
                    ok = (
                        type(body) is falcon.app_helpers.CloseableStreamIterator
                        and body._stream is stream
                        and body._block_size == BLOCK
                    )
                else:
                    ok = (
                        type(body) is FileWrapper
                        and body.filelike is stream
                        and body.blksize == BLOCK
                        and FileWrapper.instances == before + 1
                    )
                if not ok:
                    fail(section, case, 'file-like wrapping %r' % (body,))
                if b''.join(body) != b'abc':
                    fail(section, case, 'file-like content')
            else:
                if body is not stream or FileWrapper.instances != before:
                    fail(section, case, 'iterable must be passed through')


# ---------------------------------------------------------------------------
# Section D: CloseableStreamIterator histories
# ---------------------------------------------------------------------------


class _NoCloseStream:
    def __init__(self, blocks):
        self.blocks = list(blocks)

    def read(self, n):
        return self.blocks.pop(0) if self.blocks else b''


class _BadCloseStream(_NoCloseStream):
    close = None  # calling it raises TypeError -> swallowed


class _BoomCloseStream(_NoCloseStream):
    def close(self):
        raise StreamBoom()


def section_closeable_iterator():
    section = 'closeable-iterator'
    CSI = falcon.app_helpers.CloseableStreamIterator
    rnd = random.Random(505)
    for trial in range(300):
        n = rnd.randrange(0, 6)
        blocks = [bytes([65 + rnd.randrange(26)]) * rnd.randrange(1, 40) for _ in range(n)]
        raise_at = rnd.choice([None] + list(range(n + 1)))
        bs = rnd.choice([1, 7, 8192, 65536])
        f = SyncFile(blocks, raise_at)
        it = CSI(f, bs)
        case = (trial, n, raise_at, bs)
        count(section)
        if iter(it) is not it:
            fail(section, case, '__iter__ must return self')
        got = []
        raised = False
        try:
            for chunk in it:
                got.append(chunk)
        except StreamBoom:
            raised = True
        want_n = n if raise_at is None else min(n, raise_at)
        if got != blocks[:want_n] or raised != (raise_at is not None):
            fail(section, case, 'iteration %r raised=%r' % (got, raised))
        if any(s != bs for s in f.sizes):
            fail(section, case, 'sizes %r' % (f.sizes,))
        if f.closed != 0:
            fail(section, case, 'closed during iteration')
        it.close()
        if f.closed != 1:
            fail(section, case, 'close() -> %d' % f.closed)
        if raise_at is None:
            # exhausted iterator keeps reporting exhaustion (stream returns b'')
            try:
                next(it)
                fail(section, case, 'next() after exhaustion returned')
            except StopIteration:
                pass
    # None / non-bytes blocks are passed through untouched; only b'' stops
    for blocks in ([None, b'x'], [bytearray(b'q')], ['', b'z'], [0, b'z']):
        it = CSI(_NoCloseStream(blocks), 10)
        count(section)
        got = list(it)
        want = []
        for b in blocks:
            if b == b'':
                break
            want.append(b)
        if got != want:
            fail(section, blocks, 'pass-through %r != %r' % (got, want))
    # close(): AttributeError/TypeError swallowed, anything else propagates
    count(section, 3)
    CSI(_NoCloseStream([]), 1).close()
    CSI(_BadCloseStream([]), 1).close()
    try:
        CSI(_BoomCloseStream([]), 1).close()
        fail(section, 'boom-close', 'exception from close() swallowed')
    except StreamBoom:
        pass


# ---------------------------------------------------------------------------
# Section E: status normalisation
# ---------------------------------------------------------------------------


def section_status():
    section = 'status'
    import falcon.status_codes as sc

    for code in list(range(-5, 1100)):
        count(section)
        # int -> line
        try:
            got = misc.code_to_http_status(code)
            err = None
        except ValueError as ex:
            got, err = None, ex
        if 100 <= code <= 999:
            want = getattr(sc, 'HTTP_%d' % code, '%d Unknown' % code)
            if got != want or not STATUS_LINE_RE.match(got):
                fail(section, code, 'code_to_http_status -> %r' % (got,))
        elif err is None:
            fail(section, code, 'out of range code accepted: %r' % (got,))
        # str digits
        for rep in (str(code), str(code).encode()):
            try:
                got2 = misc.code_to_http_status(rep)
                err2 = None
            except ValueError as ex:
                got2, err2 = None, ex
            if 100 <= code <= 999:
                if got2 != want:
                    fail(section, rep, '-> %r' % (got2,))
            elif err2 is None:
                fail(section, rep, 'accepted -> %r' % (got2,))
        if misc.http_status_to_code(code) != code:
            fail(section, code, 'http_status_to_code(int)')
    for member in http.HTTPStatus:
        count(section)
        want = '%d %s' % (member.value, member.phrase)
        if misc.code_to_http_status(member) != want:
            fail(section, member, 'enum -> line')
        if misc.http_status_to_code(member) != member.value:
            fail(section, member, 'enum -> code')
        if misc.http_status_to_code(want) != member.value:
            fail(section, member, 'line -> code')
        if misc.http_status_to_code(want.encode()) != member.value:
            fail(section, member, 'bytes line -> code')
        if misc.code_to_http_status(want) != want:
            fail(section, member, 'line -> line')
        if misc.code_to_http_status(want.encode()) != want:
            fail(section, member, 'bytes line -> line')
    for bad in ('', 'ab', 'abc', 'OK 200', '20', b'x', 2.5 + 0j, None, (200,), 'a b'):
        count(section)
        if isinstance(bad, str) and ' ' in bad:
            # documented: a str containing a space is taken to be a status line
            if misc.code_to_http_status(bad) != bad:
                fail(section, bad, 'status line passthrough')
        else:
            try:
                misc.code_to_http_status(bad)
                fail(section, bad, 'code_to_http_status accepted')
            except ValueError:
                pass
        try:
            misc.http_status_to_code(bad)
            fail(section, bad, 'http_status_to_code accepted')
        except ValueError:
            pass


# ---------------------------------------------------------------------------
# Section F: SSE serialization against a reference model
# ---------------------------------------------------------------------------


def model_sse(ev):
    """Reference: WHATWG event stream framing as falcon documents it."""
    lines = []
    if ev['comment'] is not None:
        lines.append(': ' + ev['comment'])
    if ev['event'] is not None:
        lines.append('event: ' + ev['event'])
    if ev['event_id'] is not None:
        lines.append('id: ' + ev['event_id'])
    if ev['retry'] is not None:
        lines.append('retry: ' + str(ev['retry']))
    if ev['data'] is not None:
        lines.append('data: ' + ev['data'].decode('utf-8'))
    elif ev['text'] is not None:
        lines.append('data: ' + ev['text'])
    elif ev['json'] is not None:
        lines.append('data: ' + json.dumps(ev['json'], ensure_ascii=False))
    if not lines:
        return b': ping\n\n'
    return ('\n'.join(lines) + '\n\n').encode('utf-8')


class _MarkHandler(falcon.media.BaseHandler):
    def serialize(self, media, content_type):
        return b'<' + repr((media, content_type)).encode() + b'>'


def section_sse_serialize():
    section = 'sse-serialize'
    choices = dict(
        data=[None, b'', b'payload', 'snöw'.encode('utf-8')],
        text=[None, '', 'plain', 'grüß'],
        json=[None, {'a': 1}, [], 0, '', {'k': '☃'}],
        event=[None, '', 'update'],
        event_id=[None, '', '42'],
        retry=[None, 0, 5000, -1, True],
        comment=[None, '', 'hi there'],
    )
    keys = list(choices)
    combos = list(itertools.product(*(choices[k] for k in keys)))
    rnd = random.Random(55)
    rnd.shuffle(combos)
    for combo in combos[:1500]:
        ev = dict(zip(keys, combo))
        count(section)
        obj = SSEvent(**ev)
        got = obj.serialize()
        want = model_sse(ev)
        if type(got) is not bytes or got != want:
            fail(section, ev, 'serialize -> %r, want %r' % (got, want))
        # explicit handler is used for (and only for) the json field
        got_h = obj.serialize(_MarkHandler())
        if ev['data'] is None and ev['text'] is None and ev['json'] is not None:
            mark = b'<' + repr((ev['json'], falcon.MEDIA_JSON)).encode() + b'>'
            want_h = want[: want.rindex(b'data: ') + 6] + mark + b'\n\n'
        else:
            want_h = want
        if got_h != want_h:
            fail(section, ev, 'serialize(handler) -> %r, want %r' % (got_h, want_h))
    # invalid UTF-8 in data is reported by serialize(), whatever else is set
    for extra in ({}, {'comment': 'c'}, {'event': 'e', 'retry': 1}, {'json': {'x': 1}}):
        count(section)
        try:
            SSEvent(data=b'\xff\xfe', **extra).serialize()
            fail(section, extra, 'invalid utf-8 accepted')
        except UnicodeDecodeError:
            pass
    # lone surrogates cannot be encoded; reported, not silently dropped
    for kw in ({'text': '\ud800'}, {'comment': '\ud800'}, {'event': '\ud800', 'json': 1}):
        count(section)
        try:
            SSEvent(**kw).serialize()
            fail(section, kw, 'surrogate accepted')
        except UnicodeEncodeError:
            pass


# ---------------------------------------------------------------------------
# Section G: ASGI matrix (rendered bodies + SSE)
# ---------------------------------------------------------------------------

SSE_EVENT_SPECS = [
    dict(data=b'x'),
    None,
    dict(json={'a': 1}),
    dict(text='t', event='e', event_id='1', retry=5, comment='c'),
]


def make_sse(specs, raise_at=None):
    async def emitter():
        for k, s in enumerate(specs):
            if raise_at is not None and k == raise_at:
                raise StreamBoom()
            yield None if s is None else SSEvent(**s)
        if raise_at is not None and raise_at >= len(specs):
            raise StreamBoom()

    return emitter()


def model_sse_spec(s):
    full = dict(data=None, text=None, json=None, event=None, event_id=None, retry=None, comment=None)
    if s is not None:
        full.update(s)
    return model_sse(full)


async def section_asgi_matrix():
    section = 'asgi-matrix'
    apps = build_asgi_apps()
    for rt, status, method, src, preset in itertools.product(
        apps, STATUSES, METHODS, RENDER_SOURCES, PRESETS
    ):
        app, res = apps[rt]
        text, data, media = src
        case = (rt, status, method, src, preset)
        spec = dict(status=status, text=text, data=data, media=media, preset=preset)
        res.spec = spec
        code = model_code(status)
        obs = await run_asgi(app, method)
        count(section)
        if obs['raised'] is not None:
            fail(section, case, 'raised %r' % (obs['raised'],))
            continue
        r = check_asgi_framing(section, case, obs, code)
        if r is None:
            continue
        headers, got = r
        kind, payload = model_rendered(text, data, media)
        bodiless = method == 'HEAD' or code in BODILESS
        if bodiless:
            if got != b'':
                fail(section, case, 'bodiless response carries %r' % (got,))
            if kind == 'bytes':
                body_len = len(payload)
            elif kind == 'media':
                body_len = len(json.dumps(payload, ensure_ascii=False).encode('utf-8'))
            else:
                body_len = 0
        else:
            if not rendered_matches(kind, payload, got):
                fail(section, case, 'body %r does not match model' % (got,))
            body_len = len(got)
        if len(obs['events']) != 2:
            fail(section, case, 'expected start + one body event, got %d' % len(obs['events']))
        check_common_headers(
            section, case, headers, spec, code, method,
            expected_cl_nonstream(spec, code, method, body_len),
        )

    section = 'asgi-sse'
    for rt, status, method, nev, preset, text in itertools.product(
        apps,
        [200, 204, '201 Created', http.HTTPStatus.OK, 304, 799],
        METHODS,
        range(len(SSE_EVENT_SPECS) + 1),
        PRESETS,
        (None, 'ignored text'),
    ):
        app, res = apps[rt]
        specs = SSE_EVENT_SPECS[:nev]
        sse = make_sse(specs)
        spec = dict(status=status, text=text, sse=sse, preset=preset)
        res.spec = spec
        case = (rt, status, method, nev, preset, text)
        code = model_code(status)
        obs = await run_asgi(app, method)
        await sse.aclose()
        count(section)
        if obs['raised'] is not None:
            fail(section, case, 'raised %r' % (obs['raised'],))
            continue
        r = check_asgi_framing(section, case, obs, code)
        if r is None:
            continue
        headers, got = r
        bodiless = method == 'HEAD' or code in BODILESS
        if bodiless:
            if got != b'' or len(obs['events']) != 2:
                fail(section, case, 'bodiless SSE response carries %r' % (got,))
            tlen = len(text.encode()) if text is not None else 0
            want_cl = expected_cl_nonstream(spec, code, method, tlen)
        else:
            want = b''.join(model_sse_spec(s) for s in specs)
            if got != want:
                fail(section, case, 'SSE body %r != %r' % (got, want))
            if len(obs['events']) != 2 + nev:
                fail(section, case, 'SSE event count %d' % len(obs['events']))
            want_cl = preset['cl']
        check_common_headers(section, case, headers, spec, code, method, want_cl, sse=True)


# ---------------------------------------------------------------------------
# Section H: ASGI streams, precedence, fault points (stream raise, send fail)
# ---------------------------------------------------------------------------

ASGI_CHUNK_SETS = [
    [],
    [b'x'],
    [b'abc', b'de'],
    [b'a' * 100, b'', b'c'],  # b'' from an iterator is just an empty chunk
]


async def section_asgi_streams():
    section = 'asgi-streams'
    apps = build_asgi_apps()
    kinds = ['agen', 'aiterclose', 'afile', 'afile_noclose']
    over = [(None, None, None), ('t', None, None), (None, b'd', None), (None, None, [1])]
    for rt, status, method, kind, chunks, preset, src in itertools.product(
        apps,
        [200, 204, '304 Not Modified', http.HTTPStatus.CREATED, 799, 101],
        METHODS,
        kinds,
        ASGI_CHUNK_SETS,
        PRESETS[:2] + PRESETS[3:],
        over,
    ):
        if src != (None, None, None) and (chunks != ASGI_CHUNK_SETS[2] or rt != 'std'):
            continue
        code = model_code(status)
        bodiless = method == 'HEAD' or code in BODILESS
        text, data, media = src
        rkind, payload = model_rendered(text, data, media)
        streamed = (not bodiless) and rkind == 'none'

        # what the stream will deliver when nothing fails
        if kind in ('afile', 'afile_noclose'):
            eff = list(itertools.takewhile(lambda c: c != b'', chunks))
        else:
            eff = list(chunks)

        faults = [(None, None)]
        if streamed and rt == 'std':
            if kind in ('agen', 'aiterclose', 'afile'):
                faults += [(k, None) for k in range(len(eff) + 1)]
            faults += [(None, k) for k in range(len(eff) + 2)]
        for raise_at, fail_send_at in faults:
            app, res = apps[rt]
            stream = make_asgi_stream(kind, chunks, raise_at)
            spec = dict(status=status, text=text, data=data, media=media, stream=stream, preset=preset)
            res.spec = spec
            case = (rt, status, method, kind, [len(c) for c in chunks], preset, src, raise_at, fail_send_at)
            obs = await run_asgi(app, method, fail_send_at)
            if kind == 'agen':
                await stream.aclose()
            count(section)
            faulted = raise_at is not None or fail_send_at is not None
            if faulted != (obs['raised'] is not None):
                fail(section, case, 'fault propagation mismatch: %r' % (obs['raised'],))
            if raise_at is not None and not isinstance(obs['raised'], StreamBoom):
                fail(section, case, 'expected StreamBoom, got %r' % (obs['raised'],))
            if fail_send_at is not None and not isinstance(obs['raised'], SendBoom):
                fail(section, case, 'expected SendBoom, got %r' % (obs['raised'],))
            r = check_asgi_framing(section, case, obs, code, complete=not faulted)
            if faulted:
                # nothing is sent after the failure
                if fail_send_at is not None:
                    if obs['attempts'][0] != fail_send_at + 1:
                        fail(section, case, 'send() called again after it failed')
                    if len(obs['events']) != fail_send_at:
                        fail(section, case, 'event count %d' % len(obs['events']))
                else:
                    n = min(raise_at, len(eff))
                    if len(obs['events']) != 1 + n:
                        fail(section, case, 'events after stream failure: %d' % len(obs['events']))
                    if r is not None and r[1] != b''.join(eff[:n]):
                        fail(section, case, 'partial body %r' % (r[1],))
                    if any(not e.get('more_body') for e in obs['events'][1:]):
                        fail(section, case, 'body terminated although the stream failed')
            if r is not None and not faulted:
                headers, got = r
                if bodiless:
                    if got != b'' or len(obs['events']) != 2:
                        fail(section, case, 'bodiless carries %r' % (got,))
                elif rkind != 'none':
                    if not rendered_matches(rkind, payload, got) or len(obs['events']) != 2:
                        fail(section, case, 'precedence violated: %r' % (got,))
                else:
                    if got != b''.join(eff):
                        fail(section, case, 'stream body %r' % (got,))
                    if len(obs['events']) != 2 + len(eff):
                        fail(section, case, 'stream event count %d' % len(obs['events']))
                if rkind == 'none':
                    want_cl = preset['cl']
                else:
                    if rkind == 'bytes':
                        blen = len(payload)
                    else:
                        blen = len(json.dumps(payload, ensure_ascii=False).encode())
                    want_cl = expected_cl_nonstream(spec, code, method, blen)
                check_common_headers(section, case, headers, spec, code, method, want_cl)
            # close() discipline: exactly once, once streaming has begun
            if kind in ('aiterclose', 'afile'):
                if stream.begun and stream.closed != 1:
                    fail(section, case, 'begun stream: close() called %d times' % stream.closed)
                if not stream.begun and stream.closed != 0:
                    fail(section, case, 'never-begun stream closed %d times' % stream.closed)
                if streamed and fail_send_at != 0 and not stream.begun:
                    fail(section, case, 'selected stream never begun')
                if not streamed and stream.begun:
                    fail(section, case, 'unselected stream was consumed')
                if kind == 'afile' and any(s != BLOCK for s in stream.sizes):
                    fail(section, case, 'block sizes %r' % (stream.sizes,))

    # special terminators: None from an async iterator ends the stream;
    # None from an async file-like read() is sent as an empty chunk.
    app, res = apps['std']
    for kind, chunks, want_body, want_events in (
        ('aiterclose', [b'a', None, b'never'], b'a', 3),
        ('afile', [b'a', None, b'b'], b'ab', 5),
        ('afile_noclose', [None, None], b'', 4),
    ):
        for fail_send_at in [None] + list(range(want_events)):
            stream = make_asgi_stream(kind, chunks)
            res.spec = dict(status=200, stream=stream, preset=PRESETS[0])
            obs = await run_asgi(app, 'GET', fail_send_at)
            count(section)
            case = ('terminators', kind, fail_send_at)
            r = check_asgi_framing(section, case, obs, 200, complete=fail_send_at is None)
            if fail_send_at is None:
                if r is None or r[1] != want_body or len(obs['events']) != want_events:
                    fail(section, case, 'got %r' % (obs['events'],))
            elif len(obs['events']) != fail_send_at or not isinstance(obs['raised'], SendBoom):
                fail(section, case, 'send failure handling')
            if kind != 'afile_noclose':
                want_closed = 0 if fail_send_at == 0 else 1
                if stream.closed != want_closed:
                    fail(section, case, 'close() called %d times' % stream.closed)

    # wrong kind of stream object: reported as TypeError, close() still once
    class NotAsync:
        closed = 0

        def __iter__(self):
            return iter([b'x'])

        async def close(self):
            NotAsync.closed += 1

    async def genfunc():
        yield b'x'

    for bad in (NotAsync(), genfunc):
        res.spec = dict(status=200, stream=bad, preset=PRESETS[0])
        count(section)
        try:
            await run_asgi(app, 'GET')
            fail(section, ('bad-stream', bad), 'no TypeError')
        except TypeError:
            pass
    if NotAsync.closed != 1:
        fail(section, 'bad-stream', 'close() called %d times' % NotAsync.closed)


async def section_asgi_sse_faults():
    section = 'asgi-sse-faults'
    app, res = build_asgi_apps()['std']
    n = len(SSE_EVENT_SPECS)
    for raise_at, fail_send_at in [(k, None) for k in range(n + 1)] + [
        (None, k) for k in range(n + 2)
    ]:
        sse = make_sse(SSE_EVENT_SPECS, raise_at)
        res.spec = dict(status=200, sse=sse, preset=PRESETS[0])
        case = (raise_at, fail_send_at)
        obs = await run_asgi(app, 'GET', fail_send_at)
        await sse.aclose()
        count(section)
        if obs['raised'] is None:
            fail(section, case, 'fault swallowed')
        check_asgi_framing(section, case, obs, 200, complete=False)
        want_events = fail_send_at if fail_send_at is not None else 1 + raise_at
        if len(obs['events']) != want_events:
            fail(section, case, 'event count %d != %d' % (len(obs['events']), want_events))
        if any(not e.get('more_body') for e in obs['events'][1:]):
            fail(section, case, 'body terminated although emission failed')
    # leftover disconnect watchers of the failed runs
    for t in asyncio.all_tasks():
        if t is not asyncio.current_task():
            t.cancel()
    await asyncio.sleep(0)


async def asgi_sections():
    await section_asgi_matrix()
    await section_asgi_streams()
    await section_asgi_sse_faults()


def main(extra_sections=()):
    section_status()
    section_sse_serialize()
    section_closeable_iterator()
    section_get_body()
    section_wsgi_matrix()
    section_wsgi_streams()
    asyncio.run(asgi_sections())
    for fn in extra_sections:
        fn()
    total = sum(COUNTS.values())
    print('falcon from', falcon.__file__)
    for k in sorted(COUNTS):
        print('  %-20s %6d cases' % (k, COUNTS[k]))
    if FAILURES:
        print('FAIL: %d mismatches (of %d cases)' % (len(FAILURES), total))
        for line in FAILURES[:25]:
            print('  ' + line)
        sys.exit(1)
    print('PASS (%d cases)' % total)
    sys.exit(0)


# ---------------------------------------------------------------------------
# Focus of this check: CloseableStreamIterator as seen by a WSGI server
# ---------------------------------------------------------------------------


def section_closeable_focus():
    """Randomised server-side histories against CloseableStreamIterator.

    Model: next() performs exactly one stream.read(block_size) and returns its
    result unchanged unless it equals b'' (-> StopIteration); exceptions from
    read() propagate unchanged and leave the iterator usable; close() calls
    stream.close() once per call (so exactly once for a server that follows
    PEP 3333), swallowing only AttributeError/TypeError; iteration never
    closes by itself; subclasses that replace __init__ keep working; the
    iterator holds no state that could make two instances over different
    streams interfere.
    """
    section = 'closeable-focus'
    CSI = falcon.app_helpers.CloseableStreamIterator
    rnd = random.Random(353)

    class Sub(CSI):
        # replaces __init__ without calling the base implementation
        def __init__(self, stream):
            self._stream = stream
            self._block_size = 5

    for trial in range(500):
        n = rnd.randrange(0, 7)
        blocks = []
        for _ in range(n):
            blocks.append(
                rnd.choice(
                    [b'x' * rnd.randrange(1, 20), b'\x00', bytearray(b'ba'), None, 'str', 0, memoryview(b'mv')]
                )
            )
        bs = rnd.choice([1, 5, 8192])
        use_sub = rnd.random() < 0.3
        f1 = SyncFile(blocks)
        f2 = SyncFile([b'other'])
        it = Sub(f1) if use_sub else CSI(f1, bs)
        other = CSI(f2, 3)
        if use_sub:
            bs = 5
        case = (trial, [type(b).__name__ for b in blocks], bs, use_sub)
        count(section)
        # interleave operations as a server (or a buggy middleware) might
        got = []
        ops = []
        stopped = 0
        for _ in range(n + 3):
            op = rnd.choice(['next', 'next', 'next', 'boom', 'other', 'iter', 'repr'])
            ops.append(op)
            if op == 'next':
                try:
                    got.append(next(it))
                except StopIteration:
                    stopped += 1
            elif op == 'boom':
                f1.raise_at = f1.calls
                try:
                    next(it)
                    fail(section, case, 'read() exception swallowed')
                except StreamBoom:
                    pass
                f1.raise_at = None
            elif op == 'other':
                try:
                    next(other)
                except StopIteration:
                    pass
            elif op == 'iter':
                if iter(it) is not it:
                    fail(section, case, '__iter__ is not self')
            else:
                if type(repr(it)) is not str or type(str(it)) is not str:
                    fail(section, case, 'repr')
        # reference replay of the same history
        want = []
        want_stopped = 0
        k = 0
        want_sizes = []
        for op in ops:
            if op == 'next':
                want_sizes.append(bs)
                blk = blocks[k] if k < len(blocks) else b''
                k += 1
                if blk == b'':
                    want_stopped += 1
                else:
                    want.append(blk)
            elif op == 'boom':
                want_sizes.append(bs)
                k += 1  # the failed read consumed a call slot of the double
        if len(got) != len(want) or any(a is not b for a, b in zip(got, want)):
            fail(section, case, 'history %r: got %r want %r' % (ops, got, want))
        if stopped != want_stopped:
            fail(section, case, 'StopIteration count %d != %d' % (stopped, want_stopped))
        if f1.sizes != want_sizes:
            fail(section, case, 'read sizes %r != %r' % (f1.sizes, want_sizes))
        if f1.closed or f2.closed:
            fail(section, case, 'closed by iteration')
        it.close()
        if f1.closed != 1 or f2.closed != 0:
            fail(section, case, 'close(): %d/%d' % (f1.closed, f2.closed))
        other.close()
        if f1.closed != 1 or f2.closed != 1:
            fail(section, case, 'close() of sibling: %d/%d' % (f1.closed, f2.closed))

    # end to end: the iterable handed to the server for a file-like stream
    app = falcon.App()
    res = WSGIResource()
    app.add_route('/', res)
    for trial in range(200):
        n = rnd.randrange(0, 5)
        chunks = [bytes([48 + i]) * rnd.randrange(1, 30) for i in range(n)]
        raise_at = rnd.choice([None, None] + list(range(n + 1)))
        stream = SyncFile(chunks, raise_at)
        res.spec = dict(status=rnd.choice([200, '206 Partial Content', 799]), stream=stream, preset=rnd.choice(PRESETS))
        obs = run_wsgi(app, rnd.choice(['GET', 'POST']), False)
        count(section)
        case = ('e2e', trial, n, raise_at)
        if type(obs['iterable']) is not falcon.app_helpers.CloseableStreamIterator:
            fail(section, case, 'iterable type %r' % type(obs['iterable']))
        m = n if raise_at is None else min(n, raise_at)
        if obs['chunks'] != chunks[:m] or (obs['raised'] is None) != (raise_at is None):
            fail(section, case, 'chunks %r' % (obs['chunks'],))
        if stream.closed != 1:
            fail(section, case, 'close() called %d times' % stream.closed)
        if len(obs['calls']) != 1:
            fail(section, case, 'start_response calls %d' % len(obs['calls']))


if __name__ == '__main__':
    main([section_closeable_focus])
