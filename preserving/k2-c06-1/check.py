"""C06 check for change 1 (WSGI Request.__init__ query-string handling).

Exercises: for every (QUERY_STRING present / absent / empty / arbitrary,
request options) the WSGI request, the ASGI request and a small reference
model agree on ``query_string`` and ``params``; and a WSGI app and an ASGI app
driven through falcon.testing (and through minimal hand-written drivers)
report the same view of the request.
"""

import asyncio
import io
import itertools
import json
import random
import sys

import falcon
import falcon.asgi
from falcon import testing
from falcon.request import RequestOptions

FAILURES = []
CASES = 0


def check(cond, msg):
    global CASES
    CASES += 1
    if not cond:
        FAILURES.append(msg)


# ---------------------------------------------------------------------------
# Reference model: what a request must report for a given raw query string.
# Only used for inputs without percent-escapes / '+' so that it stays simple.
# ---------------------------------------------------------------------------


def ref_params(qs, keep_blank, csv):
    params = {}
    if not qs:
        return params
    for field in qs.split('&'):
        name, _, value = field.partition('=')
        if not value and (not keep_blank or not name):
            continue
        if csv and ',' in value:
            values = value.split(',')
            if not keep_blank:
                values = [v for v in values if v]
            new = values
        else:
            new = value
        if name in params:
            old = params[name]
            if not isinstance(old, list):
                old = [old]
            if isinstance(new, list):
                old = old + new
            else:
                old = old + [new]
            params[name] = old
        else:
            params[name] = new
    return params


def outcome(fn, *args):
    try:
        return ('ok', fn(*args))
    except Exception as ex:  # same exception type expected on both stacks
        return ('raised', type(ex).__name__)


def make_options(keep_blank, csv, strip):
    opts = RequestOptions()
    opts.keep_blank_qs_values = keep_blank
    opts.auto_parse_qs_csv = csv
    opts.strip_url_path_trailing_slash = strip
    return opts


def base_env(**extra):
    env = {
        'REQUEST_METHOD': 'GET',
        'PATH_INFO': '/things/',
        'SERVER_NAME': 'example.org',
        'SERVER_PORT': '80',
        'SERVER_PROTOCOL': 'HTTP/1.1',
        'wsgi.url_scheme': 'http',
        'wsgi.input': io.BytesIO(b''),
        'wsgi.errors': io.StringIO(),
        'HTTP_HOST': 'example.org',
    }
    env.update(extra)
    return env


def base_scope(qs_bytes):
    return {
        'type': 'http',
        'asgi': {'version': '3.0', 'spec_version': '2.1'},
        'http_version': '1.1',
        'method': 'GET',
        'path': '/things/',
        'raw_path': b'/things/',
        'query_string': qs_bytes,
        'scheme': 'http',
        'server': ('example.org', 80),
        'headers': [(b'host', b'example.org')],
    }


async def _no_receive():  # pragma: no cover - never awaited here
    return {'type': 'http.disconnect'}


SIMPLE_ALPHABET = ['a', 'b', 'c', 'x1', 'Y', '', '=', '&', ',', '1', '22', '-', '.', '_']
RAW_ALPHABET = SIMPLE_ALPHABET + ['%20', '+', '%', '%zz', '%C3%A9', '%ff', ';', ' ', '?']

HARDCODED = [
    # (env has key, value, keep_blank, csv) -> (query_string, params)
    ((False, None, False, False), ('', {})),
    ((False, None, True, True), ('', {})),
    ((True, '', False, False), ('', {})),
    ((True, '', True, True), ('', {})),
    ((True, 'a=1', False, False), ('a=1', {'a': '1'})),
    ((True, 'a=1&a=2', False, False), ('a=1&a=2', {'a': ['1', '2']})),
    ((True, 'a=1,2', False, False), ('a=1,2', {'a': '1,2'})),
    ((True, 'a=1,2', False, True), ('a=1,2', {'a': ['1', '2']})),
    ((True, 'a=', False, False), ('a=', {})),
    ((True, 'a=', True, False), ('a=', {'a': ''})),
    ((True, 'a', True, False), ('a', {'a': ''})),
    ((True, '&&', True, True), ('&&', {})),
    ((True, 'q=%C3%A9+x', False, False), ('q=%C3%A9+x', {'q': 'é x'})),
]


def run_request_level():
    rng = random.Random(60601)

    # Hard-coded expectations (taken from the unmodified tree).
    for (present, value, keep_blank, csv), (exp_qs, exp_params) in HARDCODED:
        opts = make_options(keep_blank, csv, False)
        env = base_env()
        if present:
            env['QUERY_STRING'] = value
        req = falcon.Request(env, options=opts)
        tag = 'hardcoded %r' % ((present, value, keep_blank, csv),)
        check(req.query_string == exp_qs, tag + ' query_string %r' % req.query_string)
        check(req.params == exp_params, tag + ' params %r' % (req.params,))
        check(type(req.params) is dict, tag + ' params type')
        check(type(req.query_string) is str, tag + ' qs type')

        areq = falcon.asgi.Request(
            base_scope((value or '').encode()), _no_receive, options=opts
        )
        check(areq.query_string == exp_qs, tag + ' asgi query_string')
        check(areq.params == exp_params, tag + ' asgi params %r' % (areq.params,))

    # Generated: simple strings vs the reference model, WSGI vs ASGI.
    generated = []
    for n in range(0, 4):
        for combo in itertools.product(SIMPLE_ALPHABET[:9], repeat=n):
            generated.append(('simple', ''.join(combo)))
    rng.shuffle(generated)
    generated = generated[:700]
    for _ in range(500):
        n = rng.randint(0, 9)
        generated.append(('simple', ''.join(rng.choice(SIMPLE_ALPHABET) for _ in range(n))))
    for _ in range(500):
        n = rng.randint(0, 9)
        generated.append(('raw', ''.join(rng.choice(RAW_ALPHABET) for _ in range(n))))

    option_space = list(itertools.product([False, True], repeat=3))
    for i, (kind, qs) in enumerate(generated):
        keep_blank, csv, strip = option_space[i % len(option_space)]
        opts = make_options(keep_blank, csv, strip)

        env = base_env(QUERY_STRING=qs)
        wreq = falcon.Request(env, options=opts)
        areq = falcon.asgi.Request(base_scope(qs.encode()), _no_receive, options=opts)
        tag = 'gen %s %r kb=%s csv=%s' % (kind, qs, keep_blank, csv)

        check(wreq.query_string == qs, tag + ' wsgi qs')
        check(areq.query_string == qs, tag + ' asgi qs')
        check(wreq.params == areq.params, tag + ' wsgi/asgi params %r %r' % (wreq.params, areq.params))
        check(wreq.path == areq.path, tag + ' path')
        check(wreq.relative_uri == areq.relative_uri, tag + ' relative_uri')
        check(wreq.uri == areq.uri, tag + ' uri')
        if kind == 'simple':
            exp = ref_params(qs, keep_blank, csv)
            check(wreq.params == exp, tag + ' wsgi vs model %r %r' % (wreq.params, exp))
        # get_param* accessors agree as well
        for name in ('a', 'b', 'x1', 'Y', 'zz'):
            check(
                outcome(wreq.get_param, name) == outcome(areq.get_param, name),
                tag + ' get_param ' + name,
            )
            check(
                outcome(wreq.get_param_as_list, name)
                == outcome(areq.get_param_as_list, name),
                tag + ' get_param_as_list ' + name,
            )

        # Missing key behaves as the empty string (history: nothing cached yet,
        # then read twice).
        if i % 5 == 0:
            env2 = base_env()
            assert 'QUERY_STRING' not in env2
            wreq2 = falcon.Request(env2, options=opts)
            areq2 = falcon.asgi.Request(base_scope(b''), _no_receive, options=opts)
            check(wreq2.query_string == '' and areq2.query_string == '', tag + ' missing qs')
            check(wreq2.params == {} and areq2.params == {}, tag + ' missing params')
            check(wreq2.params is wreq2.params, tag + ' params identity')
            check(wreq2.relative_uri == areq2.relative_uri, tag + ' missing relative_uri')
            check(wreq2.uri == areq2.uri == 'http://example.org' + wreq2.path, tag + ' missing uri')


# ---------------------------------------------------------------------------
# Full stack: same responder on a WSGI and an ASGI app
# ---------------------------------------------------------------------------


def snapshot(req):
    return {
        'method': req.method,
        'path': req.path,
        'query_string': req.query_string,
        'params': req.params,
        'relative_uri': req.relative_uri,
        'uri': req.uri,
        'content_type': req.content_type,
    }


class SyncResource:
    def on_get(self, req, resp):
        resp.media = snapshot(req)

    def on_post(self, req, resp):
        snap = snapshot(req)
        snap['body'] = req.bounded_stream.read().decode('latin1')
        resp.media = snap


class AsyncResource:
    async def on_get(self, req, resp):
        resp.media = snapshot(req)

    async def on_post(self, req, resp):
        snap = snapshot(req)
        snap['body'] = (await req.stream.read()).decode('latin1')
        resp.media = snap


def make_apps(keep_blank, csv, strip, form):
    apps = []
    for cls, res in ((falcon.App, SyncResource()), (falcon.asgi.App, AsyncResource())):
        app = cls()
        app.req_options.keep_blank_qs_values = keep_blank
        app.req_options.auto_parse_qs_csv = csv
        app.req_options.strip_url_path_trailing_slash = strip
        if form and cls is falcon.App:
            # NOTE: only the WSGI flavour supports the deprecated option;
            #   exercised separately below.
            pass
        app.add_route('/things', res)
        app.add_route('/things/', res)
        apps.append(app)
    return apps


def drive_wsgi_minimal(app, method, path, qs, with_qs_key=True, body=b''):
    env = {
        'REQUEST_METHOD': method,
        'SCRIPT_NAME': '',
        'PATH_INFO': path,
        'SERVER_NAME': 'falconframework.org',
        'SERVER_PORT': '80',
        'SERVER_PROTOCOL': 'HTTP/1.1',
        'HTTP_HOST': 'falconframework.org',
        'wsgi.version': (1, 0),
        'wsgi.url_scheme': 'http',
        'wsgi.input': io.BytesIO(body),
        'wsgi.errors': io.StringIO(),
        'wsgi.multithread': False,
        'wsgi.multiprocess': False,
        'wsgi.run_once': False,
    }
    if with_qs_key:
        env['QUERY_STRING'] = qs
    if body:
        env['CONTENT_LENGTH'] = str(len(body))
    captured = {}

    def start_response(status, headers, exc_info=None):
        captured['status'] = status
        captured['headers'] = headers

    chunks = app(env, start_response)
    data = b''.join(chunks)
    if hasattr(chunks, 'close'):
        chunks.close()
    return captured['status'], sorted(captured['headers']), data


def drive_asgi_minimal(app, method, path, qs, body=b''):
    scope = {
        'type': 'http',
        'asgi': {'version': '3.0', 'spec_version': '2.1'},
        'http_version': '1.1',
        'method': method,
        'scheme': 'http',
        'path': path,
        'raw_path': path.encode(),
        'query_string': qs.encode(),
        'root_path': '',
        'server': ('falconframework.org', 80),
        'headers': [(b'host', b'falconframework.org')]
        + ([(b'content-length', str(len(body)).encode())] if body else []),
    }
    events = [{'type': 'http.request', 'body': body, 'more_body': False}]
    sent = []

    async def receive():
        if events:
            return events.pop(0)
        await asyncio.sleep(3600)

    async def send(event):
        sent.append(event)

    asyncio.run(asyncio.wait_for(app(scope, receive, send), 30))
    start = sent[0]
    status = start['status']
    headers = sorted((n.decode('latin1'), v.decode('latin1')) for n, v in start['headers'])
    data = b''.join(e.get('body', b'') for e in sent[1:])
    return status, headers, data


def run_full_stack():
    rng = random.Random(60602)
    option_space = list(itertools.product([False, True], repeat=3))
    qs_pool = ['', 'a=1', 'a=1&a=2', 'a=1,2&b=', 'b', 'a=%C3%A9&c=+x+', '&&=,', 'x1=,,&Y=1,,2']
    for _ in range(40):
        n = rng.randint(1, 7)
        qs_pool.append(''.join(rng.choice(SIMPLE_ALPHABET) for _ in range(n)))

    for i, qs in enumerate(qs_pool):
        keep_blank, csv, strip = option_space[i % len(option_space)]
        wapp, aapp = make_apps(keep_blank, csv, strip, False)
        for method, body in (('GET', b''), ('POST', b'payload=1&z')):
            path = '/things/' if i % 2 else '/things'
            tag = 'stack %s %r opts=%r' % (method, qs, (keep_blank, csv, strip))

            kw = dict(path=path, query_string=qs or None, body=body or None)
            wres = testing.simulate_request(wapp, method, **kw)
            ares = testing.simulate_request(aapp, method, **kw)
            check(wres.status == ares.status == '200 OK', tag + ' status %s %s' % (wres.status, ares.status))
            check(wres.json == ares.json, tag + ' json %r %r' % (wres.json, ares.json))
            check(dict(wres.headers) == dict(ares.headers), tag + ' headers')
            check(wres.json['query_string'] == qs, tag + ' seen qs')

            # Minimal spec-faithful drivers give the same answer.
            ws, wh, wd = drive_wsgi_minimal(wapp, method, path, qs, body=body)
            as_, ah, ad = drive_asgi_minimal(aapp, method, path, qs, body=body)
            check(ws == '200 OK' and as_ == 200, tag + ' minimal status')
            check(wd == ad == wres.content == ares.content, tag + ' minimal body %r %r' % (wd, ad))
            check(wh == ah, tag + ' minimal headers %r %r' % (wh, ah))

            if not qs:
                # A WSGI server that omits QUERY_STRING altogether.
                ws2, wh2, wd2 = drive_wsgi_minimal(
                    wapp, method, path, qs, with_qs_key=False, body=body
                )
                check((ws2, wh2, wd2) == (ws, wh, wd), tag + ' missing QUERY_STRING key')
                seen = json.loads(wd2)
                check(seen['query_string'] == '' and seen['params'] == {}, tag + ' missing -> empty')


def run_form_urlencoded():
    # The (deprecated) WSGI-only form parsing merges the body into the params
    # computed by __init__; make sure both "no query string" shapes agree.
    import warnings

    for present, qs in ((False, None), (True, ''), (True, 'a=1&b=2')):
        opts = RequestOptions()
        with warnings.catch_warnings():
            warnings.simplefilter('ignore')
            opts.auto_parse_form_urlencoded = True
        body = b'b=3&c=4'
        env = base_env(
            REQUEST_METHOD='POST',
            CONTENT_TYPE='application/x-www-form-urlencoded',
            CONTENT_LENGTH=str(len(body)),
        )
        env['wsgi.input'] = io.BytesIO(body)
        if present:
            env['QUERY_STRING'] = qs
        req = falcon.Request(env, options=opts)
        if qs:
            exp = {'a': '1', 'b': '3', 'c': '4'}
        else:
            exp = {'b': '3', 'c': '4'}
        check(req.params == exp, 'form %r -> %r' % ((present, qs), req.params))
        check(req.query_string == (qs or ''), 'form qs %r' % ((present, qs),))


def main():
    run_request_level()
    run_full_stack()
    run_form_urlencoded()
    if FAILURES:
        print('FAIL (%d of %d checks)' % (len(FAILURES), CASES))
        for f in FAILURES[:25]:
            print('  -', f)
        return 1
    print('PASS (%d checks, falcon from %s)' % (CASES, falcon.__file__))
    return 0


if __name__ == '__main__':
    sys.exit(main())
