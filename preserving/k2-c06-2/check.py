"""C06 check for change 2 (req.path derivation shared by WSGI and ASGI).

For many raw request paths (ASCII, percent-encoded UTF-8, invalid sequences,
empty, root, repeated slashes) and both values of
``strip_url_path_trailing_slash``:

* falcon.Request (PATH_INFO tunnelled via latin-1) and falcon.asgi.Request
  report the same ``path`` and URL parts, and both match a reference model;
* a WSGI app and an ASGI app with the same routes + sink produce the same
  status / headers / body, both via falcon.testing and via minimal
  hand-written server drivers.
"""

import asyncio
import io
import itertools
import random
import sys

import falcon
import falcon.asgi
from falcon import testing
from falcon.request import RequestOptions

FAILURES = []
CASES = 0


def check(cond, msg):
    global CASES
    CASES += 1
    if not cond:
        FAILURES.append(msg)


# ---------------------------------------------------------------------------
# Reference model
# ---------------------------------------------------------------------------


def percent_decode(raw):
    """Percent-decode an ASCII raw path into bytes (what a server does)."""
    out = bytearray()
    i = 0
    data = raw.encode('utf-8')
    while i < len(data):
        c = data[i : i + 1]
        if c == b'%' and i + 2 < len(data) + 0 and len(data[i + 1 : i + 3]) == 2:
            try:
                out.append(int(data[i + 1 : i + 3].decode('ascii'), 16))
                i += 3
                continue
            except ValueError:
                pass
        out += c
        i += 1
    return bytes(out)


def ref_path(path_bytes, strip):
    path = path_bytes.decode('utf-8', 'replace') or '/'
    if strip and len(path) != 1 and path.endswith('/'):
        return path[:-1]
    return path


def make_options(strip):
    opts = RequestOptions()
    opts.strip_url_path_trailing_slash = strip
    return opts


def wsgi_env(path_bytes, qs='', method='GET', body=b''):
    env = {
        'REQUEST_METHOD': method,
        'SCRIPT_NAME': '',
        # PEP 3333: bytes tunnelled as latin-1
        'PATH_INFO': path_bytes.decode('latin-1'),
        'QUERY_STRING': qs,
        'SERVER_NAME': 'falconframework.org',
        'SERVER_PORT': '80',
        'SERVER_PROTOCOL': 'HTTP/1.1',
        'HTTP_HOST': 'falconframework.org',
        'wsgi.version': (1, 0),
        'wsgi.url_scheme': 'http',
        'wsgi.input': io.BytesIO(body),
        'wsgi.errors': io.StringIO(),
        'wsgi.multithread': False,
        'wsgi.multiprocess': False,
        'wsgi.run_once': False,
    }
    if body:
        env['CONTENT_LENGTH'] = str(len(body))
    return env


def asgi_scope(path_bytes, raw_path, qs='', method='GET', body=b''):
    return {
        'type': 'http',
        'asgi': {'version': '3.0', 'spec_version': '2.1'},
        'http_version': '1.1',
        'method': method,
        'scheme': 'http',
        'path': path_bytes.decode('utf-8', 'replace'),
        'raw_path': raw_path,
        'query_string': qs.encode(),
        'root_path': '',
        'server': ('falconframework.org', 80),
        'headers': [(b'host', b'falconframework.org')]
        + ([(b'content-length', str(len(body)).encode())] if body else []),
    }


async def _no_receive():  # pragma: no cover
    return {'type': 'http.disconnect'}


SEGMENTS = [
    '',
    'a',
    'things',
    'Things',
    '42',
    '.',
    '..',
    'a b',
    'x+y',
    'é',
    '日本',
    '\U0001f600',
    '%2F',
    '%',
    '~',
]

RAW_BYTES_EXTRA = [
    b'',
    b'/',
    b'//',
    b'///',
    b'/a',
    b'/a/',
    b'/a//',
    b'a',
    b'a/',
    b'/\xff',
    b'/\xff/',
    b'/\xc3',
    b'/\xc3/',
    b'/\xc3\xa9/',
    b'/\xe6\x97\xa5/',
    b'/\xf0\x9f\x98\x80',
    b'/\xf0\x9f/',
    b'\xe9',
    b'\xe9/',
    b'/things/\xc3\xa9/',
    b'/ /',
    b'/%/',
    b'/?/',
]

HARDCODED = [
    # (path bytes, strip) -> req.path on the unmodified tree
    ((b'', False), '/'),
    ((b'', True), '/'),
    ((b'/', False), '/'),
    ((b'/', True), '/'),
    ((b'//', False), '//'),
    ((b'//', True), '/'),
    ((b'///', True), '//'),
    ((b'/a/', False), '/a/'),
    ((b'/a/', True), '/a'),
    ((b'/a//', True), '/a/'),
    ((b'a/', True), 'a'),
    ((b'a', True), 'a'),
    ((b'/\xc3\xa9/', True), '/é'),
    ((b'/\xc3\xa9/', False), '/é/'),
    ((b'/\xff/', True), '/�'),
    ((b'/\xff/', False), '/�/'),
    ((b'\xe9/', True), '�'),
]


def all_path_bytes():
    rng = random.Random(60621)
    paths = list(RAW_BYTES_EXTRA)
    for n in range(1, 4):
        for combo in itertools.product(SEGMENTS[:8], repeat=n):
            for lead, trail in (('/', ''), ('/', '/'), ('', '/')):
                paths.append((lead + '/'.join(combo) + trail).encode('utf-8'))
    rng.shuffle(paths)
    paths = paths[:500]
    for _ in range(400):
        n = rng.randint(0, 5)
        p = '/' + '/'.join(rng.choice(SEGMENTS) for _ in range(n))
        if rng.random() < 0.5:
            p += '/'
        data = p.encode('utf-8')
        if rng.random() < 0.2:
            # inject an invalid UTF-8 byte somewhere
            k = rng.randint(0, len(data))
            data = data[:k] + bytes([rng.choice([0xFF, 0xC3, 0xE9, 0x80])]) + data[k:]
        paths.append(data)
    return RAW_BYTES_EXTRA + paths


def run_request_level():
    for (pb, strip), exp in HARDCODED:
        opts = make_options(strip)
        wreq = falcon.Request(wsgi_env(pb), options=opts)
        areq = falcon.asgi.Request(asgi_scope(pb, pb), _no_receive, options=opts)
        tag = 'hardcoded %r strip=%s' % (pb, strip)
        check(wreq.path == exp, tag + ' wsgi %r' % wreq.path)
        check(areq.path == exp, tag + ' asgi %r' % areq.path)
        check(type(wreq.path) is str and type(areq.path) is str, tag + ' type')

    for i, pb in enumerate(all_path_bytes()):
        for strip in (False, True):
            opts = make_options(strip)
            qs = '' if i % 3 else 'a=1&b=/'
            wreq = falcon.Request(wsgi_env(pb, qs), options=opts)
            areq = falcon.asgi.Request(asgi_scope(pb, pb, qs), _no_receive, options=opts)
            exp = ref_path(pb, strip)
            tag = 'gen %r strip=%s' % (pb, strip)
            check(wreq.path == exp, tag + ' wsgi vs model %r %r' % (wreq.path, exp))
            check(areq.path == exp, tag + ' asgi vs model %r %r' % (areq.path, exp))
            check(wreq.path == areq.path, tag + ' wsgi vs asgi')
            check(wreq.relative_uri == areq.relative_uri, tag + ' relative_uri')
            check(wreq.uri == areq.uri, tag + ' uri')
            check(wreq.url == areq.url, tag + ' url')
            check(wreq.forwarded_uri == areq.forwarded_uri, tag + ' forwarded_uri')
            check(repr(wreq) == repr(areq), tag + ' repr')
            # The option is read at construction time only: flipping it later
            # must not alter an existing request (history independence).
            opts.strip_url_path_trailing_slash = not strip
            check(wreq.path == exp and areq.path == exp, tag + ' path stable')
            opts.strip_url_path_trailing_slash = strip

    # Default options object (options=None) => no stripping on either side.
    for pb in RAW_BYTES_EXTRA:
        wreq = falcon.Request(wsgi_env(pb))
        areq = falcon.asgi.Request(asgi_scope(pb, pb), _no_receive)
        exp = ref_path(pb, False)
        check(wreq.path == areq.path == exp, 'default options %r' % pb)

    # WebSocket handshake scope goes through the same initializer.
    for pb in (b'/ws/', b'/', b'', b'/ws//'):
        for strip in (False, True):
            scope = asgi_scope(pb, pb)
            scope['type'] = 'websocket'
            scope['scheme'] = 'ws'
            del scope['method']
            areq = falcon.asgi.Request(scope, _no_receive, options=make_options(strip))
            check(areq.path == ref_path(pb, strip), 'ws %r strip=%s' % (pb, strip))


# ---------------------------------------------------------------------------
# Via falcon.testing helpers (percent-encoded raw paths)
# ---------------------------------------------------------------------------


def run_testing_helpers():
    rng = random.Random(60622)
    raw_paths = ['/', '/a/', '/a%2Fb/', '/%C3%A9/', '/%E6%97%A5/', '/%FF/', '/%ff', '/a//', '//', '/%/']
    raw_paths += ['/café/', '/日本', '/日本/']
    for _ in range(150):
        n = rng.randint(1, 4)
        segs = []
        for _ in range(n):
            seg = rng.choice(SEGMENTS)
            if rng.random() < 0.4:
                seg = ''.join('%%%02X' % b for b in seg.encode('utf-8'))
            segs.append(seg)
        raw_paths.append('/' + '/'.join(segs) + ('/' if rng.random() < 0.5 else ''))

    for raw in raw_paths:
        for strip in (False, True):
            opts = make_options(strip)
            wreq = testing.create_req(options=opts, path=raw)
            areq = testing.create_asgi_req(options=opts, path=raw)
            tag = 'helpers %r strip=%s' % (raw, strip)
            check(wreq.path == areq.path, tag + ' path %r %r' % (wreq.path, areq.path))
            exp = ref_path(percent_decode(raw), strip)
            check(wreq.path == exp, tag + ' vs model %r %r' % (wreq.path, exp))
            check(wreq.uri == areq.uri, tag + ' uri')
            check(wreq.relative_uri == areq.relative_uri, tag + ' relative_uri')


# ---------------------------------------------------------------------------
# Full stack
# ---------------------------------------------------------------------------


class SyncThings:
    def on_get(self, req, resp, **kw):
        resp.media = {'route': req.uri_template, 'path': req.path, 'kw': kw}


class AsyncThings:
    async def on_get(self, req, resp, **kw):
        resp.media = {'route': req.uri_template, 'path': req.path, 'kw': kw}


def sync_sink(req, resp, **kw):
    resp.status = falcon.HTTP_202
    resp.media = {'sink': True, 'path': req.path}


async def async_sink(req, resp, **kw):
    resp.status = falcon.HTTP_202
    resp.media = {'sink': True, 'path': req.path}


def make_apps(strip):
    wapp = falcon.App()
    aapp = falcon.asgi.App()
    for app, res, sink in ((wapp, SyncThings(), sync_sink), (aapp, AsyncThings(), async_sink)):
        app.req_options.strip_url_path_trailing_slash = strip
        app.add_route('/', res)
        app.add_route('/things', res)
        app.add_route('/things/{name}', res)
        app.add_route('/slash/', res)
        app.add_sink(sink, '/sink')
    return wapp, aapp


def drive_wsgi_minimal(app, path_bytes):
    captured = {}

    def start_response(status, headers, exc_info=None):
        captured['status'] = status
        captured['headers'] = headers

    chunks = app(wsgi_env(path_bytes), start_response)
    data = b''.join(chunks)
    if hasattr(chunks, 'close'):
        chunks.close()
    return int(captured['status'].split()[0]), sorted(captured['headers']), data


def drive_asgi_minimal(app, path_bytes):
    events = [{'type': 'http.request', 'body': b'', 'more_body': False}]
    sent = []

    async def receive():
        if events:
            return events.pop(0)
        await asyncio.sleep(3600)

    async def send(event):
        sent.append(event)

    asyncio.run(asyncio.wait_for(app(asgi_scope(path_bytes, path_bytes), receive, send), 30))
    start = sent[0]
    headers = sorted((n.decode('latin1'), v.decode('latin1')) for n, v in start['headers'])
    data = b''.join(e.get('body', b'') for e in sent[1:])
    return start['status'], headers, data


def run_full_stack():
    raw_paths = [
        '/',
        '//',
        '/things',
        '/things/',
        '/things//',
        '/things/x',
        '/things/x/',
        '/things/%C3%A9/',
        '/things/%FF/',
        '/things/a%2Fb',
        '/slash',
        '/slash/',
        '/sink',
        '/sink/',
        '/sink/a/b/',
        '/nope/',
        '/nope',
    ]
    for strip in (False, True):
        wapp, aapp = make_apps(strip)
        for raw in raw_paths:
            tag = 'stack %r strip=%s' % (raw, strip)
            wres = testing.simulate_get(wapp, raw)
            ares = testing.simulate_get(aapp, raw)
            check(wres.status == ares.status, tag + ' status %s %s' % (wres.status, ares.status))
            check(wres.content == ares.content, tag + ' body %r %r' % (wres.content, ares.content))
            check(dict(wres.headers) == dict(ares.headers), tag + ' headers')

            pb = percent_decode(raw)
            ws, wh, wd = drive_wsgi_minimal(wapp, pb)
            as_, ah, ad = drive_asgi_minimal(aapp, pb)
            check(ws == as_ == wres.status_code, tag + ' minimal status %s %s' % (ws, as_))
            check(wd == ad == wres.content, tag + ' minimal body %r %r' % (wd, ad))
            check(wh == ah, tag + ' minimal headers')

    # Hard-coded routing outcomes from the unmodified tree.
    expectations = {
        (False, '/things'): 200,
        (False, '/things/'): 200,
        (True, '/things/'): 200,
        (True, '/things//'): 200,
        (False, '/things//'): 404,
        (False, '/slash/'): 200,
        (False, '/slash'): 404,
        (True, '/slash/'): 404,
        (True, '/'): 200,
        (False, '/'): 200,
        (True, '/sink/'): 202,
    }
    for (strip, raw), status in expectations.items():
        wapp, aapp = make_apps(strip)
        check(testing.simulate_get(wapp, raw).status_code == status, 'expect wsgi %r %s' % (raw, strip))
        check(testing.simulate_get(aapp, raw).status_code == status, 'expect asgi %r %s' % (raw, strip))


def main():
    run_request_level()
    run_testing_helpers()
    run_full_stack()
    if FAILURES:
        print('FAIL (%d of %d checks)' % (len(FAILURES), CASES))
        for f in FAILURES[:25]:
            print('  -', f)
        return 1
    print('PASS (%d checks, falcon from %s)' % (CASES, falcon.__file__))
    return 0


if __name__ == '__main__':
    sys.exit(main())
