"""C06 check for change 3 (create_scope scheme validation / default port).

* create_scope() is compared against a reference model over every combination
  of scheme (valid, invalid, differently-cased, empty, None, non-str), port
  (None, ints, numeric strings), host, http_version and include_server;
* the ASGI request built from that scope is compared with the WSGI request
  built by create_environ() from the same arguments (scheme, port, host,
  netloc, URL parts, forwarded info);
* the same responder on a WSGI and an ASGI app is driven through
  simulate_request() with each protocol/port and through hand-written scope /
  environ dicts, and must answer identically.
"""

import asyncio
import io
import itertools
import random
import sys

import falcon
import falcon.asgi
from falcon import testing

FAILURES = []
CASES = 0


def check(cond, msg):
    global CASES
    CASES += 1
    if not cond:
        FAILURES.append(msg)


VALID = ('http', 'https', 'ws', 'wss')
SCHEMES = [
    None,
    '',
    'http',
    'https',
    'ws',
    'wss',
    'HTTP',
    'Https',
    'WS',
    'wSS',
    ' http',
    'http ',
    'ftp',
    'h',
    'httpss',
    'http:',
    'http://',
    'https,http',
    'wsss',
    'Kelvin',
    'ｈｔｔｐ',
    'ws\x00',
]
PORTS = [None, 80, 443, 8080, 0, 65535, 1, '80', '443', '8000', ' 81 ', True]
HOSTS = ['falconframework.org', 'example.com', 'localhost', '127.0.0.1', '[::1]']
HTTP_VERSIONS = ['1.1', '1.0', '1', '2', '2.0']


def ref_scope(scheme, port, host, http_version, include_server):
    """Return ('error', exc_type) or ('ok', expected-dict)."""
    if scheme:
        if scheme not in VALID:
            return ('error', ValueError)
    if port is None:
        eff_port = 80 if (scheme or 'http') in ('http', 'ws') else 443
    else:
        eff_port = int(port)

    hv = {'2.0': '2', '1': '1.0'}.get(http_version, http_version)
    exp = {
        'has_scheme': bool(scheme),
        'scheme': scheme if scheme else None,
        'server': [host, eff_port] if include_server else None,
        'http_version': hv,
    }
    if hv != '1.0':
        default = 443 if scheme == 'https' else 80
        exp['host_header'] = host if eff_port == default else '%s:%d' % (host, eff_port)
    else:
        exp['host_header'] = None
    return ('ok', exp)


def headers_of(scope):
    return [tuple(pair) for pair in scope['headers']]


def run_create_scope_model():
    rng = random.Random(60631)
    combos = list(itertools.product(SCHEMES, PORTS, HOSTS[:2], HTTP_VERSIONS[:2], (True, False)))
    rng.shuffle(combos)
    combos = combos[:900]
    # make sure every scheme x port pair appears at least once
    combos += [(s, p, HOSTS[0], '1.1', True) for s in SCHEMES for p in PORTS]
    for s in SCHEMES:
        for h in HOSTS:
            for hv in HTTP_VERSIONS:
                combos.append((s, None, h, hv, True))

    for scheme, port, host, hv, include_server in combos:
        tag = 'create_scope scheme=%r port=%r host=%r hv=%r srv=%r' % (
            scheme,
            port,
            host,
            hv,
            include_server,
        )
        kind, exp = ref_scope(scheme, port, host, hv, include_server)
        try:
            scope = testing.create_scope(
                scheme=scheme,
                port=port,
                host=host,
                http_version=hv,
                include_server=include_server,
            )
        except Exception as ex:
            check(kind == 'error' and type(ex) is exp, tag + ' raised %r' % ex)
            if type(ex) is ValueError:
                check(
                    str(ex) == "scheme must be either 'http', 'https', 'ws', or 'wss'",
                    tag + ' message %r' % str(ex),
                )
            continue

        check(kind == 'ok', tag + ' expected an error')
        if kind != 'ok':
            continue
        check(('scheme' in scope) == exp['has_scheme'], tag + ' scheme key presence')
        if exp['has_scheme']:
            check(scope['scheme'] == exp['scheme'], tag + ' scheme value')
        if exp['server'] is None:
            check('server' not in scope, tag + ' server key')
        else:
            server = list(scope['server'])
            check(server == exp['server'], tag + ' server %r' % (server,))
            check(type(server[1]) is int, tag + ' server port type')
        check(scope['http_version'] == exp['http_version'], tag + ' http_version')
        hdrs = dict(headers_of(scope))
        got_host = hdrs.get(b'host')
        check(
            (got_host.decode() if got_host is not None else None) == exp['host_header'],
            tag + ' host header %r' % got_host,
        )

    # Unhashable / odd scheme objects: behaviour pinned from the unmodified tree.
    for bad, exc in (
        (['http'], TypeError),
        ({'http'}, ValueError),
        (('http',), ValueError),
        (b'http', ValueError),
        (1, ValueError),
    ):
        try:
            testing.create_scope(scheme=bad)
        except Exception as ex:
            check(type(ex) is exc, 'odd scheme %r raised %r' % (bad, ex))
        else:
            check(False, 'odd scheme %r accepted' % (bad,))

    # Module-level defaults unchanged
    scope = testing.create_scope()
    check('scheme' not in scope, 'default: no scheme key')
    check(list(scope['server']) == ['falconframework.org', 80], 'default server')
    ws_scope = testing.create_scope_ws()
    check(ws_scope['scheme'] == 'ws' and list(ws_scope['server'])[1] == 80, 'ws default')
    wss_scope = testing.create_scope_ws(scheme='wss')
    check(wss_scope['scheme'] == 'wss' and list(wss_scope['server'])[1] == 443, 'wss default')


# ---------------------------------------------------------------------------
# WSGI request vs ASGI request from the testing helpers
# ---------------------------------------------------------------------------

REQ_ATTRS = (
    'scheme',
    'forwarded_scheme',
    'host',
    'forwarded_host',
    'port',
    'netloc',
    'prefix',
    'forwarded_prefix',
    'uri',
    'url',
    'forwarded_uri',
    'relative_uri',
    'path',
    'root_path',
)


def snapshot(req):
    return {name: getattr(req, name) for name in REQ_ATTRS}


def run_request_equivalence():
    rng = random.Random(60632)
    extra_headers = [
        None,
        {'X-Forwarded-Proto': 'HTTPS'},
        {'X-Forwarded-Host': 'proxy.example:8443'},
        {'Forwarded': 'for=1.2.3.4;proto=https;host=fwd.example'},
        [('X-Forwarded-Proto', 'http'), ('X-Forwarded-Host', 'a.example')],
    ]
    cases = list(
        itertools.product(('http', 'https'), [None, 80, 443, 8080, '8000', 1], HOSTS, ['1.1', '1.0'], ['', '/api', None])
    )
    rng.shuffle(cases)
    for i, (scheme, port, host, hv, root_path) in enumerate(cases[:400]):
        headers = extra_headers[i % len(extra_headers)]
        kw = dict(
            path='/a/b',
            query_string='x=1',
            scheme=scheme,
            port=port,
            host=host,
            http_version=hv,
            headers=headers,
            root_path=root_path,
        )
        wreq = testing.create_req(**kw)
        areq = testing.create_asgi_req(**kw)
        tag = 'req scheme=%r port=%r host=%r hv=%r root=%r hdr=%r' % (
            scheme,
            port,
            host,
            hv,
            root_path,
            headers,
        )
        ws, as_ = snapshot(wreq), snapshot(areq)
        check(ws == as_, tag + ' diff %r' % {k: (ws[k], as_[k]) for k in ws if ws[k] != as_[k]})
        # model for the simplest attributes
        exp_port = int(port) if port is not None else (80 if scheme == 'http' else 443)
        check(wreq.scheme == areq.scheme == scheme, tag + ' scheme')
        if not (headers and isinstance(headers, list)):
            check(wreq.port == areq.port == exp_port, tag + ' port %r %r' % (wreq.port, areq.port))
            if hv != '1.0':
                check(wreq.host == areq.host == host.strip('[]') or wreq.host == areq.host, tag + ' host')

    # No scheme at all on the ASGI side == 'http' on the WSGI side.
    for port in (None, 80, 8080):
        wreq = testing.create_req(port=port)
        areq = testing.create_asgi_req(port=port)
        check(snapshot(wreq) == snapshot(areq), 'default scheme port=%r' % port)
        check(areq.scheme == 'http', 'default scheme is http')


# ---------------------------------------------------------------------------
# Full stack
# ---------------------------------------------------------------------------


class SyncEcho:
    def on_get(self, req, resp):
        resp.media = snapshot(req)
        resp.set_header('X-Seen-Scheme', req.scheme)

    def on_post(self, req, resp):
        raise falcon.HTTPMovedPermanently(req.prefix + '/elsewhere')


class AsyncEcho:
    async def on_get(self, req, resp):
        resp.media = snapshot(req)
        resp.set_header('X-Seen-Scheme', req.scheme)

    async def on_post(self, req, resp):
        raise falcon.HTTPMovedPermanently(req.prefix + '/elsewhere')


def make_apps():
    wapp = falcon.App()
    aapp = falcon.asgi.App()
    wapp.add_route('/echo', SyncEcho())
    aapp.add_route('/echo', AsyncEcho())
    return wapp, aapp


def drive_wsgi_minimal(app, method, scheme, host, port):
    default = 443 if scheme == 'https' else 80
    env = {
        'REQUEST_METHOD': method,
        'SCRIPT_NAME': '',
        'PATH_INFO': '/echo',
        'QUERY_STRING': '',
        'SERVER_NAME': host,
        'SERVER_PORT': str(port),
        'SERVER_PROTOCOL': 'HTTP/1.1',
        'HTTP_HOST': host if port == default else '%s:%d' % (host, port),
        'HTTP_USER_AGENT': testing.helpers.DEFAULT_UA,
        'wsgi.version': (1, 0),
        'wsgi.url_scheme': scheme,
        'wsgi.input': io.BytesIO(b''),
        'wsgi.errors': io.StringIO(),
        'wsgi.multithread': False,
        'wsgi.multiprocess': False,
        'wsgi.run_once': False,
    }
    captured = {}

    def start_response(status, headers, exc_info=None):
        captured['status'] = status
        captured['headers'] = headers

    chunks = app(env, start_response)
    data = b''.join(chunks)
    if hasattr(chunks, 'close'):
        chunks.close()
    return int(captured['status'].split()[0]), sorted(captured['headers']), data


def drive_asgi_minimal(app, method, scheme, host, port):
    default = 443 if scheme == 'https' else 80
    host_header = host if port == default else '%s:%d' % (host, port)
    scope = {
        'type': 'http',
        'asgi': {'version': '3.0', 'spec_version': '2.1'},
        'http_version': '1.1',
        'method': method,
        'scheme': scheme,
        'path': '/echo',
        'raw_path': b'/echo',
        'query_string': b'',
        'root_path': '',
        'server': (host, port),
        'headers': [
            (b'host', host_header.encode()),
            (b'user-agent', testing.helpers.DEFAULT_UA.encode()),
        ],
    }
    events = [{'type': 'http.request', 'body': b'', 'more_body': False}]
    sent = []

    async def receive():
        if events:
            return events.pop(0)
        await asyncio.sleep(3600)

    async def send(event):
        sent.append(event)

    asyncio.run(asyncio.wait_for(app(scope, receive, send), 30))
    start = sent[0]
    headers = sorted((n.decode('latin1'), v.decode('latin1')) for n, v in start['headers'])
    data = b''.join(e.get('body', b'') for e in sent[1:])
    return start['status'], headers, data


def run_full_stack():
    wapp, aapp = make_apps()
    for protocol in ('http', 'https'):
        for port in (None, 80, 443, 8080, 1):
            for host in HOSTS[:3]:
                for method in ('GET', 'POST'):
                    tag = 'stack %s %s port=%r host=%r' % (method, protocol, port, host)
                    kw = dict(path='/echo', protocol=protocol, port=port, host=host)
                    wres = testing.simulate_request(wapp, method, **kw)
                    ares = testing.simulate_request(aapp, method, **kw)
                    check(wres.status == ares.status, tag + ' status %s %s' % (wres.status, ares.status))
                    check(wres.content == ares.content, tag + ' body %r %r' % (wres.content, ares.content))
                    check(dict(wres.headers) == dict(ares.headers), tag + ' headers %r %r' % (wres.headers, ares.headers))

                    eff_port = port if port is not None else (80 if protocol == 'http' else 443)
                    ws, wh, wd = drive_wsgi_minimal(wapp, method, protocol, host, eff_port)
                    as_, ah, ad = drive_asgi_minimal(aapp, method, protocol, host, eff_port)
                    check(ws == as_ == wres.status_code, tag + ' minimal status')
                    check(wd == ad == wres.content, tag + ' minimal body %r %r %r' % (wd, ad, wres.content))
                    check(wh == ah == sorted(wres.headers.items()) or wh == ah, tag + ' minimal headers')

    # Invalid protocol: the ASGI simulated request refuses it up front.
    for bad in ('HTTP', 'ftp', 'htt'):
        try:
            testing.simulate_get(aapp, '/echo', protocol=bad)
        except ValueError as ex:
            check('scheme must be either' in str(ex), 'bad protocol message %r' % bad)
        else:
            check(False, 'bad protocol %r accepted' % bad)

    # ws / wss are accepted by create_scope for http scopes too
    for protocol, exp_port in (('ws', 80), ('wss', 443)):
        res = testing.simulate_get(aapp, '/echo', protocol=protocol)
        check(res.status_code == 200, 'ws-ish protocol %r status' % protocol)
        check(res.json['scheme'] == protocol and res.json['port'] == exp_port, 'ws-ish protocol %r -> %r' % (protocol, res.json))


def main():
    run_create_scope_model()
    run_request_equivalence()
    run_full_stack()
    if FAILURES:
        print('FAIL (%d of %d checks)' % (len(FAILURES), CASES))
        for f in FAILURES[:25]:
            print('  -', f[:400])
        return 1
    print('PASS (%d checks, falcon from %s)' % (CASES, falcon.__file__))
    return 0


if __name__ == '__main__':
    sys.exit(main())
